"""C18 - custom distributions and bijectors are mathematically consistent.

Three components of liesel are driven through their public API (float64) and every observed number is
tied to the real-valued Coq model by a Qed-closed R-lemma  |model(args) - observed| <= tol  proved by
`interval` (shards of <= 40 goals):

  sig   AlgebraicSigmoid.forward / inverse / forward_log_det_jacobian / inverse_log_det_jacobian
  cop   GaussianCopula(dependence, validate_args).log_prob at points of the unit square (the normal
        scores Phi^-1(u) are supplied by tfb.NormalCDF().inverse: the quantile oracle)
  ctor  GaussianCopula constructor guard (validate_args True / False), mapped to {ok, assertion, other}
  mvn   MultivariateNormalDegenerate.log_prob for the three constructors, with / without rank and
        log_pdet, batches, null-space shifts.  prec = H diag(lam) H^T with a rational orthogonal H
        (product of Householder reflections of integer vectors); the model is evaluated in the
        eigen-coordinates  c = H^T (x - loc)  computed exactly with Fractions
  mvnm  the same observation for dim <= 3, stated at matrix level: Coq multiplies out (x-loc) (H diag(lam) H^T) (x-loc)^T
  mvnh  histories of from_penalty / from_penalty_smooth calls on ONE numpy penalty edited in place (ridge added: rank
        changes; rescaled: rank kept; overwritten) and on many short-lived penalties of one shape; every step is tied to the
        model of the CURRENT matrix
  mvns  MultivariateNormalDegenerate.sample: the linear map z -> sample - loc is recovered from the
        captured standard normal draws; the diagonal of  H^T A A^T H  is tied to sqrt_pcov_diag^2

The direct oracle reads the property on the observations: round trip / log-derivative (sigmoid), closed
form with scipy's quantile function (copula), acceptance of every dependence in (-1,1) (ctor), Gaussian
density on the range space + null-space invariance (mvn), A A^T = pseudo-inverse and null coordinates
zero (mvns).
"""
from __future__ import annotations

import math
import os
import random
from fractions import Fraction

os.environ.setdefault("JAX_ENABLE_X64", "1")

import sys

from . import common
from . import c18_tie
from .common import lst, blit, natlit, rlit

HEADER = """From Coq Require Import Reals List.
From Interval Require Import Tactic.
From LV Require Import Analytic.Sigmoid Analytic.Copula Analytic.MvnDegen Analytic.MvnMatrix Analytic.CorrC18.
Import ListNotations.
Open Scope R_scope.
"""

F = Fraction
TOL_DEFAULT = F(1, 10 ** 6)
SHARD = 40


# ----------------------------------------------------------------------------------------------
# small exact helpers
# ----------------------------------------------------------------------------------------------
def fs(x) -> str:
    x = F(x)
    return f"{x.numerator}/{x.denominator}"


def pf(s) -> Fraction:
    return F(str(s))


def ff(x) -> Fraction:
    """exact value of a float64"""
    return F(float(x))


def enc(v) -> str:
    """observation -> JSON string: exact fraction of a finite float, 'nan' / 'inf', or 'raised:<Exception>'"""
    if isinstance(v, str):
        return v
    v = float(v)
    return fs(ff(v)) if math.isfinite(v) else repr(v)


def raised(ex) -> str:
    return "raised:" + type(ex).__name__


def isnum(s) -> bool:
    try:
        pf(s)
        return True
    except Exception:
        return False


def tol_for(v, rel=F(1, 10 ** 9)) -> Fraction:
    return rel * max(1, math.ceil(abs(F(v))))


def householder(v):
    n = len(v)
    ss = sum(a * a for a in v)
    return [[F(int(i == j)) - F(2 * v[i] * v[j], ss) for j in range(n)] for i in range(n)]


def matmul(A, B):
    return [[sum(A[i][k] * B[k][j] for k in range(len(B))) for j in range(len(B[0]))] for i in range(len(A))]


def matvec(A, x):
    return [sum(A[i][k] * x[k] for k in range(len(x))) for i in range(len(A))]


def transpose(A):
    return [list(r) for r in zip(*A)]


def make_H(refl, d):
    H = [[F(int(i == j)) for j in range(d)] for i in range(d)]
    for v in refl:
        H = matmul(H, householder(v))
    return H


def K_from(H, lam):
    d = len(lam)
    HD = [[H[i][j] * lam[j] for j in range(d)] for i in range(d)]
    return matmul(HD, transpose(H))


def fmat(A):
    return [[float(a) for a in r] for r in A]


def optnat(r):
    return "None" if r is None else f"(Some {natlit(r)})"


def optr(v):
    return "None" if v is None else f"(Some {rlit(v)})"


def rl(xs):
    return lst(rlit(x) for x in xs)


# ----------------------------------------------------------------------------------------------
# sigmoid
# ----------------------------------------------------------------------------------------------
SIG_FUN = {"forward": "asig", "inverse": "asig_inv", "fldj": "asig_fldj", "ildj": "asig_ildj"}


def sig_points(rnd, quick):
    xs = [F(0), F(1, 2 ** 20), F(1, 4), F(3, 4), F(1), F(4), F(1000), F(2 ** 20),
          # the tails 1e4 .. 1e8 (1 + x^2 is still finite and exact enough in float64)
          F(9999), F(10001), F(20000), F(2 ** 14), F(10 ** 5), F(2 ** 17) + F(1, 2), F(10 ** 6), F(2 ** 24), F(10 ** 8)]
    xs = xs + [-x for x in xs[1:]]
    ys = [F(0), F(1, 2 ** 20), F(1, 2), F(3, 4), 1 - F(1, 2 ** 10), 1 - F(1, 2 ** 20)]
    ys = ys + [-y for y in ys[1:]]
    nx = 10 if quick else 300
    for _ in range(nx):
        k = rnd.random()
        if k < 0.5:
            xs.append(F(rnd.randint(-4096, 4096), 256))
        elif k < 0.8:
            xs.append(F(rnd.randint(-4096, 4096), 2 ** 16))
        elif k < 0.9:
            xs.append(F(rnd.randint(-2 ** 20, 2 ** 20), 4))
        else:
            xs.append(F(rnd.choice([-1, 1]) * rnd.randint(10 ** 4, 10 ** 8)))
        ys.append(F(rnd.randint(-4095, 4095), 4096))
    return xs, ys


def run_sig(fn, args):
    import jax.numpy as jnp
    from liesel.bijectors import AlgebraicSigmoid
    b = AlgebraicSigmoid()
    a = jnp.asarray([float(x) for x in args], dtype=jnp.float64)
    if fn == "forward":
        return b.forward(a)
    if fn == "inverse":
        return b.inverse(a)
    if fn == "fldj":
        return b.forward_log_det_jacobian(a, event_ndims=0)
    return b.inverse_log_det_jacobian(a, event_ndims=0)


def sig_extras(case):
    """observations the direct oracle needs beyond the value itself (round trip, autodiff derivative)"""
    import jax
    import jax.numpy as jnp
    from liesel.bijectors import AlgebraicSigmoid
    b = AlgebraicSigmoid()
    a = jnp.float64(float(pf(case["arg"])))
    fn = case["fn"]
    # tfp bijectors cache (x, y) pairs, so b.inverse(b.forward(a)) would return `a` without computing anything:
    # the second map is applied by a fresh instance to a fresh array
    if fn == "forward":
        case["roundtrip"] = float(AlgebraicSigmoid().inverse(jnp.float64(float(b.forward(a)))))
    elif fn == "inverse":
        case["roundtrip"] = float(AlgebraicSigmoid().forward(jnp.float64(float(b.inverse(a)))))
    elif fn == "fldj":
        case["deriv"] = float(jax.grad(lambda t: b.forward(t))(a))
    else:
        case["deriv"] = float(jax.grad(lambda t: b.inverse(t))(a))


def gen_sig(ctx, rnd, cases):
    import numpy as np
    xs, ys = sig_points(rnd, ctx.quick)
    n_scalar_diff = 0
    n_scalar = 0
    for fn in ("forward", "fldj", "inverse", "ildj"):
        args = xs if fn in ("forward", "fldj") else ys
        try:
            out = [float(t) for t in np.asarray(run_sig(fn, args))]
        except Exception as ex:
            out = [raised(ex)] * len(args)
        for a, o in zip(args, out):
            c = {"kind": "sig", "fn": fn, "arg": fs(a), "obs": enc(o)}
            try:
                sig_extras(c)
            except Exception as ex:
                c["extras_error"] = raised(ex)
            big = abs(a) >= 1000 if fn in ("forward", "fldj") else abs(a) >= 1 - F(1, 2 ** 10)
            c["stratum"] = f"sig.{fn}." + ("zero" if a == 0 else "extreme" if big else "regular")
            cases.append(c)
        for a, o in list(zip(args, out))[:6]:
            if isinstance(o, str):
                continue
            s = float(np.asarray(run_sig(fn, [a]))[0])
            n_scalar += 1
            n_scalar_diff += int(s != float(o))
    ctx.tested_not_proved.append(
        f"AlgebraicSigmoid: vectorised call vs single-element call on {n_scalar} points: {n_scalar_diff} bitwise differences")


def oracle_sig(c):
    a = float(pf(c["arg"]))
    fn = c["fn"]
    if not isnum(c["obs"]) or "extras_error" in c:
        return f"AlgebraicSigmoid.{fn}({a}) = {c['obs']} {c.get('extras_error', '')}: not a finite number"
    v = float(pf(c["obs"]))
    if fn == "forward":
        if not (-1 <= v <= 1):
            return f"forward({a}) = {v} outside [-1, 1]"
        t = 1e-9 * max(1.0, abs(a)) + 8e-16 * (1 + a * a) * max(1.0, abs(a))
        # |x| > ~9.5e7: x/sqrt(1+x^2) rounds to +-1.0 in float64 and the inverse of the rounded value is infinite; that is
        # rounding, not the map (the forward value itself is tied to the model by its R-lemma)
        if abs(v) < 1.0 and abs(c["roundtrip"] - a) > t:
            return f"inverse(forward({a})) = {c['roundtrip']} does not undo the forward map"
    elif fn == "inverse":
        if abs(c["roundtrip"] - a) > 1e-9:
            return f"forward(inverse({a})) = {c['roundtrip']} does not undo the inverse map"
    elif fn == "fldj":
        # log-derivative of x / sqrt(1 + x^2) in closed form, relative tolerance: valid in the tails, where the
        # autodiff derivative of the implementation's forward loses all digits to cancellation
        want = -1.5 * math.log1p(a * a)
        if abs(v - want) > 1e-9 * max(1.0, abs(want)):
            return (f"forward_log_det_jacobian({a}) = {v} but the log-derivative of x/sqrt(1+x^2) at {a} is "
                    f"-1.5*log(1+x^2) = {want}")
        if abs(a) <= 64:
            d = c["deriv"]
            if not d > 0 or abs(v - math.log(d)) > 1e-9 * max(1.0, abs(v)) + 4e-15 * (1 + a * a):
                return (f"forward_log_det_jacobian({a}) = {v} is not the log of the derivative of forward "
                        f"({d}, log {math.log(d) if d > 0 else 'undefined'})")
    else:
        want = -1.5 * math.log1p(-a * a)
        if abs(v - want) > 1e-9 * max(1.0, abs(want)):
            return (f"inverse_log_det_jacobian({a}) = {v} but the log-derivative of y/sqrt(1-y^2) at {a} is "
                    f"-1.5*log(1-y^2) = {want}")
        d = c["deriv"]
        if not d > 0 or abs(v - math.log(d)) > 1e-9 * max(1.0, abs(v)):
            return (f"inverse_log_det_jacobian({a}) = {v} is not the log of the derivative of inverse "
                    f"({d}, log {math.log(d) if d > 0 else 'undefined'})")
    return None


def stmt_sig(c):
    v = pf(c["obs"])
    return f"close ({SIG_FUN[c['fn']]} {rlit(pf(c['arg']))}) {rlit(v)} {rlit(tol_for(v))}", "c18_close"


# ----------------------------------------------------------------------------------------------
# copula
# ----------------------------------------------------------------------------------------------
def ctor_outcome(rhos, validate, batched, shape=None):
    import jax.numpy as jnp
    from liesel.distributions.copulas import GaussianCopula
    dep = jnp.asarray([float(r) for r in rhos], dtype=jnp.float64) if batched else jnp.float64(float(rhos[0]))
    if shape:
        dep = dep.reshape(tuple(shape))
    try:
        GaussianCopula(dependence=dep, validate_args=validate)
        return "ok"
    except AssertionError:
        return "assertion"
    except Exception as ex:  # any other exception type is not what the model predicts
        return "other:" + type(ex).__name__


def run_cop(rhos, pts, validate, batched, shape=None):
    """log_prob of the copula with dependence rhos[i] at pts[i]; batched: one object with batch shape (n,), or with the
    n-d batch shape `shape` (rhos / pts in row-major order)"""
    import jax.numpy as jnp
    import numpy as np
    from liesel.distributions.copulas import GaussianCopula
    if batched:
        dep = jnp.asarray([float(r) for r in rhos], dtype=jnp.float64)
        x = jnp.asarray([[float(u), float(v)] for u, v in pts], dtype=jnp.float64)
        if shape:
            dep = dep.reshape(tuple(shape))
            x = x.reshape(tuple(shape) + (2,))
        try:
            out = np.asarray(GaussianCopula(dependence=dep, validate_args=validate).log_prob(x))
            if out.shape != (tuple(shape) if shape else (len(rhos),)):
                return [f"raised:log_prob has shape {out.shape}"] * len(rhos)
            return [float(t) for t in out.reshape(-1)]
        except Exception as ex:
            return [raised(ex)] * len(rhos)
    out = []
    for r, (u, v) in zip(rhos, pts):
        try:
            d = GaussianCopula(dependence=jnp.float64(float(r)), validate_args=validate)
            out.append(float(d.log_prob(jnp.asarray([float(u), float(v)], dtype=jnp.float64))))
        except Exception as ex:
            out.append(raised(ex))
    return out


def qnorm_oracle(us):
    import jax.numpy as jnp
    import numpy as np
    import tensorflow_probability.substrates.jax.bijectors as tfb
    return [float(t) for t in np.asarray(tfb.NormalCDF().inverse(jnp.asarray([float(u) for u in us], dtype=jnp.float64)))]


def gen_cop(ctx, rnd, cases):
    edge = 1 - F(1, 2 ** 10)
    rho_fixed = [F(0), F(1, 2), F(-1, 2), F(21, 50), edge, -edge, F(1, 2 ** 10), F(-1, 2 ** 10), F(-3, 4), F(7, 8)]
    # ---- constructor guard
    grid = [F(k, 8) for k in range(-7, 8)] + [edge, -edge, F(-1, 2 ** 10)] + [
        sg * (1 - F(1, 2 ** k)) for k in (14, 20) for sg in (1, -1)]
    outside = [F(3, 2), F(-5, 4), F(2), F(-9, 8)]
    for validate in (True, False):
        for r in grid + outside:
            cases.append({"kind": "ctor", "rhos": [fs(r)], "validate": validate, "batched": False,
                          "obs": ctor_outcome([r], validate, False)})
        for _ in range(3 if ctx.quick else 20):
            rs = [F(rnd.randint(-255, 255), 256) for _ in range(rnd.randint(2, 4))]
            if rnd.random() < 0.3:
                rs[rnd.randrange(len(rs))] = rnd.choice(outside)
            cases.append({"kind": "ctor", "rhos": [fs(r) for r in rs], "validate": validate, "batched": True,
                          "obs": ctor_outcome(rs, validate, True)})
    for c in cases:
        if c["kind"] == "ctor" and "stratum" not in c:
            rs = [pf(r) for r in c["rhos"]]
            inside = all(-1 < r < 1 for r in rs)
            c["stratum"] = ("ctor.validate." if c["validate"] else "ctor.novalidate.") + (
                ("negative" if any(r < 0 for r in rs) else "nonnegative") if inside else "outside")
    # ---- log_prob
    def upt():
        k = rnd.random()
        if k < 0.15:
            return rnd.choice([F(1, 2 ** 10), 1 - F(1, 2 ** 10), F(1, 2), F(1, 2 ** 20)])
        return F(rnd.randint(1, 1023), 1024)

    nrand = 6 if ctx.quick else 300
    rhos = rho_fixed + [F(rnd.randint(-255, 255), 256) for _ in range(nrand)]
    # the SAME dependences and points are evaluated with validate_args False and True (metamorphic pairs)
    plan = []
    rs, pts = [], []
    for r in rhos:
        for _ in range(2):
            rs.append(r)
            pts.append((upt(), upt()))
    # towards the boundary |rho| -> 1 (float64: 1 - rho^2 >= 2^-19 keeps the closed form well conditioned).  Points near
    # the ridge u = v (u = 1 - v for negative dependence), on it, and generic ones
    # k >= 27 lies beyond +-(1 - sqrt(eps_float64)) = +-(1 - 2^-26); there float64 evaluates 1 - rho^2 with a relative
    # error up to 2^-(k+1), so those lemmas carry the tolerance 1e-7 (hp) and are proved with 192-bit intervals
    for k in (12, 16, 20, 30, 40) if ctx.quick else (11, 12, 13, 14, 15, 16, 18, 20, 22, 24, 26, 27, 28, 30, 34, 40, 44):
        for sgn in (1, -1):
            r = sgn * (1 - F(1, 2 ** k))
            a = F(rnd.randint(40, 1000), 1024)
            near = a + F(rnd.choice([-4, -2, -1, 1, 2, 4]), 1024)
            cand = [(a, near), (a, a), (F(1005, 1024), F(1000, 1024)), (upt(), upt())]
            for (u, v) in cand if not ctx.quick else cand[:3]:
                rs.append(r)
                pts.append((u, v if sgn > 0 else 1 - v))
    plan.append((rs, pts, False, None))
    rb = rhos[: (8 if ctx.quick else 60)] + [1 - F(1, 2 ** 14), -(1 - F(1, 2 ** 16)), 1 - F(1, 2 ** 30)]
    plan.append((rb, [(upt(), upt()) for _ in rb], True, None))       # 1-d batched object, fresh points
    # dependence with 2 and 3 batch dimensions, pairwise different entries: square, non-square, 3-d
    shapes = [(2, 2), (2, 3), (2, 2, 2)] + ([] if ctx.quick else [(3, 3), (3, 2), (1, 4), (2, 3, 2), (3, 1, 2)])
    for shape in shapes:
        n = math.prod(shape)
        rn = [F(-4, 5), F(1, 2), F(1, 10), F(9, 10)] if shape == (2, 2) else []
        while len(rn) < n:
            r = F(rnd.randint(-250, 250), 256)
            if r not in rn:
                rn.append(r)
        same = rnd.random() < 0.5        # one shared point for all cells (as in the demonstration) or one per cell
        p0 = (upt(), upt())
        plan.append((rn, [p0 if same else (upt(), upt()) for _ in rn], True, list(shape)))
    first = {}
    for validate in (False, True):
        for gi, (rs, pts, batched, shape) in enumerate(plan):
            if shape:
                cases.append({"kind": "ctor", "rhos": [fs(r) for r in rs], "validate": validate, "batched": True,
                              "shape": shape, "obs": ctor_outcome(rs, validate, True, shape),
                              "stratum": ("ctor.validate." if validate else "ctor.novalidate.") + f"batch_ndim={len(shape)}"})
            obs = run_cop(rs, pts, validate, batched, shape)
            qx = qnorm_oracle([p[0] for p in pts])
            qy = qnorm_oracle([p[1] for p in pts])
            for i, (r, (u, v)) in enumerate(zip(rs, pts)):
                c = {"kind": "cop", "rho": fs(r), "u": fs(u), "v": fs(v), "validate": validate, "batched": batched,
                     "qx": fs(ff(qx[i])), "qy": fs(ff(qy[i])), "obs": enc(obs[i])}
                if 1 - abs(r) < F(1, 2 ** 23):
                    c["hp"] = True
                c["stratum"] = "cop." + ("validate." if validate else "novalidate.") + (
                    "rho=0" if r == 0 else "rho_beyond_1-2^-26" if 1 - abs(r) < F(1, 2 ** 26) else
                    "rho_boundary" if abs(r) > F(999, 1000) else
                    "rho_near_pm1" if abs(r) > F(99, 100) else "rho<0" if r < 0 else "rho>0") + (
                    ".batched" if batched else "")
                if shape:
                    c.update({"shape": shape, "idx": i, "all_rhos": [fs(t) for t in rs],
                              "all_pts": [[fs(a), fs(b)] for a, b in pts]})
                    c["stratum"] = ("cop." + ("validate." if validate else "novalidate.") + f"batch_ndim={len(shape)}."
                                    + ("square" if len(set(shape)) == 1 else "nonsquare"))
                if validate:
                    c["obs_novalidate"] = first[(gi, i)]       # identical inputs, validate_args=False
                else:
                    first[(gi, i)] = c["obs"]
                cases.append(c)


def closed_form(rho, x, y):
    """closed-form copula log-density; exact rational arithmetic up to the logarithm (near |rho| = 1 and on the ridge
    the float evaluation of this formula cancels catastrophically)"""
    rho, x, y = F(rho), F(x), F(y)
    om = 1 - rho * rho
    return -0.5 * math.log(float(om)) - float((rho * rho * (x * x + y * y) - 2 * rho * x * y) / (2 * om))


def oracle_cop(c):
    from scipy.stats import norm
    rho, u, v = float(pf(c["rho"])), float(pf(c["u"])), float(pf(c["v"]))
    where = ""
    if c.get("shape"):
        where = (f" [cell {c['idx']} (row-major) of the dependence batch of shape {tuple(c['shape'])} = "
                 f"{[float(pf(t)) for t in c['all_rhos']]}]")
    if not isnum(c["obs"]):
        return (f"GaussianCopula(dependence={rho}, validate_args={c['validate']}).log_prob([{u}, {v}]) gives {c['obs']} "
                f"(dependence in (-1, 1), point inside the unit square){where}")
    obs = float(pf(c["obs"]))
    if isnum(c.get("obs_novalidate", "")):
        other = float(pf(c["obs_novalidate"]))
        if abs(obs - other) > 1e-12 * max(1.0, abs(other)):
            return (f"GaussianCopula(dependence={rho}).log_prob([{u}, {v}]) = {obs} with validate_args=True but {other} with "
                    f"validate_args=False on identical inputs{where}")
    x, y = float(norm.ppf(u)), float(norm.ppf(v))
    want = closed_form(pf(c["rho"]), x, y)
    if abs(obs - want) > (1e-6 if c.get("hp") else 1e-7) * max(1.0, abs(want)):
        return (f"GaussianCopula(dependence={rho}, validate_args={c['validate']}).log_prob([{u}, {v}]) = {obs} "
                f"but the bivariate Gaussian copula log-density is {want}{where}")
    return None


def oracle_ctor(c):
    rs = [pf(r) for r in c["rhos"]]
    if all(-1 < r < 1 for r in rs) and c["obs"] != "ok":
        return (f"GaussianCopula(dependence={[float(r) for r in rs] if c['batched'] else float(rs[0])}"
                f"{' reshaped to ' + str(tuple(c['shape'])) if c.get('shape') else ''}, "
                f"validate_args={c['validate']}) raised {c['obs']} although every dependence lies in (-1, 1)")
    return None


def stmt_cop(c):
    v = pf(c["obs"])
    hp = c.get("hp")
    return (f"close (copula_logpdf {rlit(pf(c['rho']))} {rlit(pf(c['qx']))} {rlit(pf(c['qy']))}) "
            f"{rlit(v)} {rlit(tol_for(v, F(1, 10 ** 7)) if hp else tol_for(v))}"), "c18_close_hp" if hp else "c18_close"


def stmt_ctor(c):
    res = {"ok": "CtorOk", "assertion": "CtorAssertionError"}.get(c["obs"])
    if res is None:       # an exception the model does not have: the lemma cannot hold
        return "False", "c18_ctor"
    return f"ctor_model {blit(c['validate'])} {rl(pf(r) for r in c['rhos'])} = {res}", "c18_ctor"


# ----------------------------------------------------------------------------------------------
# degenerate multivariate normal: log_prob
# ----------------------------------------------------------------------------------------------
POS_POOL = ([F(1, 2 ** k) for k in range(0, 17)] + [F(m, 8) for m in range(1, 65)] + [F(2 ** k) for k in range(1, 7)])


def gen_refl(rnd, d, style):
    if style == "identity" or d == 1:
        return [] if rnd.random() < 0.5 or d > 1 else [[1]]
    out = []
    for _ in range(rnd.randint(1, 3)):
        while True:
            v = [rnd.randint(-2, 2) for _ in range(d)]
            if sum(1 for a in v if a) >= 2:
                break
        out.append(v)
    if style == "dyadic" and d >= 4:
        out = [[rnd.choice([-1, 1]) for _ in range(4)] + [0] * (d - 4)]
        if rnd.random() < 0.5:
            w = [0] * d
            i, j = rnd.sample(range(d), 2)
            w[i], w[j] = 1, rnd.choice([-1, 1])
            out.append(w)
    return out


def gen_lam(rnd, d, rank, repeated=False, lo=F(1, 2 ** 16)):
    """rank positive eigenvalues within a factor 2^10 of each other (eigh's absolute error is ~1e-16 * ||prec||; the
    log-pseudo-determinant is computed from its eigenvalues), preceded by d - rank exact zeros"""
    pos = []
    top = rnd.choice([p for p in POS_POOL if p >= lo])
    pool = [p for p in POS_POOL if p >= lo and top / 1024 <= p <= top]
    for k in range(rank):
        if k == 0:
            pos.append(top)
        elif repeated and rnd.random() < 0.6:
            pos.append(rnd.choice(pos))
        else:
            pos.append(rnd.choice(pool))
    return [F(0)] * (d - rank) + sorted(pos)


def mvn_elem_lam(g, e):
    """eigenvalues (ascending) of the precision matrix of element e"""
    el = g["elems"][e]
    lam = [pf(t) for t in el["lam"]]
    if g["ctor"] == "pen":
        return [t / pf(el["var"]) for t in lam]
    if g["ctor"] == "smooth":
        return [t * pf(el["smooth"]) for t in lam]
    return lam


def mvn_build(g):
    """the real distribution object described by group g"""
    import jax.numpy as jnp
    from liesel.distributions.mvn_degen import MultivariateNormalDegenerate as M
    d = g["dim"]
    H = make_H(g["refl"], d)
    mode = g["batch"]
    els = g["elems"]

    def arr(x):
        return jnp.asarray(x, dtype=jnp.float64)

    Ks = [fmat(K_from(H, [pf(t) for t in el["lam"]])) for el in els]
    locs = [[float(pf(t)) for t in el["loc"]] for el in els]
    K = arr(Ks) if mode == "prec" else arr(Ks[0])
    loc = arr(locs) if mode == "loc" else arr(locs[0])
    kw = {}
    if g["rk"] is not None:
        kw["rank"] = int(g["rk"])
    if g["lp"] is not None:
        lps = [float(pf(t)) for t in g["lp"]]
        kw["log_pdet"] = arr(lps) if mode == "prec" else lps[0]
    if g["ctor"] == "plain":
        if g["tol"] is not None:
            kw["tol"] = float(pf(g["tol"]))
        return M(loc=loc, prec=K, **kw)
    if g["ctor"] == "pen":
        vs = [float(pf(el["var"])) for el in els]
        return M.from_penalty(loc=loc, var=arr(vs) if mode == "var" else arr(vs[0]), pen=K, **kw)
    ss = [float(pf(el["smooth"])) for el in els]
    return M.from_penalty_smooth(loc=loc, smooth=arr(ss) if mode == "var" else arr(ss[0]), pen=K, **kw)


def mvn_run(g, with_jit=False):
    """obs[p][e] = log_prob of element e at point p; also single-point and jit evaluations (tested only)"""
    import jax
    import jax.numpy as jnp
    import numpy as np
    dist = mvn_build(g)
    X = jnp.asarray([[float(pf(t)) for t in p["x"]] for p in g["points"]], dtype=jnp.float64)
    B = len(g["elems"])
    if g["batch"] == "none":
        out = np.asarray(dist.log_prob(X)).reshape(len(g["points"]), 1)
    else:
        out = np.asarray(dist.log_prob(X[:, None, :])).reshape(len(g["points"]), B)
    single = np.asarray(dist.log_prob(X[0])).reshape(-1)
    jitted = single
    if with_jit:
        jitted = np.asarray(jax.jit(lambda x: mvn_build(g).log_prob(x))(X[0])).reshape(-1)
    return out, single, jitted


def mvn_coords(g, e, p):
    """exact eigen-coordinates  H^T (x - loc_e)"""
    H = make_H(g["refl"], g["dim"])
    x = [pf(t) for t in g["points"][p]["x"]]
    loc = [pf(t) for t in g["elems"][e]["loc"]]
    return matvec(transpose(H), [a - b for a, b in zip(x, loc)])


def gen_mvn_group(rnd, spec):
    """spec: dict(dim, style, ctor, rkmode, lpmode, batch, rank, tolmode, locmode, repeated)"""
    d = spec["dim"]
    rank = spec["rank"]
    varmode = spec.get("varmode", "normal")
    style = spec["style"]
    if varmode == "tiny":
        # pen / var is huge: keep the float evaluation of the quadratic form free of cancellation between null-space and
        # range-space components (diagonal matrix when rank-deficient, exactly representable H otherwise)
        style = "identity" if (rank < d or d < 4) else "dyadic"
    refl = gen_refl(rnd, d, style)
    H = make_H(refl, d)
    B = 1 if spec["batch"] == "none" else rnd.randint(2, 3)
    tol = None
    lo = F(1, 2 ** 16)
    if spec["tolmode"] == "custom":
        tol = F(1, 16)
    els = []
    base_lam = gen_lam(rnd, d, rank, spec["repeated"])
    if spec["tolmode"] == "custom" and rank >= 1:
        # one positive eigenvalue below the custom tolerance: dropped from rank / log-pdet, kept in the quadratic form
        base_lam = sorted([F(0)] * (d - rank) + [F(1, 64)] + [rnd.choice([p for p in POS_POOL if p >= F(1, 4)]) for _ in range(rank - 1)])
    base_loc = [F(0)] * d if spec["locmode"] == "zero" else [F(rnd.randint(-32, 32), 8) for _ in range(d)]
    VARS = {"normal": [F(1), F(2), F(1, 2), F(4), F(1, 8), F(8), F(3, 4), F(5, 2)],
            # far outside the gap of the PLAIN constructor (eigenvalues of pen / var below / null noise near 1e-6):
            # only used with from_penalty / from_penalty_smooth, which take rank and log-pdet from pen itself
            "large": [F(2 ** 30), F(10 ** 9), F(10 ** 7), F(3 * 2 ** 22)],
            "tiny": [F(1, 2 ** 20), F(1, 2 ** 30), F(1, 10 ** 6)]}
    assert varmode == "normal" or spec["ctor"] in ("pen", "smooth")
    base_var = rnd.choice(VARS[varmode])
    mixed = spec.get("scalemode") == "mixed"
    if mixed:
        assert spec["batch"] == "prec" and spec["rkmode"] == "none" and spec["lpmode"] == "none"
        B = max(B, 2)
        big_top = F(2 ** rnd.choice([14, 17, 20, 26]))
        big_first = rnd.random() < 0.5
    for e in range(B):
        lam = base_lam if (e == 0 or spec["batch"] != "prec") else gen_lam(rnd, d, rank, spec["repeated"])
        if mixed:
            # members of one batch whose scales differ by 1e3 .. 1e8: one full-rank member with eigenvalues around
            # 2^14 .. 2^26, the others rank-deficient with eigenvalues in [2^-9, 2^-4] (all far above tol = 1e-6);
            # every member is judged against its OWN single-matrix model value
            if (e == 0) == big_first:
                lam = sorted([big_top] + [big_top / 2 ** rnd.randint(0, 10) for _ in range(d - 1)])
            else:
                lam = [F(0)] * (d - rank) + sorted(F(1, 2 ** rnd.randint(4, 9)) for _ in range(rank))
        loc = base_loc if (e == 0 or spec["batch"] != "loc") else [F(rnd.randint(-32, 32), 8) for _ in range(d)]
        var = base_var if (e == 0 or spec["batch"] != "var") else rnd.choice(
            [F(1, 4), F(2), F(3), F(1, 2), F(6)] if varmode == "normal" else [v for v in VARS[varmode] if v != base_var])
        el = {"lam": [fs(t) for t in lam], "loc": [fs(t) for t in loc]}
        if spec["ctor"] == "pen":
            el["var"] = fs(var)
        if spec["ctor"] == "smooth":
            el["smooth"] = fs(1 / var)
        els.append(el)
    g = {"dim": d, "refl": refl, "ctor": spec["ctor"], "batch": spec["batch"], "elems": els,
         "tol": None if tol is None else fs(tol), "rk": None, "lp": None, "spec": True, "varmode": varmode,
         "scalemode": spec.get("scalemode")}
    t = tol if tol is not None else TOL_DEFAULT
    lam0 = [pf(x) for x in els[0]["lam"]]
    true_rank = sum(1 for x in lam0 if x > t)
    if spec["rkmode"] == "true":
        g["rk"] = true_rank
    elif spec["rkmode"] == "less":
        g["rk"] = max(true_rank - 1, 0)
        g["spec"] = g["rk"] == true_rank
    if spec["lpmode"] == "given":
        # the log-pseudo-determinant the caller would pass (of pen for the penalty constructors, of prec otherwise)
        lps = []
        for el in els:
            lam = [pf(x) for x in el["lam"]]
            lps.append(fs(ff(sum(math.log(float(x)) for x in lam if x > t))))
        g["lp"] = lps if spec["batch"] == "prec" else lps[:1]
    if tol is not None and any(0 < x <= tol for x in lam0):
        g["spec"] = False      # eigenvalue inside (0, tol]: outside the spectral-gap hypothesis (pins the model only)
    # points: x = H c + loc_0 ; plus null-space shifts of the first point
    pts = []
    npts = spec.get("npts", 2)
    for k in range(npts):
        c = [F(rnd.randint(-64, 64), 8) for _ in range(d)]
        if k == 0 and rnd.random() < 0.3:
            c = [F(0)] * d
        x = [a + b for a, b in zip(matvec(H, c), [pf(t) for t in els[0]["loc"]])]
        pts.append({"x": [fs(t) for t in x], "shift_of": None})
    nullidx = [i for i, x in enumerate(lam0) if x == 0]
    if nullidx and spec["batch"] != "prec":
        n = [F(0)] * d
        for i in nullidx:
            n[i] = F(rnd.choice([-1, 1]) * rnd.randint(1, 512), 8)
        x0 = [pf(t) for t in pts[0]["x"]]
        xs = [a + b for a, b in zip(x0, matvec(H, n))]
        pts.append({"x": [fs(t) for t in xs], "shift_of": 0})
    g["points"] = pts
    return g


MVN_SPECS_FIXED = [
    # dim style ctor rkmode lpmode batch rank tolmode locmode repeated
    (3, "int", "plain", "none", "none", "none", 2, "default", "zero", False),
    (3, "int", "pen", "none", "none", "none", 2, "default", "zero", False),
    (3, "int", "smooth", "none", "none", "none", 2, "default", "zero", False),
    (3, "int", "plain", "true", "given", "none", 2, "default", "loc", False),
    (4, "dyadic", "pen", "true", "given", "none", 2, "default", "loc", False),
    (4, "dyadic", "smooth", "true", "none", "none", 3, "default", "loc", True),
    (4, "int", "pen", "none", "given", "none", 1, "default", "loc", False),
    (3, "int", "plain", "less", "none", "none", 3, "default", "zero", False),
    (4, "int", "pen", "less", "none", "none", 2, "default", "loc", False),
    (3, "int", "plain", "none", "none", "none", 2, "custom", "zero", False),
    (2, "int", "plain", "none", "none", "none", 0, "default", "loc", False),
    (1, "identity", "plain", "none", "none", "none", 1, "default", "loc", False),
    (1, "identity", "pen", "none", "none", "none", 0, "default", "zero", False),
    (5, "int", "plain", "none", "none", "none", 5, "default", "loc", False),
    (3, "int", "plain", "none", "none", "prec", 2, "default", "loc", False),
    (3, "int", "plain", "true", "given", "prec", 2, "default", "loc", False),
    (3, "int", "plain", "none", "none", "loc", 2, "default", "loc", False),
    (3, "int", "pen", "none", "none", "var", 2, "default", "loc", False),
    (4, "dyadic", "smooth", "none", "none", "var", 3, "default", "zero", True),
    (3, "identity", "pen", "true", "none", "prec", 1, "default", "loc", False),
    (6, "dyadic", "pen", "none", "none", "none", 4, "default", "loc", True),
]
SPEC_KEYS = ("dim", "style", "ctor", "rkmode", "lpmode", "batch", "rank", "tolmode", "locmode", "repeated")


def random_mvn_spec(rnd):
    d = rnd.choice([1, 2, 2, 3, 3, 4, 4, 5, 6])
    ctor = rnd.choice(["plain", "pen", "smooth"])
    batch = rnd.choice(["none", "none", "prec", "loc", "var" if ctor != "plain" else "loc"])
    rank = rnd.randint(0, d)
    rkmode = rnd.choice(["none", "none", "true", "less"])
    lpmode = rnd.choice(["none", "none", "given"]) if rkmode != "less" else "none"
    return dict(zip(SPEC_KEYS, (d, rnd.choice(["int", "dyadic", "identity"]), ctor, rkmode, lpmode, batch, rank,
                                "custom" if (ctor == "plain" and rnd.random() < 0.15) else "default",
                                rnd.choice(["zero", "loc"]), rnd.random() < 0.3)))


def family_groups(rnd, spec, with_plain=True):
    """the same (H, pen, var, loc, points) under every constructor, with and without the (true) rank / log_pdet:
    pen, pen+args, smooth, smooth+args, plain(pen/var), plain(pen/var)+args.  with_plain=False: the from_penalty
    family only (agreement for every var > 0; the plain constructor needs the gap on pen / var)"""
    import copy
    base = gen_mvn_group(rnd, dict(spec, ctor="pen", rkmode="none", lpmode="none", batch="none", tolmode="default"))
    el = base["elems"][0]
    pen = [pf(t) for t in el["lam"]]
    var = pf(el["var"])
    prec = [x / var for x in pen]
    rank = sum(1 for x in pen if x > TOL_DEFAULT)
    lp_pen = fs(ff(sum(math.log(float(x)) for x in pen if x > TOL_DEFAULT)))
    lp_prec = fs(ff(sum(math.log(float(x)) for x in prec if x > TOL_DEFAULT)))
    out = [(base, "none", "none")]
    for ctor in ("pen", "smooth", "plain") if with_plain else ("pen", "smooth"):
        for given in (False, True):
            if ctor == "pen" and not given:
                continue
            g = copy.deepcopy(base)
            g["ctor"] = ctor
            e = g["elems"][0]
            e.pop("var", None)
            if ctor == "plain":
                e["lam"] = [fs(x) for x in prec]
            elif ctor == "pen":
                e["var"] = fs(var)
            else:
                e["smooth"] = fs(1 / var)
            if given:
                g["rk"] = rank
                g["lp"] = [lp_prec if ctor == "plain" else lp_pen]
            out.append((g, "true" if given else "none", "given" if given else "none"))
    return out


def gen_mvn(ctx, rnd, cases):
    import numpy as np
    specs = [dict(zip(SPEC_KEYS, s)) for s in MVN_SPECS_FIXED]
    for _ in range(6 if ctx.quick else 200):
        specs.append(random_mvn_spec(rnd))
    groups = [(gen_mvn_group(rnd, spec), spec["rkmode"], spec["lpmode"], None) for spec in specs]
    fam_specs = [dict(zip(SPEC_KEYS, (3, "int", "pen", "none", "none", "none", 2, "default", "loc", False))),
                 dict(zip(SPEC_KEYS, (4, "dyadic", "pen", "none", "none", "none", 3, "default", "loc", True)))]
    for _ in range(0 if ctx.quick else 30):
        sp = random_mvn_spec(rnd)
        sp["dim"] = max(sp["dim"], 2)
        sp["rank"] = rnd.randint(1, sp["dim"])
        fam_specs.append(sp)
    for fi, sp in enumerate(fam_specs):
        fam = family_groups(rnd, dict(sp, npts=1))
        for k, (g, rkm, lpm) in enumerate(fam):
            groups.append((g, rkm, lpm, None if k == 0 else fam[0][0]))
    # from_penalty family with a huge / tiny variance (smoothing parameter): forced strata, plain constructor excluded
    K = SPEC_KEYS
    ext_specs = [dict(zip(K, (3, "int", "pen", "none", "none", "none", 2, "default", "loc", False)), varmode="large"),
                 dict(zip(K, (6, "dyadic", "pen", "none", "none", "none", 4, "default", "loc", False)), varmode="large"),
                 dict(zip(K, (4, "dyadic", "pen", "none", "none", "none", 4, "default", "loc", False)), varmode="tiny"),
                 dict(zip(K, (3, "identity", "pen", "none", "none", "none", 2, "default", "loc", False)), varmode="tiny")]
    ext_single = [dict(zip(K, (3, "int", "pen", "none", "none", "var", 2, "default", "loc", False)), varmode="large"),
                  dict(zip(K, (4, "dyadic", "smooth", "none", "none", "var", 3, "default", "zero", True)), varmode="large"),
                  dict(zip(K, (3, "int", "smooth", "none", "none", "none", 1, "default", "loc", False)), varmode="large"),
                  dict(zip(K, (2, "identity", "smooth", "true", "given", "none", 1, "default", "loc", False)), varmode="tiny")]
    for _ in range(0 if ctx.quick else 24):
        sp = random_mvn_spec(rnd)
        sp.update(dim=max(sp["dim"], 2), tolmode="default", varmode=rnd.choice(["large", "large", "tiny"]))
        sp["rank"] = rnd.randint(1, sp["dim"])
        if rnd.random() < 0.5:
            ext_specs.append(sp)
        else:
            sp["ctor"] = rnd.choice(["pen", "smooth"])
            sp["batch"] = rnd.choice(["none", "var", "loc"])
            if sp["rkmode"] == "less":
                sp["rkmode"] = "none"
            ext_single.append(sp)
    # batches whose members differ in scale by 1e3 .. 1e8 (precision batches and penalty batches, no rank / log_pdet)
    mix = [dict(zip(K, (3, "int", "plain", "none", "none", "prec", 2, "default", "loc", False)), scalemode="mixed"),
           dict(zip(K, (4, "dyadic", "pen", "none", "none", "prec", 2, "default", "loc", False)), scalemode="mixed"),
           dict(zip(K, (3, "int", "smooth", "none", "none", "prec", 1, "default", "zero", False)), scalemode="mixed")]
    for _ in range(0 if ctx.quick else 20):
        mix.append(dict(zip(K, (rnd.randint(2, 5), rnd.choice(["int", "dyadic", "identity"]), rnd.choice(["plain", "pen", "smooth"]),
                                "none", "none", "prec", 0, "default", rnd.choice(["zero", "loc"]), False)), scalemode="mixed"))
        mix[-1]["rank"] = rnd.randint(1, mix[-1]["dim"] - 1)
    for sp in mix:
        groups.append((gen_mvn_group(rnd, sp), "none", "none", None))
    for sp in ext_specs:
        fam = family_groups(rnd, dict(sp, npts=2), with_plain=False)
        for k, (g, rkm, lpm) in enumerate(fam):
            groups.append((g, rkm, lpm, None if k == 0 else fam[0][0]))
    for sp in ext_single:
        groups.append((gen_mvn_group(rnd, sp), sp["rkmode"], sp["lpmode"], None))
    n_single = n_single_diff = n_jit = 0
    jit_max = 0.0
    for gi, (g, rkmode, lpmode, ref) in enumerate(groups):
        spec = {"rkmode": rkmode, "lpmode": lpmode}
        wj = gi % 5 == 0
        try:
            out, single, jitted = mvn_run(g, wj)
        except Exception as ex:
            out = [[raised(ex)] * len(g["elems"]) for _ in g["points"]]
            single = jitted = None
        g["obs"] = [[enc(v) for v in row] for row in out]
        if single is None:
            single = jitted = np.zeros(0)
            out = np.zeros((1, 0))
        n_single += len(single)
        n_single_diff += int(np.sum(np.abs(single - out[0]) > 1e-12 * np.maximum(1, np.abs(out[0]))))
        n_jit += len(jitted) if wj else 0
        if len(jitted):
            jit_max = max(jit_max, float(np.max(np.abs(jitted - out[0]) / np.maximum(1, np.abs(out[0])))))
        if ref is not None:
            g["ref_obs"] = ref["obs"]          # the same inputs through the first constructor of the family
        for p in range(len(g["points"])):
            for e in range(len(g["elems"])):
                c = {"kind": "mvn", "group": g, "e": e, "p": p}
                lam = mvn_elem_lam(g, e)
                nz = sum(1 for x in lam if x > 0)
                c["stratum"] = (f"mvn.{g['ctor']}.rank=" + ("0" if nz == 0 else "full" if nz == g["dim"] else "deficient")
                                + f".rk={spec['rkmode']}.lp={spec['lpmode']}.batch={g['batch']}"
                                + (".tol=custom" if g["tol"] else "") + (".nullshift" if g["points"][p]["shift_of"] is not None else "")
                                + (".family" if ref is not None else "")
                                + ("" if g.get("varmode", "normal") == "normal" else f".var={g['varmode']}")
                                + (".scales=mixed" if g.get("scalemode") else ""))
                cases.append(c)
                if g["dim"] <= 3 and p == 0 and g["refl"]:
                    cases.append({"kind": "mvnm", "group": g, "e": e, "p": p,
                                  "stratum": f"mvnm.matrix_level.{g['ctor']}.dim={g['dim']}"})
    ctx.tested_not_proved.append(
        f"MultivariateNormalDegenerate.log_prob: batch of points vs single point on {n_single} values: "
        f"{n_single_diff} differences > 1e-12; eager vs jax.jit on {n_jit} values: max relative difference {jit_max:.2e}")


def range_gaussian(lam, c):
    s = 0.0
    for l, ci in zip(lam, c):
        if l > 0:
            s += -0.5 * float(l) * float(ci) ** 2 - 0.5 * math.log(2 * math.pi) + 0.5 * math.log(float(l))
    return s


def oracle_mvn(c):
    g, e, p = c["group"], c["e"], c["p"]
    raw = g["obs"][p][e]
    if not isnum(raw):
        return f"log_prob gives {raw} ({describe_mvn(c)})"
    obs = float(pf(raw))
    sh = g["points"][p]["shift_of"]
    if sh is not None and isnum(g["obs"][sh][e]):
        base = float(pf(g["obs"][sh][e]))
        if abs(obs - base) > 1e-8 * max(1.0, abs(base)):
            return (f"log_prob changes from {base} to {obs} when a vector of the null space of the precision matrix "
                    f"is added to x ({describe_mvn(c)})")
    if "ref_obs" in g and isnum(g["ref_obs"][p][e]):
        ref = float(pf(g["ref_obs"][p][e]))
        if abs(obs - ref) > 1e-9 * max(1.0, abs(ref)):
            return (f"constructors disagree: log_prob = {obs}, but from_penalty(var, pen) without rank / log_pdet gives {ref} "
                    f"for the same precision matrix and point ({describe_mvn(c)})")
    lam = mvn_elem_lam(g, e)
    if not g["spec"]:
        if g["tol"] and g["ctor"] == "plain" and g["rk"] is None and g["lp"] is None:
            # documented meaning of `tol`: eigenvalues <= tol are treated as zeros in rank and log_pdet
            t = pf(g["tol"])
            cs = mvn_coords(g, e, p)
            r = sum(1 for x in lam if x > t)
            want = 0.5 * (-sum(float(x) * float(ci) ** 2 for x, ci in zip(lam, cs))
                          - (r * math.log(2 * math.pi) - sum(math.log(float(x)) for x in lam if x > t)))
            if abs(obs - want) > 1e-8 * max(1.0, abs(want)):
                return (f"log_prob = {obs}, but with eigenvalues <= tol = {float(t)} treated as zeros in rank and log_pdet "
                        f"(documented meaning of tol) it is {want} ({describe_mvn(c)})")
        return None
    want = range_gaussian(lam, mvn_coords(g, e, p))
    if abs(obs - want) > 1e-8 * max(1.0, abs(want)):
        return (f"log_prob = {obs} but the Gaussian log-density on the range space of the precision matrix is {want} "
                f"({describe_mvn(c)})")
    return None


def describe_mvn(c):
    g, e, p = c["group"], c["e"], c["p"]
    el = g["elems"][e]
    extra = {k: el[k] for k in ("var", "smooth") if k in el}
    if g["batch"] == "prec":
        extra["eigenvalues_of_all_batch_members"] = [m["lam"] for m in g["elems"]]
    return (f"constructor={g['ctor']} dim={g['dim']} eigenvalues={el['lam']} {extra} rank_arg={g['rk']} "
            f"log_pdet_arg={'given' if g['lp'] else None} tol={g['tol']} batch={g['batch']} element={e} x={g['points'][p]['x']} loc={el['loc']}")


def stmt_mvn(c):
    g, e, p = c["group"], c["e"], c["p"]
    v = pf(g["obs"][p][e])
    return f"close (logpdf {mvn_dist_term(g, e)} (vec {rl(mvn_coords(g, e, p))})) {rlit(v)} {rlit(tol_for(v))}", "c18_close"


def stmt_mvnm(c):
    """matrix level: Coq multiplies out  (x - loc) (H diag(lam) H^T) (x - loc)^T  itself"""
    g, e, p = c["group"], c["e"], c["p"]
    H = make_H(g["refl"], g["dim"])
    x = [pf(t) for t in g["points"][p]["x"]]
    loc = [pf(t) for t in g["elems"][e]["loc"]]
    xc = [a - b for a, b in zip(x, loc)]
    v = pf(g["obs"][p][e])
    rows = lst(rl(r) for r in H)
    return (f"close (logpdf_matrix {mvn_dist_term(g, e)} (matl {rows}) (vec {rl(xc)})) {rlit(v)} {rlit(tol_for(v))}",
            "c18_close")


def mvn_dist_term(g, e):
    el = g["elems"][e]
    lam = [pf(t) for t in el["lam"]]
    lp = None
    if g["lp"] is not None:
        lp = pf(g["lp"][e] if g["batch"] == "prec" else g["lp"][0])
    if g["ctor"] == "plain":
        tol = pf(g["tol"]) if g["tol"] else TOL_DEFAULT
        dist = f"(mvn_plain {rl(lam)} {optnat(g['rk'])} {optr(lp)} {rlit(tol)})"
    elif g["ctor"] == "pen":
        dist = f"(mvn_pen {rl(lam)} {rlit(pf(el['var']))} {optnat(g['rk'])} {optr(lp)})"
    else:
        dist = f"(mvn_smooth {rl(lam)} {rlit(pf(el['smooth']))} {optnat(g['rk'])} {optr(lp)})"
    return dist


# ----------------------------------------------------------------------------------------------
# degenerate multivariate normal: sampling
# ----------------------------------------------------------------------------------------------
def mvns_run(g):
    """draw samples, capture the standard normal draws, recover A with  sample - loc = A z"""
    import jax
    import numpy as np
    from unittest import mock
    d = g["dim"]
    dist = mvn_build(g)
    n = 4 * d + 4
    rec = []
    real = jax.random.normal

    def spy(*a, **k):
        z = real(*a, **k)
        try:
            rec.append(np.asarray(z))
        except Exception:
            pass
        return z

    key = jax.random.PRNGKey(int(g["seed"]))
    with mock.patch("jax.random.normal", spy):
        S = np.asarray(dist.sample(n, seed=key))
    B = len(g["elems"])
    S = S.reshape(n, B, d)
    Z = None
    for z in rec:
        if z.size == n * B * d:
            Z = z.reshape(n, B, d)
    how = "captured"
    if Z is None:
        Z = np.asarray(real(key, (n, B, d, 1))).reshape(n, B, d)
        how = "rederived"
    H = np.asarray(fmat(make_H(g["refl"], d)))
    res = []
    for e in range(B):
        loc = np.asarray([float(pf(t)) for t in g["elems"][e if g["batch"] == "loc" else 0]["loc"]])
        C = S[:, e, :] - loc
        At, resid, _, _ = np.linalg.lstsq(Z[:, e, :], C, rcond=None)
        fit = float(np.max(np.abs(Z[:, e, :] @ At - C))) if n else 0.0
        A = At.T
        Mm = H.T @ A @ A.T @ H
        E = C @ H                       # eigen-coordinates of the centred samples
        res.append({"fit": fit, "M": Mm.tolist(), "E_absmax": np.max(np.abs(E), axis=0).tolist(), "how": how})
    return res


def gen_mvns(ctx, rnd, cases):
    specs = [
        (3, "int", "plain", "none", "none", "none", 2, "default", "loc", False),
        (4, "dyadic", "pen", "none", "none", "none", 2, "default", "loc", False),
        (3, "int", "plain", "none", "none", "none", 2, "custom", "zero", False),
        (2, "int", "plain", "none", "none", "none", 0, "default", "loc", False),
        (3, "int", "smooth", "true", "given", "none", 3, "default", "loc", True),
        (3, "int", "plain", "none", "none", "prec", 2, "default", "loc", False),
    ]
    specs = [dict(zip(SPEC_KEYS, s)) for s in specs]
    for _ in range(2 if ctx.quick else 60):
        s = random_mvn_spec(rnd)
        if s["rkmode"] == "less":
            s["rkmode"] = "none"
        specs.append(s)
    fallback = 0
    for spec in specs:
        spec = dict(spec, npts=1)
        g = gen_mvn_group(rnd, spec)
        g["seed"] = rnd.randrange(2 ** 31)
        g["points"] = g["points"][:1]
        try:
            res = mvns_run(g)
        except Exception as ex:
            res = [{"error": raised(ex)} for _ in g["elems"]]
        g["sobs"] = res
        for e, r in enumerate(res):
            if not sample_ok(g, e):
                fallback += 1
            for i in range(g["dim"]):
                c = {"kind": "mvns", "group": g, "e": e, "i": i}
                lam = mvn_elem_lam(g, e)
                c["stratum"] = "mvns." + ("null" if lam[i] == 0 else "range") + f".batch={g['batch']}" + (".tol=custom" if g["tol"] else "")
                cases.append(c)
    if fallback:
        ctx.tested_not_proved.append(
            f"sampling: the standard normal draws could not be captured for {fallback} objects; their covariance lemmas were skipped")


def sample_ok(g, e):
    """the linear map was recovered from captured draws (exact fit)"""
    r = g["sobs"][e]
    if "error" in r:
        return False
    lam = mvn_elem_lam(g, e)
    t = pf(g["tol"]) if g["tol"] else TOL_DEFAULT
    scale = max([1.0] + [1.0 / float(x) for x in lam if x >= t])
    return r["how"] == "captured" and r["fit"] <= 1e-9 * math.sqrt(scale)


def pinv_exact(lam, t):
    return [0.0 if x < t else 1.0 / float(x) for x in lam]


def oracle_mvns(c):
    g, e, i = c["group"], c["e"], c["i"]
    r = g["sobs"][e]
    if "error" in r:
        return f"sample() gives {r['error']} ({describe_mvns(c)})"
    lam = mvn_elem_lam(g, e)
    t = pf(g["tol"]) if g["tol"] else TOL_DEFAULT
    scale = max([1.0] + [1.0 / float(x) for x in lam if x >= t])
    if not all(math.isfinite(v) for v in r["E_absmax"]):
        return f"samples are not finite ({describe_mvns(c)})"
    if lam[i] == 0 and r["E_absmax"][i] > 1e-6 * math.sqrt(scale):
        return (f"samples have a component of size {r['E_absmax'][i]} along a null-space direction of the precision matrix "
                f"(eigen-coordinate {i}; {describe_mvns(c)})")
    if not sample_ok(g, e):
        return None        # draws not captured: covariance not judged here
    want = pinv_exact(lam, t)
    M = r["M"]
    for j in range(g["dim"]):
        w = want[i] if i == j else 0.0
        if abs(M[i][j] - w) > 1e-7 * scale:
            return (f"covariance of the samples in eigen-coordinates ({i},{j}) is {M[i][j]}, the pseudo-inverse of the precision "
                    f"matrix (eigenvalues < tol treated as zeros) has {w} ({describe_mvns(c)})")
    return None


def describe_mvns(c):
    g, e = c["group"], c["e"]
    el = g["elems"][e]
    extra = {k: el[k] for k in ("var", "smooth") if k in el}
    return f"constructor={g['ctor']} dim={g['dim']} eigenvalues={el['lam']} {extra} tol={g['tol']} seed={g['seed']} element={e}"


def stmt_mvns(c):
    g, e, i = c["group"], c["e"], c["i"]
    r = g["sobs"][e]
    if "error" in r:
        return "False", "c18_close"
    if not sample_ok(g, e):
        return None
    el = g["elems"][e]
    lam = mvn_elem_lam(g, e)          # sampling only sees the eigenvalues of self._prec
    tol = pf(g["tol"]) if g["tol"] else TOL_DEFAULT
    dist = f"(mvn_plain {rl(lam)} None None {rlit(tol)})"
    v = ff(r["M"][i][i])
    return f"close ((sqrt_pcov_diag {dist} {natlit(i)}) ^ 2) {rlit(v)} {rlit(tol_for(v, F(1, 10 ** 8)))}", "c18_close"


# ----------------------------------------------------------------------------------------------
# degenerate multivariate normal: HISTORIES of constructor calls (state that outlives a call must not matter)
# ----------------------------------------------------------------------------------------------
def mvnh_run(h):
    """replay the whole history in this process: one numpy penalty array modified IN PLACE between constructor calls
    (mode 'inplace'), or a fresh numpy array per step that is dropped right after use (mode 'loop')"""
    import gc
    import jax.numpy as jnp
    import numpy as np
    from liesel.distributions.mvn_degen import MultivariateNormalDegenerate as M
    d = h["dim"]
    H = make_H(h["refl"], d)
    loc = jnp.asarray([float(pf(t)) for t in h["loc"]], dtype=jnp.float64)
    eye = np.eye(d)
    P = None
    out = []
    for st in h["steps"]:
        op = st["op"]
        if op[0] == "set" or P is None or h["mode"] == "loop":
            K = np.asarray(fmat(K_from(H, [pf(t) for t in st["lam"]])), dtype=np.float64)
            if P is None or h["mode"] == "loop":
                P = None
                gc.collect()
                P = np.array(K)                 # a new array object (may reuse the address of a dropped one)
            else:
                P[...] = K                      # same object, new contents
        elif op[0] == "add_ridge":
            P += float(pf(op[1])) * eye
        elif op[0] == "scale":
            P *= float(pf(op[1]))
        x = jnp.asarray([float(pf(t)) for t in st["x"]], dtype=jnp.float64)
        dist = None
        try:
            if st["ctor"] == "pen":
                dist = M.from_penalty(loc=loc, var=jnp.float64(float(pf(st["var"]))), pen=P)
            else:
                dist = M.from_penalty_smooth(loc=loc, smooth=jnp.float64(float(pf(st["smooth"]))), pen=P)
            out.append(float(dist.log_prob(x)))
        except Exception as ex:
            out.append(raised(ex))
        del dist
    return out


def mvnh_group(h, k):
    """step k of a history as a one-element group (same statement / oracle as an isolated call on the CURRENT matrix)"""
    st = h["steps"][k]
    el = {"lam": st["lam"], "loc": h["loc"]}
    el.update({key: st[key] for key in ("var", "smooth") if key in st})
    return {"dim": h["dim"], "refl": h["refl"], "ctor": st["ctor"], "batch": "none", "elems": [el], "tol": None,
            "rk": None, "lp": None, "spec": True, "points": [{"x": st["x"], "shift_of": None}], "obs": [[h["obs"][k]]]}


def gen_history(rnd, mode, d, nsteps):
    refl = gen_refl(rnd, d, rnd.choice(["int", "dyadic"]))
    H = make_H(refl, d)
    loc = [F(rnd.randint(-16, 16), 8) for _ in range(d)]
    steps = []
    lam = None
    for k in range(nsteps):
        if mode == "loop" or k == 0:
            rank = rnd.randint(max(1, d - 2), d) if mode == "loop" else d - rnd.randint(1, 2)
            lam = gen_lam(rnd, d, rank, lo=F(1, 64))
            op = ["set"]
        else:
            kind = ["add_ridge", "scale", "set"][(k - 1) % 3]
            if kind == "add_ridge":                          # rank-changing: the null space disappears
                t = rnd.choice([F(1, 2), F(1, 4), F(1)])
                lam = [x + t for x in lam]
                op = ["add_ridge", fs(t)]
            elif kind == "scale":                            # rank-preserving: only the log-pseudo-determinant moves
                f = rnd.choice([F(4), F(1, 8), F(16)])
                lam = [x * f for x in lam]
                op = ["scale", fs(f)]
            else:                                            # new contents in the same array, other rank
                lam = gen_lam(rnd, d, d - rnd.randint(1, 2), lo=F(1, 64))
                op = ["set"]
        c = [F(rnd.randint(-32, 32), 8) for _ in range(d)]
        x = [a + b for a, b in zip(matvec(H, c), loc)]
        st = {"op": op, "lam": [fs(t) for t in lam], "ctor": rnd.choice(["pen", "smooth"]), "x": [fs(t) for t in x]}
        var = rnd.choice([F(1), F(2), F(1, 2), F(4)])
        st["var" if st["ctor"] == "pen" else "smooth"] = fs(var if st["ctor"] == "pen" else 1 / var)
        steps.append(st)
    return {"mode": mode, "dim": d, "refl": refl, "loc": [fs(t) for t in loc], "steps": steps}


def gen_mvnh(ctx, rnd, cases):
    plan = [("inplace", 3, 7), ("inplace", 4, 4), ("loop", 3, 8)]
    for _ in range(0 if ctx.quick else 12):
        plan.append((rnd.choice(["inplace", "loop"]), rnd.randint(2, 5), rnd.randint(4, 10)))
    for mode, d, n in plan:
        h = gen_history(rnd, mode, d, n)
        try:
            h["obs"] = [enc(v) for v in mvnh_run(h)]
        except Exception as ex:
            h["obs"] = [raised(ex)] * len(h["steps"])
        for k, st in enumerate(h["steps"]):
            cases.append({"kind": "mvnh", "hist": h, "k": k,
                          "stratum": f"mvnh.{mode}.{st['op'][0] if mode == 'inplace' else 'fresh_array'}.{st['ctor']}"})


def oracle_mvnh(c):
    h, k = c["hist"], c["k"]
    r = oracle_mvn({"group": mvnh_group(h, k), "e": 0, "p": 0})
    if r:
        ops = [st["op"] for st in h["steps"][: k + 1]]
        return (f"step {k} of a history of constructor calls ({h['mode']}: "
                + ("one numpy penalty array edited in place, operations " + str(ops) if h["mode"] == "inplace"
                   else "a fresh numpy penalty per call, dropped after use")
                + f"): {r}")
    return None


def stmt_mvnh(c):
    return stmt_mvn({"group": mvnh_group(c["hist"], c["k"]), "e": 0, "p": 0})


# ----------------------------------------------------------------------------------------------
# numerical side checks (tested, not proved)
# ----------------------------------------------------------------------------------------------
def uniform_marginals(ctx):
    """int_0^1 c(u, v) dv = 1 for a few (rho, u): trapezoid in the normal score y, c(u, Phi(y)) phi(y) dy"""
    import jax.numpy as jnp
    import numpy as np
    from liesel.distributions.copulas import GaussianCopula
    from scipy.stats import norm
    y = np.linspace(-12, 12, 24001)
    v = norm.cdf(y)
    keep = (v > 0) & (v < 1)
    y, v = y[keep], v[keep]
    worst = 0.0
    for rho in (-0.9, -0.5, 0.3, 0.75):
        d = GaussianCopula(dependence=jnp.float64(rho))
        for u in (0.1, 0.5, 0.8):
            pts = jnp.stack([jnp.full(v.shape, u), jnp.asarray(v)], axis=-1)
            dens = np.exp(np.asarray(d.log_prob(pts))) * norm.pdf(y)
            dens = np.where(np.isfinite(dens), dens, 0.0)
            worst = max(worst, abs(float(np.trapz(dens, y)) - 1.0))
    ctx.tested_not_proved.append(
        f"GaussianCopula uniform marginals: numerical integral of the density over v for 12 (rho, u) pairs, max |integral - 1| = {worst:.2e}")
    return worst


# ----------------------------------------------------------------------------------------------
# run_standard interface
# ----------------------------------------------------------------------------------------------
def build_cases(ctx, seed, parts=("sig", "cop", "mvn", "mvns", "mvnh")):
    import jax
    jax.config.update("jax_enable_x64", True)
    rnd = random.Random(seed)
    cases: list[dict] = []
    if "sig" in parts:
        gen_sig(ctx, rnd, cases)
    if "cop" in parts:
        gen_cop(ctx, rnd, cases)
    if "mvn" in parts:
        gen_mvn(ctx, rnd, cases)
    if "mvns" in parts:
        gen_mvns(ctx, rnd, cases)
    if "mvnh" in parts:
        gen_mvnh(ctx, rnd, cases)
    return cases


def case_key(c):
    k = c["kind"]
    if k == "sig":
        return (k, c["fn"], c["arg"])
    if k == "cop":
        return (k, c["rho"], c["u"], c["v"], c["validate"], c["batched"], str(c.get("shape")), c.get("idx"))
    if k == "ctor":
        return (k, tuple(c["rhos"]), c["validate"], str(c.get("shape")))
    if k in ("mvn", "mvnm"):
        g = c["group"]
        return (k, id(g), c["e"], c["p"])
    if k == "mvnh":
        return (k, id(c["hist"]), c["k"])
    return (k, id(c["group"]), c["e"], c["i"])


def generate(ctx):
    cases = build_cases(ctx, ctx.seed)
    w = uniform_marginals(ctx)
    ctx.hist("tested.uniform_marginal_pairs", 12)
    for c in cases:
        ctx.hist(c["stratum"])
    ctx.count(len(cases), len({case_key(c) for c in cases}))
    ctx.cov["rule"] = ("one case = one observed number of the real code tied to the model by one R-lemma: sigmoid (function, point); "
                       "copula (dependence, u, v, validate_args, batched) and constructor (dependences, validate_args); degenerate MVN "
                       "(constructor, eigenvalues, variance, rank/log_pdet arguments, batch mode, element, point) and sampling "
                       "(object, eigen-coordinate); distinct = distinct such tuples; forced strata: dependence 0, +-1/2, +-(1-2^-10) ... +-(1-2^-40) on and off the ridge u=v, validate_args True vs False on identical inputs, "
                       "negative dependence with validate_args, rank 0 / deficient / full, repeated eigenvalues, every constructor with "
                       "and without rank / log_pdet, rank smaller than the true rank, custom tolerance, all batch modes, null-space shifts")
    ctx.assume += [
        "spectral theorem / orthogonal invariance: prec = Q diag(lam) Q^T with lam ascending (jnp.linalg.eigh, eigvalsh) and the "
        "log-density depends on x only through the eigen-coordinates Q^T (x - loc) (trusted; the correspondence drives the real "
        "matrices H diag(lam) H^T)",
        "C18_mvn_range_gaussian / C18_mvn_constructors_agree: spectral-gap hypothesis (every eigenvalue of pen and pen/var is 0 or "
        "> tol = 1e-6); without it the statements are false of the model (C18_mvn_*_needs_gap) - a conditioning limit, the "
        "generator stays inside it except for the 'tol=custom' model-pinning stratum",
        "the normal quantile function (tfb.NormalCDF().inverse) is an oracle: the copula model takes the normal scores as arguments",
        "floating point is treated as real arithmetic within the tolerance of the R-lemmas (1e-9 relative, 1e-8 for the sample covariance)",
    ]
    ctx.tested_not_proved += [
        "uniform marginals of the copula and the sample covariance as an expectation need integration and are not proved; "
        "the covariance is checked as the algebraic identity A A^T = pinv(prec) for the linear map A recovered from captured draws",
        "jax.random.normal draws are captured with unittest.mock inside the harness process (no change to /repo)",
    ]
    ctx.extra_tb = [
        "Coquelicot (is_derive, auto_derive) and Interval (interval with i_prec 64: Bignums-based interval arithmetic, no primitive floats)",
        "modelled rather than verified: jnp.linalg.eigh / eigvalsh, tfd.MultivariateNormalTriL (closed form used), tfb.NormalCDF, "
        "tfd.TransformedDistribution, jit/vmap/broadcasting (batch element = independent evaluation)",
    ]
    for c in [c for c in cases if c["kind"] == "sig"][:1] + [c for c in cases if c["kind"] == "cop" and pf(c["rho"]) < 0][:1] \
            + [c for c in cases if c["kind"] == "ctor" and c["validate"] and pf(c["rhos"][0]) < 0][:1]:
        ctx.sample({k: v for k, v in c.items()})
    for c in [c for c in cases if c["kind"] == "mvn" and c["group"]["ctor"] == "pen"][:1]:
        ctx.sample({"kind": "mvn", "what": describe_mvn(c), "obs": c["group"]["obs"][c["p"]][c["e"]]})
    for c in [c for c in cases if c["kind"] == "mvns"][:1]:
        ctx.sample({"kind": "mvns", "what": describe_mvns(c), "diag": c["group"]["sobs"][c["e"]]["M"][c["i"]][c["i"]]})
    return cases


STMT = {"sig": stmt_sig, "cop": stmt_cop, "ctor": stmt_ctor, "mvn": stmt_mvn, "mvnm": stmt_mvnm, "mvns": stmt_mvns,
        "mvnh": stmt_mvnh}
ORACLE = {"sig": oracle_sig, "cop": oracle_cop, "ctor": oracle_ctor, "mvn": oracle_mvn, "mvns": oracle_mvns,
          "mvnh": oracle_mvnh,
          "mvnm": lambda c: None}     # same observation as the sibling "mvn" case, judged there


def statement(c):
    try:
        return STMT[c["kind"]](c)
    except Exception:
        # the implementation raised or returned nan / inf where the model has a real number: the agreement
        # lemma is false (the oracle names the input)
        return "False", "c18_close"


def oracle(c):
    return ORACLE[c["kind"]](c)


def emit(ctx, cases):
    items = []
    for i, c in enumerate(cases):
        st = statement(c)
        if st is not None:
            items.append((i, st))
    shards = []
    for k in range(0, len(items), SHARD):
        chunk = items[k:k + SHARD]
        body = "".join(f"Lemma case_{i} : {s}.\nProof. {t}. Qed.\n" for i, (s, t) in chunk)
        shards.append((ctx.new_shard(HEADER + "\n" + body), [i for i, _ in chunk]))
    return shards


def diagnose(ctx, path, idxs, cases):
    import re
    txt = open(path).read()
    txt = re.sub(r"Lemma case_(\d+) : (.*?)\.\nProof\. (\w+)\. Qed\.\n",
                 lambda m: (f"Goal {m.group(2)}.\nProof. tryif solve [ {m.group(3)} ] then idtac else idtac \"DISAGREE {m.group(1)}\". "
                            f"Abort.\n"), txt, flags=re.S)
    ok, out = ctx.coq_eval(txt)
    bad = [int(m) for m in re.findall(r"DISAGREE\s+(\d+)", out)]
    return [i for i in bad if i in idxs]


def klass(c):
    return None


def slim(c):
    """JSON-able replay form of a case (a group carries only the addressed element's observation)"""
    return c


def search(ctx, disagreeing):
    out = []
    for c in disagreeing:
        r = oracle(c)
        if r:
            out.append(dict(c, why=r))
    if out:
        return out
    # widened generator, oracle only
    class _Quiet:
        quick = False
        tested_not_proved: list = []

        def hist(self, *a, **k):
            pass
    q = _Quiet()
    kinds = {c["kind"] for c in disagreeing} or {"sig", "cop", "ctor", "mvn", "mvns", "mvnh"}
    parts = tuple(p for p in ("sig", "cop", "mvn", "mvns", "mvnh") if p in kinds or (p == "cop" and "ctor" in kinds))
    for c in build_cases(q, ctx.seed + 1, parts or ("sig", "cop", "mvn", "mvns", "mvnh")):
        r = oracle(c)
        if r:
            out.append(dict(c, why=r))
            if len(out) >= 3:
                break
    return out


def run(ctx):
    """the standard skeleton, plus the source tie (c18_tie.py) just before the verdict is written: the source of the
    algebraic sigmoid, of GaussianCopula.__init__ and of the degenerate MVN (_rank, _log_pdet, rank / log_pdet, _log_prob,
    from_penalty, from_penalty_smooth) is translated to Gallina now and proved equal to the models.  A broken source tie
    alone is no alarm (a refactoring may leave the translated subset); it is named beside a behavioural disagreement only."""
    finish = ctx.finish

    def finish_with_tie(*a, **kw):
        built = "coq build (make) failed" not in ctx.broken
        if built:
            try:
                tie = c18_tie.run(ctx, common.REPO)
            except Exception as ex:      # optional evidence: never turns into an alarm by itself
                tie = {"translated": [], "lemmas_ok": False, "lemmas": [], "not_tied": {"all": f"{type(ex).__name__}: {ex}"},
                       "detail": "SOURCE TIE BROKEN: the tie step aborted; the verdict rests on the behavioural correspondence"}
        else:
            tie = {"translated": [], "lemmas_ok": False, "lemmas": [], "not_tied": {},
                   "detail": "not attempted: the Coq build failed"}
        ctx.cov["source_tie"] = tie
        for sec in sorted(tie["not_tied"]):
            ctx.hist("T.source_tie_broken." + sec)
        ctx.hist("T.source_tie_lemmas", len(tie["lemmas"]))
        if built and not tie["lemmas_ok"] and ctx.violations:
            ctx.broken.append("source tie (py2gallina_c18): " + "; ".join(
                f"{k}: {v}" for k, v in sorted(tie["not_tied"].items(), key=lambda kv: (kv[1].startswith("needs "), kv[0])))[:600])
        ctx.extra_tb = list(getattr(ctx, "extra_tb", [])) + [
            "source tie (advisory): tools/py2gallina_c18.py (Python ast -> Gallina over R for AlgebraicSigmoid._forward / _inverse / "
            "both log-det-Jacobians, GaussianCopula.__init__ (guard, scale_tril, TransformedDistribution composition) and mvn_degen.py "
            "(_rank, _log_pdet, rank / log_pdet, _log_prob, from_penalty, from_penalty_smooth in eigen-coordinates; fails closed outside "
            "its subset), its library-call table (jnp.sqrt / log -> sqrt / ln over R, float literals as the decimal fractions written, "
            "comparisons -> Rlt_dec / Rle_dec, jnp.sum -> rsum / ncount, jnp.where -> if, the fori_loop mask -> fun i => .., eigh / eigvalsh "
            "-> the ascending eigenvalue vector (oracle), x prec x^T -> quad, MultivariateNormalTriL / TransformedDistribution(NormalCDF) "
            "-> their closed forms with the normal quantile an oracle, batch = one member), coq/Analytic/GenC18Tie.v; result of this "
            "run in coverage.source_tie"]
        return finish(*a, **kw)

    ctx.finish = finish_with_tie
    return common.run_standard(ctx, sys.modules[__name__])


# ----------------------------------------------------------------------------------------------
# replay
# ----------------------------------------------------------------------------------------------
def rerun(c):
    """re-observe case c on the current tree (fills the same fields generate fills)"""
    import jax
    jax.config.update("jax_enable_x64", True)
    import numpy as np
    k = c["kind"]
    if k == "sig":
        c.pop("extras_error", None)
        c["obs"] = enc(float(np.asarray(run_sig(c["fn"], [pf(c["arg"])]))[0]))
        sig_extras(c)
    elif k == "ctor":
        c["obs"] = ctor_outcome([pf(r) for r in c["rhos"]], c["validate"], c["batched"], c.get("shape"))
    elif k == "cop":
        if c.get("shape"):
            c["obs"] = enc(run_cop([pf(t) for t in c["all_rhos"]], [(pf(a), pf(b)) for a, b in c["all_pts"]],
                                   c["validate"], True, c["shape"])[c["idx"]])
        else:
            c["obs"] = enc(run_cop([pf(c["rho"])], [(pf(c["u"]), pf(c["v"]))], c["validate"], c["batched"])[0])
        if "obs_novalidate" in c:
            if c.get("shape"):
                c["obs_novalidate"] = enc(run_cop([pf(t) for t in c["all_rhos"]], [(pf(a), pf(b)) for a, b in c["all_pts"]],
                                                  False, True, c["shape"])[c["idx"]])
            else:
                c["obs_novalidate"] = enc(run_cop([pf(c["rho"])], [(pf(c["u"]), pf(c["v"]))], False, c["batched"])[0])
    elif k in ("mvn", "mvnm"):
        c["kind"] = "mvn"
        g = c["group"]
        out, _, _ = mvn_run(g)
        g["obs"] = [[enc(v) for v in row] for row in out]
    elif k == "mvnh":
        c["hist"]["obs"] = [enc(v) for v in mvnh_run(c["hist"])]
    else:
        g = c["group"]
        g["sobs"] = mvns_run(g)
    return c


def replay(rp) -> int:
    body = rp.get("replay", rp)
    c = body.get("case")
    if not c or "kind" not in c:
        print("replay file names no concrete input (broken lemma only):", body.get("broken"))
        return 0
    try:
        c = rerun(c)
    except Exception as ex:
        print("REPLAY FAILS: the implementation raised", type(ex).__name__, ex)
        return 1
    r = oracle(c)
    print({k: v for k, v in c.items() if k not in ("group", "hist")})
    if c["kind"] == "mvnh":
        print("history:", c["hist"]["mode"], [(st["op"], st["ctor"], st["lam"]) for st in c["hist"]["steps"][: c["k"] + 1]],
              "observed", c["hist"]["obs"][c["k"]])
    if c["kind"] in ("mvn",):
        print(describe_mvn(c), "observed", c["group"]["obs"][c["p"]][c["e"]])
    if c["kind"] == "mvns":
        print(describe_mvns(c))
    if r:
        print("REPLAY FAILS:", r)
        return 1
    print("replay passes on the current tree")
    return 0
