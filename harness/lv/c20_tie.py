"""C20 source tie: Gallina definitions translated from the current Python source (tools/py2gallina_c20.py)
+ Qed-closed lemmas that they are extensionally equal to the hand-written model (Goose/Stopper.v,
Goose/StopperPos.v) + the main C20 theorems re-stated for the translated functions.  Never raises an alarm
by itself: the caller (c20.run) records the outcome in the evidence (coverage.source_tie) and keeps the
behavioural correspondence for the verdict.
"""
from __future__ import annotations

import importlib.util
import os
import re

from . import common

TOOL = os.path.join(common.VERIF, "tools", "py2gallina_c20.py")

HEADER = """(* GENERATED on this run by tools/py2gallina_c20.py from the Python source under {root} - do not edit *)
From Coq Require Import List ZArith QArith Qabs Bool Arith Lia.
Import ListNotations.
From LV Require Import Goose.Stopper Goose.StopperProofs Goose.StopperPos Goose.StopperPosProofs Goose.GenC20Tie.
Close Scope Q_scope.
Open Scope Z_scope.
"""

PROOFS = {
    "stop_early": """
(* Stopper.stop_early as translated = the model's stop_early (self fields and i as Python ints) *)
Lemma gen_stop_early_is_model : forall s i h, sn_of gen_stop_early s i h = stop_early s i h.
Proof.
  intros s i h. unfold sn_of, gen_stop_early, stop_early. cbv zeta.
  eapply tie_slice_bind; [lia | first [reflexivity | lia] | intros w].
  first [ reflexivity | f_equal; unfold stop_on_window; cbv zeta; tie20_floats; tie20_ints ].
Qed.
""",
    "stop_now": """
Lemma gen_stop_now_is_model : forall s i h, sn_of gen_stop_now s i h = stop_now s i h.
Proof.
  intros s i h. unfold stop_now. rewrite <- gen_stop_early_is_model.
  unfold sn_of, gen_stop_now. cbv zeta.
  destruct (gen_stop_early _ _ _ _ _ _) as [e|x]; cbn [tbind topt]; [|reflexivity].
  cbv zeta. first [ reflexivity | f_equal; tie20_ints ].
Qed.

(* C20_stop_rule for the stop_now translated from the source *)
Theorem gen_stop_rule : forall s i h,
  (1 <= patience s)%nat -> (patience s <= length h)%nat -> (i < length h)%nat ->
  sn_of gen_stop_now s i h = Some (rule s i h).
Proof. exact (tie_stop_rule (sn_of gen_stop_now) gen_stop_now_is_model). Qed.

(* C20_loop_stops_at_first for the while loop driven by the translated stop_now *)
Theorem gen_loop_stops_at_first : forall s loss,
  (1 <= patience s)%nat -> (patience s <= max_iter s)%nat ->
  exists j, optim_loop_with (sn_of gen_stop_now) s loss = Some (j, hist_at s loss j)
    /\\ (j < max_iter s)%nat
    /\\ rule s j (hist_at s loss j) = true
    /\\ forall k, (k < j)%nat -> rule s k (hist_at s loss k) = false.
Proof. exact (tie_loop_stops_at_first (sn_of gen_stop_now) gen_stop_now_is_model). Qed.
Print Assumptions gen_stop_rule.
Print Assumptions gen_loop_stops_at_first.
""",
    "which_best": """
Lemma gen_which_best_is_model : forall s i h, wb_of gen_which_best s i h = which_best s i h.
Proof.
  intros s i h. unfold wb_of, gen_which_best, which_best. cbv zeta.
  eapply tie_slice_bind; [lia | first [reflexivity | lia] | intros w].
  unfold gargmin. first [ reflexivity | f_equal; lia ].
Qed.

(* C20_best_is_argmin for the which_best_in_recent_history translated from the source *)
Theorem gen_best_is_argmin : forall s i h,
  (1 <= patience s)%nat -> (patience s <= S i)%nat -> (i < length h)%nat ->
  exists b : nat, wb_of gen_which_best s i h = Some (Z.of_nat b)
    /\\ (i + 1 - patience s <= b <= i)%nat
    /\\ (forall k, (i + 1 - patience s <= k <= i)%nat -> (nth b h 0%Q <= nth k h 0%Q)%Q)
    /\\ (forall k, (i + 1 - patience s <= k < b)%nat -> (nth b h 0%Q < nth k h 0%Q)%Q).
Proof. exact (tie_best_is_argmin (wb_of gen_which_best) gen_which_best_is_model). Qed.
Print Assumptions gen_best_is_argmin.
""",
    # needs the lemmas of stop_now and which_best
    "optim": """
(* optim_flat around the loop, run with the two translated functions, is the model's optim_flat_model (so
   that C20_position_restored, stated over optim_flat_model, speaks about it too) and satisfies
   C20_optim_flat_spec *)
Lemma gen_optim_flat_is_model : forall s hv restore loss,
  optim_flat_with (sn_of gen_stop_now) (wb_of gen_which_best) s hv restore loss = optim_flat_model s hv restore loss.
Proof. exact (optim_flat_with_model _ _ gen_stop_now_is_model gen_which_best_is_model). Qed.

Theorem gen_optim_flat_spec : forall s hv restore loss,
  (1 <= patience s)%nat -> (patience s <= max_iter s)%nat ->
  exists (j b : nat),
    optim_flat_with (sn_of gen_stop_now) (wb_of gen_which_best) s hv restore loss
      = Some (mkOut j (Z.of_nat b) (if restore then Z.of_nat b else Z.of_nat j) (hist_at s loss j))
    /\\ (j < max_iter s)%nat
    /\\ (hv = false -> j = (max_iter s - 1)%nat)
    /\\ (hv = true -> rule s j (hist_at s loss j) = true
                     /\\ forall k, (k < j)%nat -> rule s k (hist_at s loss k) = false)
    /\\ (j + 1 - patience s <= b <= j)%nat
    /\\ (forall k, (j + 1 - patience s <= k <= j)%nat ->
          (nth b (hist_at s loss j) 0%Q <= nth k (hist_at s loss j) 0%Q)%Q)
    /\\ (forall k, (j + 1 - patience s <= k < b)%nat ->
          (nth b (hist_at s loss j) 0%Q < nth k (hist_at s loss j) 0%Q)%Q).
Proof. exact (tie_optim_flat_spec _ _ gen_stop_now_is_model gen_which_best_is_model). Qed.
Print Assumptions gen_optim_flat_spec.
""",
    "batch": """
(* _generate_batch_indices as translated, with jax.random.permutation an oracle argument o : key -> n -> indices
   whose result has n entries, is the model's batch_indices of the drawn permutation *)
Lemma gen_generate_batch_indices_is_model : forall (K : Type) (o : K -> Z -> list nat) key (n bs : nat),
  length (o key (Z.of_nat n)) = n ->
  topt (gen_generate_batch_indices o key (Z.of_nat n) (Z.of_nat bs)) = batch_indices (o key (Z.of_nat n)) bs.
Proof.
  intros K o key n bs Hlen. unfold gen_generate_batch_indices, gdivz. cbv zeta.
  destruct (Z.eqb_spec (Z.of_nat bs) 0) as [E|E].
  - cbn [tbind topt]. unfold batch_indices. replace bs with 0%nat by lia. reflexivity.
  - cbn [tbind]. rewrite <- Nat2Z.inj_div.
    match goal with
    | |- topt (tbind (garray_split (gprefix _ ?e) _) _) = _ =>
        replace e with (Z.of_nat (n / bs) * Z.of_nat bs)%Z by lia
    end.
    apply tie_batches; [exact Hlen | lia].
Qed.

(* C20_batches_partition for the generator translated from the source *)
Theorem gen_batches_partition : forall (K : Type) (o : K -> Z -> list nat) key (n bs : nat),
  Permutation.Permutation (o key (Z.of_nat n)) (seq 0 n) -> (1 <= bs <= n)%nat ->
  exists bt, topt (gen_generate_batch_indices o key (Z.of_nat n) (Z.of_nat bs)) = Some bt
    /\\ length bt = (n / bs)%nat
    /\\ Forall (fun r => length r = bs) bt
    /\\ concat bt = firstn ((n / bs) * bs) (o key (Z.of_nat n))
    /\\ NoDup (concat bt)
    /\\ (forall i, In i (concat bt) -> (i < n)%nat)
    /\\ length (concat bt) = (n - n mod bs)%nat.
Proof.
  intros K o key n bs Hp Hb.
  exact (tie_batches_partition _ _ bs n
           (gen_generate_batch_indices_is_model K o key n bs (perm_seq_length _ n Hp)) Hp Hb).
Qed.
Print Assumptions gen_batches_partition.
""",
}

# sections in dependency order.  DEF_DEPS: a section's definitions mention those of ...;
# LEMMA_DEPS: a section's proofs use the lemmas of ...  ("optim" has no definitions of its own)
ORDER = ["stop_early", "stop_now", "which_best", "optim", "batch"]
DEF_DEPS = {"stop_early": [], "stop_now": ["stop_early"], "which_best": [], "optim": ["stop_now", "which_best"], "batch": []}
LEMMA_DEPS = {"stop_early": [], "stop_now": ["stop_early"], "which_best": [], "optim": ["stop_now", "which_best"], "batch": []}


def load_tool():
    spec = importlib.util.spec_from_file_location("py2gallina_c20", TOOL)
    mod = importlib.util.module_from_spec(spec)
    spec.loader.exec_module(mod)
    return mod


def lemma_names(txt):
    return re.findall(r"^(?:Lemma|Theorem|Corollary)\s+([A-Za-z0-9_']+)", txt, re.M)


def sections(root):
    """translate; returns ({section: {"defs", "proofs", "info"}}, {section: reason it is not available})"""
    tool = load_tool()
    res = tool.translate(root, tuple(s for s in ORDER if s != "optim"))
    ok, bad = {}, {}
    for sec in ORDER:
        if sec == "optim":
            ok[sec] = {"defs": "", "proofs": PROOFS[sec], "info": []}
            continue
        d = res.get(sec, {"error": "not translated"})
        if "error" in d:
            bad[sec] = "translator failed closed: " + d["error"]
            continue
        if sec == "stop_now" and "stop_early" not in d.get("calls", []):
            # the model's stop_now is stop_early or-ed with the iteration limit; a stop_now that does not call
            # stop_early can still be equal to it, but not by the proof template
            bad[sec] = "stop_now translated, but it does not call self.stop_early (the equality proof is stated for that shape)"
            continue
        if sec == "batch" and not d.get("uses_oracle"):
            bad[sec] = "_generate_batch_indices translated, but it does not draw jax.random.permutation"
            continue
        ok[sec] = {"defs": d["text"], "proofs": PROOFS[sec], "info": d["info"]}
    for sec in ORDER:       # a section whose dependency did not translate cannot be stated
        if sec in ok:
            missing = [x for x in DEF_DEPS[sec] if x not in ok]
            if missing:
                bad[sec] = f"needs the translation of {missing}, which failed"
                del ok[sec]
    return ok, bad


def assemble(root, ok, use):
    """file text: definitions of all translated sections, proofs of the sections in `use`"""
    parts = [HEADER.format(root=root)]
    marks = []          # (first line, last line, section) of each proof block, for error attribution
    for sec in ORDER:
        if sec not in ok:
            continue
        for i in ok[sec]["info"]:
            parts.append(f"(* {i['file']} : {i['function']}, lines {i['lines'][0]}-{i['lines'][1]}, sha256 {i['sha256']} *)")
        if ok[sec]["defs"]:
            parts.append(ok[sec]["defs"])
        if sec in use:
            start = sum(p.count("\n") + 1 for p in parts) + 1
            parts.append(ok[sec]["proofs"])
            end = sum(p.count("\n") + 1 for p in parts)
            marks.append((start, end, sec))
    return "\n".join(parts) + "\n", marks


def closure(use, ok):
    """keep only the sections whose lemma dependencies are kept"""
    changed = True
    while changed:
        changed = False
        for s in list(use):
            if any(d not in use for d in LEMMA_DEPS[s]):
                use.remove(s)
                changed = True
    return use


def run(ctx, root):
    """returns the coverage.source_tie record"""
    rec = {"translated": [], "lemmas_ok": False, "lemmas": [], "not_tied": {}, "detail": "",
           "translator": "tools/py2gallina_c20.py", "generated_file": "gen_c20.v (work directory, deleted after the run)"}
    try:
        ok, bad = sections(root)
    except Exception as ex:       # the tie is optional evidence; never let it abort the check
        rec["detail"] = f"SOURCE TIE BROKEN: translator aborted: {type(ex).__name__}: {ex}"
        rec["not_tied"]["all"] = rec["detail"]
        return rec
    rec["not_tied"].update(bad)
    use = closure([s for s in ORDER if s in ok], ok)
    for s in ORDER:
        if s in ok and s not in use:
            rec["not_tied"].setdefault(s, "needs the lemmas of " + ", ".join(d for d in LEMMA_DEPS[s] if d not in use))
    failed = False
    for _ in range(len(ORDER) + 2):
        if not [s for s in use if ok[s]["info"]]:
            use = []
            break
        txt, marks = assemble(root, ok, use)
        path = ctx.new_shard(txt, "gen_c20")
        rc, out, dt = common.sh(["coqc", "-Q", common.COQ, "LV", "-Q", ctx.work, "Cases", path], timeout=120, cwd=ctx.work)
        rec["coqc_s"] = round(rec.get("coqc_s", 0) + dt, 1)
        if rc == 124:          # a proof search that does not come back: give up on the tie, do not retry
            for s in use:
                rec["not_tied"].setdefault(s, "coqc did not finish within 120 s on the generated file")
            use, failed = [], True
            break
        if rc == 0:
            n_pa = len(re.findall(r"^Print Assumptions", txt, re.M))
            n_closed = out.count("Closed under the global context")
            rec["print_assumptions"] = ("closed under the global context (no axioms)" if n_pa == n_closed else
                                        " ".join(out.split())[-400:])
            break
        failed = True
        m = re.search(r"line (\d+)", out)
        ln = int(m.group(1)) if m else -1
        culprit = next((s for a, b, s in marks if a <= ln <= b), None)
        msg = " ".join(out.strip().split())[-300:]
        if culprit is not None:
            names = lemma_names("\n".join(txt.split("\n")[:max(ln, 0)]))
            rec["not_tied"][culprit] = (f"lemma {names[-1] if names else '?'} does not check for the function as translated "
                                        f"from the current source: {msg}")
            use = [s for s in use if s != culprit]
        else:
            # a definition does not type-check (or the line is unknown): drop the section that owns the line, else the last one
            owner = None
            for s in ORDER:
                if s in ok and ok[s]["defs"] and ln > 0:
                    first = txt.find(ok[s]["defs"])
                    a = txt[:first].count("\n") + 1
                    if a <= ln <= a + ok[s]["defs"].count("\n"):
                        owner = s
            owner = owner or next((s for s in reversed(ORDER) if s in ok and ok[s]["defs"]), None)
            if owner is None:
                use = []
                break
            rec["not_tied"][owner] = f"the translated definition does not type-check: {msg}"
            for s in list(ok):
                if s == owner or owner in DEF_DEPS[s]:
                    ok.pop(s, None)
                    rec["not_tied"].setdefault(s, f"needs the definitions of {owner}")
            use = [s for s in use if s in ok]
        before = list(use)
        use = closure(use, ok)
        for s in before:
            if s not in use:
                rec["not_tied"].setdefault(s, "needs the lemmas of " + ", ".join(d for d in LEMMA_DEPS[s] if d not in use))
    else:
        use = []
    for sec in use:
        rec["translated"].extend(ok[sec]["info"])
        rec["lemmas"].extend(lemma_names(ok[sec]["proofs"]))
    rec["lemmas_ok"] = bool(use) and not rec["not_tied"]
    n = len(rec["lemmas"])
    ctx.obligations += n
    ctx.discharged += n
    if rec["lemmas_ok"]:
        rec["detail"] = ("the C20 theorems about stop_now / which_best_in_recent_history / the loop / _generate_batch_indices were "
                         "re-established on this run for the functions as translated from the current source (files, line ranges "
                         "and sha256 of the translated text under 'translated'): every gen_*_is_model lemma and every gen_* "
                         "corollary is Qed-closed")
    else:
        rec["detail"] = ("SOURCE TIE BROKEN for " + ", ".join(sorted(rec["not_tied"])) + " - the verdict of this run rests on "
                         "the behavioural correspondence and the oracle for these functions" +
                         ("; still tied: " + ", ".join(use) if use else ""))
        if failed or rec["not_tied"]:
            common.log("source tie: " + rec["detail"])
    return rec
