"""C07 - the engine drives every kernel through the documented lifecycle.

Correspondence (flavour D): the real ``liesel.goose.Engine`` is driven on generated epoch schedules /
JIT chunks / chain counts / kernel lists / interleavings of append_epoch, sample_next_epoch and
sample_all_epochs with the harness ``LoggingKernel`` (enginekit.py), which logs every call the engine
makes - method, the epoch state it was handed, history, number of tuning infos, a cross-kernel clock
and the PRNG key - into its kernel state.  The logs are read back through ``store_kernel_states``
(public API) and emitted as Gallina literals; Coq evaluates the engine model (Goose/Engine.v) on the
same configuration and certifies, in Qed-closed lemmas,
   shard_hyp      the sampled case lies in the domain of the C07 theorems,
   shard_spec     the model's trace on the case is the documented lifecycle (instance of the theorem),
   shard_ok       every row of every kernel of every chain equals the model's row (calls),
   shard_keys_ok  ... including the PRNG key each call received (concrete key = jax.random.split
                  along the model's path, derived by the harness from the chain's root key).
How the log is read: the operation sequence of every case ends with a *sentinel* epoch (one JIT chunk
of burn-in, or posterior after a posterior epoch) which is part of the case; the kernel states stored
for its last iteration contain every call up to each kernel's last transition.  Only the sentinel's own
end_epoch is not observed.

Direct oracle: the clauses of the property text checked literally on the decoded logs (no model), plus
implementation-vs-implementation comparisons (batch = incremental including keys; calls independent
of the JIT chunk).
"""
from __future__ import annotations

import ast
import glob
import json
import math
import os
import random
import re
import time

from . import common
from . import enginekit as ek
from .common import lst, blit, zlit, log

HEADER = """From Coq Require Import List ZArith Bool.
Import ListNotations.
From LV Require Import Goose.Epoch Goose.Engine Goose.EngineSpec Goose.CorrC07.
Open Scope Z_scope.
"""
ETY = ["Init", "Fast", "Slow", "Burnin", "Post"]
INIT, FAST, SLOW, BURNIN, POST = range(5)
DURS = [1, 2, 3, 4, 6, 8]
MAX_ROWS = 170          # per kernel and chain (enginekit.CAP = 192)


# ------------------------------------------------------------------------------------------------
# case descriptions
# ------------------------------------------------------------------------------------------------
def reject_reason(sched, c):
    """None if appending config c to the (valid) schedule `sched` keeps it valid - the validity predicate of the
    property text -, otherwise the reason for which EpochManager must reject it"""
    ty, d, th = c
    if not sched:
        return None if (ty == INIT and d == 1 and th == 1) else "first epoch must be the initial-values epoch (duration 1)"
    if ty == INIT:
        return "second initial-values epoch"
    if ty != POST and sched[-1][0] == POST:
        return "warm-up epoch after a posterior epoch"
    if d < 1:
        return "duration < 1"
    if th < 1:
        return "thinning < 1"
    if th > d:
        return "thinning > duration"
    if ty == POST and d % th:
        return "thinning does not divide the posterior duration"
    return None


def resolve(init, ops):
    """-> (appended configs that are part of the schedule, [(config, reason)] of the rejected guarded appends,
    expected outcome [raised?] of every ("try", cfg) operation).  ("append", cfg) is always part of the schedule."""
    sched = [tuple(c) for c in init]
    app, rej, want = [], [], []
    for o in ops:
        if o[0] == "append":
            app.append(tuple(o[1]))
            sched.append(tuple(o[1]))
        elif o[0] == "try":
            why = reject_reason(sched, tuple(o[1]))
            want.append(why is not None)
            if why is None:
                app.append(tuple(o[1]))
                sched.append(tuple(o[1]))
            else:
                rej.append((tuple(o[1]), why))
    return app, rej, want


def appended(ops, init=((INIT, 1, 1),)):
    return resolve(init, ops)[0]


def full_schedule(case):
    """init + accepted appends + sentinel (the sentinel is part of the case)"""
    return [tuple(c) for c in case["init"]] + appended(case["ops"], case["init"]) + [tuple(case["sentinel"])]


def all_ops(case):
    return [tuple(o) for o in case["ops"]] + [("append", tuple(case["sentinel"])), ("next",)]


def mk_case(init, ops, chunk, needs, chains, seed, via="engine", stratum="", group=None, variant=None,
            sentinel_post=False):
    sched = [tuple(c) for c in init] + appended(ops, init)
    last = sched[-1][0]
    sent = (POST if (last == POST or sentinel_post) else BURNIN, int(chunk), 1)
    return {"init": [list(c) for c in init], "ops": [[o[0]] + ([list(o[1])] if o[0] in ("append", "try") else []) for o in ops],
            "chunk": int(chunk), "needs": [bool(b) for b in needs], "chains": int(chains), "seed": int(seed),
            "via": via, "stratum": stratum, "group": group, "variant": variant, "sentinel": list(sent)}


def batch_ops(sched, n_init=None):
    """whole schedule given to the constructor, one sample_all_epochs"""
    return list(sched), [("all",)]


def one_at_a_time_ops(sched):
    """constructor gets only the initial-values epoch; every later epoch is appended and sampled singly"""
    ops = [("next",)]
    for c in sched[1:]:
        ops += [("append", c), ("next",)]
    return [sched[0]], ops


def bad_config(rnd, sofar, chunk):
    """a config that EpochManager must reject when appended to the schedule `sofar` (durations are multiples of the
    chunk where possible, so that a wrongly retained config would be sampled rather than crash)"""
    d = chunk * rnd.choice([1, 2, 3])
    after_post = sofar[-1][0] == POST
    ty = POST if after_post else rnd.choice([FAST, SLOW, BURNIN, POST])
    kinds = ["thin_gt_dur", "second_init", "dur0", "thin0", "post_nondividing"] + (["warmup_after_post"] * 2 if after_post else [])
    k = rnd.choice(kinds)
    if k == "thin_gt_dur":
        return (ty, d, d + rnd.choice([1, 2]))
    if k == "second_init":
        return (INIT, 1, 1)
    if k == "dur0":
        return (ty, 0, 1)
    if k == "thin0":
        return (ty, d, 0)
    if k == "post_nondividing":
        dd = max(d, 3) if max(d, 3) % chunk == 0 else chunk * 3
        th = next(t for t in (2, 3, 4, 5, 7) if t < dd and dd % t)
        return (POST, dd, th)
    return (rnd.choice([FAST, SLOW, BURNIN]), d, 1)


def random_ops(rnd, sched, chunk=None, p_try=0.0):
    """a random admissible interleaving: never samples without a pending epoch, ends with all sampled.
    With p_try > 0: guarded appends ("try") of configs that must be rejected are injected at random points
    (the caller catches the RuntimeError and goes on), and some valid appends are made guarded too."""
    n_init = rnd.randint(1, len(sched))
    init, rest = list(sched[:n_init]), list(sched[n_init:])
    sofar = list(init)
    pending, ops = n_init, []

    def maybe_try():
        while chunk and rnd.random() < p_try:
            ops.append(("try", bad_config(rnd, sofar, chunk)))

    while rest or pending:
        maybe_try()
        choices = []
        if rest:
            choices += ["append", "append"]
        if pending:
            choices += ["next", "all"]
        elif not rest:
            break
        ch = rnd.choice(choices)
        if ch == "append":
            c = rest.pop(0)
            ops.append(("try" if (p_try and rnd.random() < 0.3) else "append", c))
            sofar.append(c)
            pending += 1
        elif ch == "next":
            ops.append(("next",))
            pending -= 1
        else:
            ops.append(("all",))
            pending = 0
    maybe_try()
    if rnd.random() < 0.3:
        ops.append(("all",))          # sample_all_epochs with nothing pending is a no-op
    return init, ops


def valid_schedule(sched):
    """the validity predicate of the property text (EpochManager's invariant)"""
    if not sched or sched[0][0] != INIT or sched[0][1] != 1 or sched[0][2] != 1:
        return False
    seen_post = False
    for (ty, d, th) in sched[1:]:
        if ty == INIT or d < 1 or th < 1 or th > d:
            return False
        if ty == POST:
            if d % th:
                return False
            seen_post = True
        elif seen_post:
            return False
    return True


def n_rows(sched, nker):
    return 2 + sum(d + 3 for (_, d, _) in sched[1:])


def random_schedule(rnd, chunk, n_epochs, types=None):
    mult = [d for d in DURS if d % chunk == 0] or [chunk]
    if types is None:
        n_post = rnd.choice([0, 1, 1, 2, 2, 3])
        n_post = min(n_post, n_epochs)
        types = [rnd.choice([FAST, SLOW, BURNIN]) for _ in range(n_epochs - n_post)] + [POST] * n_post
    sched = [(INIT, 1, 1)]
    for ty in types:
        d = rnd.choice(mult)
        if ty == POST:
            th = rnd.choice([t for t in (1, 1, 2, 3, 4) if d % t == 0])
        else:
            th = rnd.choice([t for t in (1, 1, 2, 3) if t <= d])
        sched.append((ty, d, th))
    return sched


def tags(case):
    sched = full_schedule(case)[:-1]
    tys = [c[0] for c in sched[1:]]
    t = set()
    np_ = sum(1 for x in tys if x == POST)
    t.add({0: "no_posterior_epoch", 1: "one_posterior_epoch", 2: "two_posterior_epochs"}.get(np_, "three_or_more_posterior_epochs"))
    if np_ and not any(x in (FAST, SLOW) for x in tys):
        t.add("posterior_without_any_adaptation_epoch")
    if tys and tys[0] == POST:
        t.add("initial_values_then_posterior")
    for i, x in enumerate(tys):
        if x == BURNIN and any(y in (FAST, SLOW) for y in tys[:i]) and any(y in (FAST, SLOW) for y in tys[i + 1:]):
            t.add("burnin_between_adaptations")
    if any(c[1] == 1 for c in sched[1:]):
        t.add("duration_1_epoch")
    if any(c[1] >= 2 * case["chunk"] for c in sched[1:]):
        t.add("several_jit_chunks_per_epoch")
    if any(c[1] >= 3 * case["chunk"] for c in sched[1:]):
        t.add("three_or_more_jit_chunks_per_epoch")
    if any(case["needs"]) and not all(case["needs"]) and any(x == SLOW for x in tys):
        t.add("slow_epoch_history_needed_by_some_kernels")
    if any(case["needs"]) and any(c[2] > 1 and c[0] in (FAST, SLOW) for c in sched[1:]):
        t.add("history_of_thinned_adaptation_epoch")
    if any(c[2] > 1 and c[1] % c[2] for c in sched[1:]):
        t.add("thinning_not_dividing_duration")
    if not any(case["needs"]):
        t.add("no_kernel_needs_history")
    if BURNIN in tys:
        t.add("has_burnin_epoch")
    app, rej, _ = resolve(case["init"], case["ops"])
    for _, why in rej:
        t.add("rejected append: " + why)
    if rej:
        t.add("rejected_append_then_continued_use")
    if any(o[0] == "try" for o in case["ops"]) and len(rej) < sum(1 for o in case["ops"] if o[0] == "try"):
        t.add("guarded_append_accepted")
    kinds = [o[0] for o in case["ops"]]
    if kinds == ["all"] and len(case["init"]) == len(sched):
        t.add("driver_all_at_once")
    elif ("append" in kinds or "try" in kinds) and "all" not in kinds:
        t.add("driver_one_epoch_at_a_time")
    else:
        t.add("driver_interleaved")
    if case["via"] == "builder":
        t.add("via_EngineBuilder")
    t.add(f"chains_{case['chains']}")
    t.add(f"kernels_{len(case['needs'])}")
    t.add(f"chunk_{case['chunk']}")
    return sorted(t)


def fixed_cases():
    """corpus of interesting cases that always runs first; forces every boundary stratum"""
    I = (INIT, 1, 1)
    out = []

    def add(sched, chunk, needs, chains, driver, stratum, seed, via="engine", **kw):
        if driver == "batch":
            init, ops = batch_ops(sched)
        elif driver == "single":
            init, ops = one_at_a_time_ops(sched)
        else:
            init, ops = driver
        out.append(mk_case(init, ops, chunk, needs, chains, seed, via, stratum, **kw))

    # the witness of C07_end_warmup_refuted (defect F1)
    f1 = [I, (FAST, 4, 1), (POST, 4, 1), (POST, 4, 1)]
    add(f1, 4, [False], 1, "batch", "F1 schedule, one chunk per epoch", 11)
    add(f1, 2, [False, True], 2, "single", "F1 schedule, appended one at a time", 12)
    # warm-up without any adaptation epoch, posterior directly after the initial values
    add([I, (BURNIN, 2, 1), (POST, 2, 1), (POST, 4, 2)], 2, [False, False], 1, "batch", "burn-in only, then posterior", 13)
    add([I, (POST, 3, 1), (POST, 3, 3)], 3, [True], 2, "single", "initial values then posterior", 14)
    # no posterior epoch at all (sentinel is burn-in): zero end_warmup calls
    add([I, (FAST, 2, 1), (SLOW, 4, 2), (BURNIN, 2, 2)], 2, [False, True], 1, "batch", "no posterior epoch", 15)
    # burn-in between adaptations, several chunks per epoch, history needed by one of two kernels, thinning
    ex = [I, (FAST, 4, 2), (SLOW, 8, 1), (BURNIN, 2, 1), (SLOW, 6, 3), (POST, 4, 2), (POST, 6, 3)]
    ex_ops = [("next",), ("append", ex[2]), ("all",), ("append", ex[3]), ("append", ex[4]), ("next",),
              ("append", ex[5]), ("next",), ("append", ex[6]), ("all",)]
    add(ex, 2, [False, True], 2, (ex[:2], ex_ops), "all five types, interleaved, chunk 2", 16)
    add(ex, 1, [True, False, False], 1, "batch", "all five types, chunk 1, three kernels", 17)
    # duration-1 epochs with chunk 1
    add([I, (FAST, 1, 1), (BURNIN, 1, 1), (SLOW, 1, 1), (POST, 1, 1), (POST, 1, 1)], 1, [True, True], 3, "single", "duration-1 epochs", 18)
    # thinning that does not divide the duration of an adaptation epoch, history asked for
    add([I, (SLOW, 4, 3), (FAST, 8, 3), (POST, 8, 4)], 4, [True], 1, "batch", "thinning not dividing the duration", 19)
    # three posterior epochs, three chunks each
    add([I, (SLOW, 3, 1), (POST, 3, 1), (POST, 6, 2), (POST, 9, 3)], 3, [False, False, True], 2, "batch", "three posterior epochs", 20)
    # fault followed by continued use: append_epoch raises, the caller catches the error, appends a valid epoch and
    # samples.  Every rejection reason; the rejected durations are multiples of the chunk.
    g1 = [("next",), ("try", (FAST, 2, 3)), ("append", (FAST, 2, 2)), ("next",), ("try", (INIT, 1, 1)),
          ("try", (FAST, 0, 1)), ("try", (POST, 4, 2)), ("try", (POST, 4, 3)), ("next",), ("try", (BURNIN, 2, 1)),
          ("append", (POST, 2, 1)), ("all",)]
    add(None, 2, [True], 1, ([I], g1), "rejected appends of every kind, then continued use (chunk 2)", 22)
    g2 = [("try", (SLOW, 2, 0)), ("all",), ("try", (POST, 3, 2)), ("append", (POST, 3, 3)), ("try", (FAST, 1, 1)),
          ("try", (POST, 1, 2)), ("next",), ("try", (POST, 2, 2)), ("try", (INIT, 1, 1)), ("try", (SLOW, 0, 1)), ("all",)]
    add(None, 1, [False, True], 2, ([I, (SLOW, 3, 1)], g2), "rejected appends of every kind, then continued use (chunk 1)", 23)
    # the builder's own choice of the chunk (gcd of the durations)
    add([I, (FAST, 4, 1), (BURNIN, 6, 2), (POST, 8, 2)], 2, [False, True], 2, "batch", "EngineBuilder.build()", 21, via="builder")
    return out


def group_cases(rnd, gid, sched, chunk, other_chunk, needs, chains, seed):
    """the same run (same seed) driven three ways: A batch, B incremental (same chunk: the full logs,
    keys included, must be identical), C another chunk (the calls must be identical)"""
    ia, oa = batch_ops(sched)
    ib, ob = one_at_a_time_ops(sched) if rnd.random() < 0.3 else random_ops(rnd, sched, chunk, 0.35)
    if (ib, ob) == (ia, oa):
        ib, ob = one_at_a_time_ops(sched)
    ic, oc = random_ops(rnd, sched, other_chunk, 0.2)
    return [mk_case(ia, oa, chunk, needs, chains, seed, "engine", "group: batch", gid, "A"),
            mk_case(ib, ob, chunk, needs, chains, seed, "engine", "group: incremental, same chunk", gid, "B"),
            mk_case(ic, oc, other_chunk, needs, chains, seed, "engine", "group: other chunk", gid, "C")]


def generate_specs(ctx, rnd):
    specs = []
    for f in sorted(glob.glob(os.path.join(common.VERIF, "harness", "corpus", "C07*.json"))):
        try:
            for c in json.load(open(f)):
                c["stratum"] = "corpus " + os.path.basename(f)
                specs.append(c)
        except Exception as ex:  # a damaged corpus file must not stop the check
            log("corpus file ignored:", f, ex)
    specs += fixed_cases()
    n_groups = 2 if ctx.quick else 8
    n_random = 2 if ctx.quick else 60
    gid = 0
    # groups: batch / incremental / other chunk on the same schedule and seed
    for g in range(n_groups):
        chunk, other = rnd.choice([(2, 1), (2, 4), (1, 2), (3, 1), (4, 2)])
        big = max(chunk, other)
        n_ep = rnd.randint(2, 4)
        sched = random_schedule(rnd, big if big % min(chunk, other) == 0 else chunk * other, n_ep)
        if g == 0:                     # forced: two posterior epochs, several chunks
            sched = [(INIT, 1, 1), (SLOW, 4, 2), (BURNIN, 4, 1), (POST, 8, 2), (POST, 4, 4)]
            chunk, other = 2, 4
        needs = [rnd.random() < 0.5 for _ in range(rnd.randint(1, 3))]
        specs += group_cases(rnd, gid, sched, chunk, other, needs, rnd.randint(1, 2), rnd.randint(1, 10 ** 6))
        gid += 1
    # random configurations
    k = 0
    while k < n_random:
        chunk = rnd.choice([1, 1, 2, 2, 3, 4])
        n_ep = rnd.randint(1, 5)
        sched = random_schedule(rnd, chunk, n_ep)
        nker = rnd.choice([1, 2, 2, 3])
        if n_rows(sched, nker) + chunk + 2 > MAX_ROWS:
            continue
        needs = [rnd.random() < 0.4 for _ in range(nker)]
        chains = rnd.choice([1, 2, 3])
        drv = rnd.choice(["batch", "single", "random", "random"])
        if drv == "batch":
            init, ops = batch_ops(sched)
        elif drv == "single":
            init, ops = one_at_a_time_ops(sched)
        else:
            init, ops = random_ops(rnd, sched, chunk, rnd.choice([0.0, 0.3, 0.5]))
        via = "engine"
        if drv == "batch" and len(sched) > 1 and math.gcd(*[c[1] for c in sched[1:]]) == chunk and rnd.random() < 0.5:
            via = "builder"
        specs.append(mk_case(init, ops, chunk, needs, chains, rnd.randint(1, 10 ** 6), via, "random",
                             sentinel_post=rnd.random() < 0.25))
        k += 1
    if not ctx.quick:
        specs += exhaustive_small(rnd)
    return specs


def exhaustive_small(rnd):
    """thorough tier: every valid type sequence of 1..2 sampled epochs over durations {1,2} (exhaustive), and
    all 40 valid type sequences of 3 sampled epochs with drawn durations; chunk 1, one chain, one kernel"""
    out = []
    import itertools
    for n in (1, 2, 3):
        for tys in itertools.product([FAST, SLOW, BURNIN, POST], repeat=n):
            if any(tys[i] == POST and tys[j] != POST for i in range(n) for j in range(i + 1, n)):
                continue
            durs_list = list(itertools.product([1, 2], repeat=n)) if n < 3 else [tuple(rnd.choice([1, 2]) for _ in range(n))]
            for durs in durs_list:
                sched = [(INIT, 1, 1)] + [(t, d, 1) for t, d in zip(tys, durs)]
                init, ops = random_ops(rnd, sched, 1, rnd.choice([0.0, 0.0, 0.4]))
                out.append(mk_case(init, ops, 1, [rnd.random() < 0.5], 1, rnd.randint(1, 10 ** 6), "engine",
                                   f"exhaustive small schedules (length {n})"))
    return out


# ------------------------------------------------------------------------------------------------
# driving the implementation
# ------------------------------------------------------------------------------------------------
def run_case(case):
    """-> {"logs": logs[chain][kernel] (enginekit rows), "roots": [[k0, k1] per chain]} | {"raised": text}"""
    sched = full_schedule(case)
    try:
        eng, roots = ek.build_engine([tuple(c) for c in case["init"]], case["chains"], case["needs"],
                                     chunk=None if case["via"] == "builder" else case["chunk"],
                                     seed=case["seed"], via=case["via"])
        raised = ek.drive(eng, [(o[0], tuple(o[1])) if o[0] in ("append", "try") else (o[0],) for o in case["ops"]])
        if not eng.is_sampling_done():
            return {"raised": "is_sampling_done() is False after an operation sequence that sampled every epoch"}
        logs = ek.read_logs(eng, sched[:-1], case["chunk"], cut_sentinel=False, sentinel=tuple(case["sentinel"]))
    except Exception as ex:
        return {"raised": f"{type(ex).__name__}: {ex}"}
    return {"logs": logs, "roots": roots, "try_raised": raised}


def row16(r):
    """enginekit row (18 columns) -> the 16 columns compared by Coq: 14 call columns + 2 key words"""
    return r[:14] + [r[ek.C_KEY0], r[ek.C_KEY1]]


# ------------------------------------------------------------------------------------------------
# the direct oracle: the property text, clause by clause, on the decoded log (no model involved)
# ------------------------------------------------------------------------------------------------
def oracle_log(case, rows, k):
    """rows = decoded log of kernel k in one chain"""
    sched = full_schedule(case)
    nker = len(case["needs"])
    anyh = any(case["needs"])
    d = ek.describe_row
    if not rows or rows[0][ek.C_METH] != ek.M_INIT:
        return "the kernel's first call is not init_state"
    if any(r[ek.C_METH] == ek.M_INIT for r in rows[1:]):
        return "init_state called more than once"
    for r in rows:
        if r[ek.C_NTH] == 0:
            return f"a kernel call in the initial-values epoch: {d(r)}"
        if r[ek.C_KIDX] != k:
            return f"log of kernel {k} contains a row of kernel {r[ek.C_KIDX]}"
    body = rows[1:]
    pos = 0
    t0 = 1                       # the initial-values epoch has duration 1
    iters_before = 0
    first_post = next((n for n in range(1, len(sched)) if sched[n][0] == POST), None)
    n_endwarm = sum(1 for r in rows if r[ek.C_METH] == ek.M_ENDWARMUP)
    want_ew = 1 if first_post is not None else 0
    for n in range(1, len(sched)):
        ty, dur, th = sched[n]
        last = n == len(sched) - 1
        name = f"epoch #{n} ({ETY[ty]}, duration {dur}, thinning {th})"
        adapt = ty in (FAST, SLOW)
        if n == first_post:
            if pos >= len(body) or body[pos][ek.C_METH] != ek.M_ENDWARMUP:
                got = d(body[pos]) if pos < len(body) else "end of log"
                return (f"no end_warmup call immediately before the first posterior epoch ({name}): "
                        f"the kernel received {n_endwarm} end_warmup call(s) in total; next call is {got}")
            pos += 1
        # one start-of-epoch call
        if pos >= len(body):
            return f"log ends before {name} started"
        r = body[pos]
        if r[ek.C_METH] == ek.M_ENDWARMUP:
            return (f"end_warmup called before {name}, which is not the first posterior epoch "
                    f"(the kernel received {n_endwarm} end_warmup calls, expected {want_ew})")
        if r[ek.C_METH] != ek.M_START or r[ek.C_NTH] != n:
            return f"expected the start_epoch call of {name}, got {d(r)}"
        if [r[ek.C_ETY], r[ek.C_DUR], r[ek.C_THIN]] != [ty, dur, th] or r[ek.C_TIN] != 0 or r[ek.C_TIME] != t0:
            return f"start_epoch of {name} received a wrong epoch state (expected time {t0}, time_in_epoch 0): {d(r)}"
        pos += 1
        # exactly `duration` transitions, within-epoch time 0..duration-1, global time continuing
        for j in range(dur):
            if pos >= len(body):
                return f"{name}: only {j} transitions, expected {dur}"
            r = body[pos]
            if r[ek.C_METH] not in (ek.M_TRANS_STD, ek.M_TRANS_ADAPT) or r[ek.C_NTH] != n:
                return f"{name}: only {j} transitions, expected {dur}; next call is {d(r)}"
            if r[ek.C_TIN] != j or r[ek.C_TIME] != t0 + j:
                return (f"{name}: transition {j} received time_in_epoch={r[ek.C_TIN]}, time={r[ek.C_TIME]}; "
                        f"expected time_in_epoch={j}, time={t0 + j}")
            if [r[ek.C_ETY], r[ek.C_DUR], r[ek.C_THIN], r[ek.C_T0]] != [ty, dur, th, t0]:
                return f"{name}: transition {j} received a wrong epoch config: {d(r)}"
            if (r[ek.C_METH] == ek.M_TRANS_ADAPT) != adapt:
                return (f"{name}: transition {j} was {'adaptive' if not adapt else 'standard'}; adaptive transitions "
                        f"must be used exactly in adaptation epochs")
            if r[ek.C_CLOCK] != (iters_before + j) * nker + k:
                return (f"{name}: transition {j} of kernel {k} ran as call number {r[ek.C_CLOCK]} of the kernel sequence, "
                        f"expected {(iters_before + j) * nker + k} (kernels in sequence order, once per iteration)")
            pos += 1
        if last:
            if pos != len(body):
                return f"{name}: more calls than {dur} transitions: {d(body[pos])}"
            break
        # one end-of-epoch call
        if pos >= len(body) or body[pos][ek.C_METH] != ek.M_END or body[pos][ek.C_NTH] != n:
            got = d(body[pos]) if pos < len(body) else "end of log"
            if pos < len(body) and body[pos][ek.C_METH] in (ek.M_TRANS_STD, ek.M_TRANS_ADAPT) and body[pos][ek.C_NTH] == n:
                return f"{name}: more than {dur} transitions"
            return f"{name}: expected the end_epoch call after {dur} transitions, got {got}"
        r = body[pos]
        if [r[ek.C_ETY], r[ek.C_DUR], r[ek.C_THIN]] != [ty, dur, th]:
            return f"end_epoch of {name} received a wrong epoch config: {d(r)}"
        pos += 1
        # a tuning call iff adaptation epoch
        is_tune = pos < len(body) and body[pos][ek.C_METH] in (ek.M_TUNE_FAST, ek.M_TUNE_SLOW)
        if adapt and not is_tune:
            return f"{name} is an adaptation epoch but no tuning call follows its end_epoch"
        if not adapt and is_tune:
            return f"{name} is not an adaptation epoch but a tuning call was made: {d(body[pos])}"
        if adapt:
            r = body[pos]
            if r[ek.C_NTH] != n or [r[ek.C_ETY], r[ek.C_DUR], r[ek.C_THIN]] != [ty, dur, th]:
                return f"tuning call after {name} received another epoch: {d(r)}"
            if (r[ek.C_METH] == ek.M_TUNE_SLOW) != (ty == SLOW):
                return f"{name}: {'fast' if ty == SLOW else 'slow'} tuning used"
            if bool(r[ek.C_HFLAG]) != anyh:
                return (f"{name}: tuning call {'received no' if anyh else 'received a'} history although "
                        f"{'a' if anyh else 'no'} kernel asks for it")
            if anyh:
                rec = [n * 1000 + t for t in range(1, dur + 1) if t % th == 0]
                if [r[ek.C_HLEN], r[ek.C_HFIRST], r[ek.C_HLAST]] != [len(rec), rec[0], rec[-1]]:
                    return (f"{name}: the history handed to tune is not that epoch's recorded history: got length "
                            f"{r[ek.C_HLEN]}, first {r[ek.C_HFIRST]}, last {r[ek.C_HLAST]}; expected length {len(rec)}, "
                            f"first {rec[0]}, last {rec[-1]} (stamp = epoch*1000 + iteration)")
            pos += 1
        t0 += dur
        iters_before += dur
    if n_endwarm != want_ew:
        return f"the kernel received {n_endwarm} end_warmup calls, expected exactly {want_ew}"
    return None


def oracle(case, obs):
    """-> None | why (str)"""
    if "raised" in obs:
        return f"the engine raised on a valid configuration: {obs['raised']}"
    app, rej, want = resolve(case["init"], case["ops"])
    tries = [tuple(o[1]) for o in case["ops"] if o[0] == "try"]
    for c, w, got in zip(tries, want, obs.get("try_raised", want)):
        if w != got:
            return (f"append_epoch {'accepted' if w else 'rejected'} the {'in' if w else ''}valid config "
                    f"({ETY[c[0]]}, duration {c[1]}, thinning {c[2]})")
    logs = obs["logs"]
    if len(logs) != case["chains"] or any(len(l) != len(case["needs"]) for l in logs):
        return "kernel states missing for some chain / kernel"
    for c, per_kernel in enumerate(logs):
        for k, rows in enumerate(per_kernel):
            r = oracle_log(case, rows, k)
            if r:
                if rej:
                    r += ("  [the schedule consists of the accepted configs only; append_epoch rejected "
                          + ", ".join(f"({ETY[x[0]]}, duration {x[1]}, thinning {x[2]}: {why})" for x, why in rej)
                          + " and a rejected config must not be sampled]")
                return f"chain {c}, kernel {k}: {r}"
            if any(x[ek.C_CID] != c for x in rows):
                return f"chain {c}, kernel {k}: a call was made with another chain's model state"
            if [x[:14] for x in rows] != [x[:14] for x in logs[0][k]]:
                return f"chain {c}, kernel {k}: lifecycle differs from chain 0"
    return None


def oracle_group(cases, obss):
    """same schedule and seed: A batch, B incremental with the same chunk, C another chunk"""
    by = {c["variant"]: (c, o) for c, o in zip(cases, obss) if "logs" in o}
    if "A" in by and "B" in by:
        a, b = by["A"][1]["logs"], by["B"][1]["logs"]
        if a != b:
            keyless = [[[r[:14] for r in k] for k in c] for c in a] == [[[r[:14] for r in k] for k in c] for c in b]
            return ("appending and sampling the epochs incrementally gives a different trace than constructing the "
                    "engine with the whole schedule and calling sample_all_epochs"
                    + (" (same calls, different PRNG keys)" if keyless else ""), [by["A"][0], by["B"][0]])
    if "A" in by and "C" in by:
        a, c = by["A"][1]["logs"], by["C"][1]["logs"]
        ka = [[[r[:14] for r in k] for k in ch] for ch in a]
        kc = [[[r[:14] for r in k] for k in ch] for ch in c]
        # the sentinel lasts one chunk, so only the calls before the sentinel are comparable
        ns = len(full_schedule(by["A"][0])) - 1
        cutf = lambda L: [[[r for r in k if r[ek.C_NTH] != ns] for k in ch] for ch in L]  # noqa: E731
        if cutf(ka) != cutf(kc):
            return (f"the calls depend on the JIT chunk (chunk {by['A'][0]['chunk']} vs {by['C'][0]['chunk']})",
                    [by["A"][0], by["C"][0]])
    return None


# ------------------------------------------------------------------------------------------------
# emission
# ------------------------------------------------------------------------------------------------
def econf_lit(c):
    return f"(mkE {ETY[int(c[0])]} {zlit(c[1])} {zlit(c[2])})"


def op_lit(o):
    if o[0] == "append":
        return f"AppendEpoch {econf_lit(o[1])}"
    if o[0] == "try":
        return f"TryAppend {econf_lit(o[1])}"
    return "SampleNext" if o[0] == "next" else "SampleAll"


def case_lit(case, chains_lit="[]"):
    return "(mkCase {ch} {needs} {init} {ops} {chains})".format(
        ch=zlit(case["chunk"]), needs=lst(blit(b) for b in case["needs"]),
        init=lst(econf_lit(c) for c in case["init"]), ops=lst(op_lit(o) for o in all_ops(case)), chains=chains_lit)


def model_path_codes(ctx, cases):
    """per case: (final carry path, codes of all key paths the model hands out) - evaluated by Coq on the
    model itself.  A code is  [m, n1, i1, n2, i2, ...]: the path is final_carry[:m] ++ [(n1,i1), (n2,i2), ...]"""
    out = []
    for a in range(0, len(cases), 40):
        part = cases[a:a + 40]
        txt = HEADER + f"Definition inputs : list ccase := {lst(case_lit(c) for c in part)}.\n" \
                       "Eval vm_compute in (map model_paths inputs).\n"
        ok, res = ctx.coq_eval(txt)
        m = re.search(r"=\s*(\[.*\])\s*:\s*list \(list \(list Z\)\)", res, re.S)
        if not ok or not m:
            raise RuntimeError("could not evaluate model_paths: " + res[-500:])
        vals = ast.literal_eval(re.sub(r"%Z", "", m.group(1)).replace(";", ","))
        assert len(vals) == len(part)
        for v in vals:
            if not v:
                raise RuntimeError("the model rejects a generated configuration")
            fin = list(zip(v[0][0::2], v[0][1::2]))
            out.append((fin, v[1:]))
    return out


def key_tables(case, obs, fin_codes):
    """per chain: [(code, k0, k1)] for every distinct model path, the concrete key derived with
    jax.random.split along the path from the chain's root"""
    fin, codes = fin_codes
    uniq = sorted(set(tuple(c) for c in codes))
    tabs = []
    for root in obs["roots"]:
        tab = []
        for code in uniq:
            m, suf = code[0], code[1:]
            path = list(fin[:m]) + list(zip(suf[0::2], suf[1::2]))
            tab.append((code, *ek.derive_key(root, path)))
        tabs.append(tab)
    return tabs


def chains_lit(obs, tabs):
    items = []
    for per_kernel, tab in zip(obs["logs"], tabs):
        t = lst(f"({lst(str(x) for x in code)}, ({a}, {b}))" for code, a, b in tab)
        ls = lst(lst(lst(zlit(x) for x in row16(r)) for r in rows) for rows in per_kernel)
        items.append(f"(mkCh {t} {ls})")
    return lst(items)


SHARD_LEMMAS = """
Lemma shard_hyp : forallb hyp_ok cases = true.
Proof. vm_compute. reflexivity. Qed.
Lemma shard_spec : forallb spec_agrees cases = true.
Proof. vm_compute. reflexivity. Qed.
Lemma shard_ok : forallb agrees_calls cases = true.
Proof. vm_compute. reflexivity. Qed.
Lemma shard_keys_ok : forallb agrees cases = true.
Proof. vm_compute. reflexivity. Qed.
"""


def emit(ctx, cases, obss):
    """-> [(path, [case indices])]"""
    idx = [i for i, o in enumerate(obss) if "logs" in o]
    t0 = time.time()
    codes = model_path_codes(ctx, [cases[i] for i in idx])
    t1 = time.time()
    lits = {}
    for i, cd in zip(idx, codes):
        lits[i] = case_lit(cases[i], chains_lit(obss[i], key_tables(cases[i], obss[i], cd)))
    log(f"[c07] model paths {t1 - t0:.1f}s, key derivation + literals {time.time() - t1:.1f}s")
    shards = []
    per = 6
    for a in range(0, len(idx), per):
        part = idx[a:a + per]
        txt = HEADER + f"Definition cases : list ccase := {lst(lits[i] for i in part)}.\n" + SHARD_LEMMAS
        shards.append((ctx.new_shard(txt), part))
    return shards


def diagnose(ctx, path, idxs):
    """-> {case index: [calls Sets, keys Sets, calls Never, keys Never, hyp, spec]} for the shard's cases"""
    src = open(path).read().split("Lemma shard_hyp")[0]
    ok, res = ctx.coq_eval(src + "Eval vm_compute in (map verdicts cases).\nEval vm_compute in (map (first_diff SetsFlag) cases).\n")
    out, fd = {}, {}
    for blk in re.split(r"(?m)^\s*=\s", res)[1:]:
        m = re.match(r"(\[.*\])\s*:\s*list \(list (bool|nat)\)", blk, re.S)
        if not m:
            continue
        body = re.sub(r"%nat", "", m.group(1)).replace(";", ",").replace("true", "True").replace("false", "False")
        vals = ast.literal_eval(body)
        for i, v in zip(idxs, vals):
            (out if m.group(2) == "bool" else fd)[i] = v
    return out, fd


# ------------------------------------------------------------------------------------------------
def slim(case):
    return {k: case[k] for k in ("init", "ops", "sentinel", "chunk", "needs", "chains", "seed", "via", "stratum", "group", "variant")}


def shrink(case, why_kind, budget=6):
    """try to make a failing case smaller (fewer chains / kernels / epochs), keeping the same kind of failure"""
    best = case
    tried = 0

    def fails(c):
        nonlocal tried
        tried += 1
        if not valid_schedule(full_schedule(c)[:-1]):
            return False
        r = oracle(c, run_case(c))
        return bool(r) and kind_of(r) == why_kind

    cands = []
    sched = full_schedule(case)[:-1]
    if case["chains"] > 1 or len(case["needs"]) > 1:
        c = dict(case, chains=1, needs=case["needs"][:1])
        cands.append(c)
    # fault followed by continued use: the smallest pattern around each rejected config
    for bad, _why in resolve(case["init"], case["ops"])[1]:
        if bad[1] < 1 or bad[1] % case["chunk"]:
            continue
        pre = [(INIT, 1, 1)] + ([(POST, case["chunk"], 1)] if (bad[0] not in (POST, INIT) and _why.startswith("warm-up")) else [])
        good = (POST if (bad[0] == POST or len(pre) > 1) else FAST, bad[1], 1)
        c = mk_case(pre, [("try", bad), ("append", good), ("all",)], case["chunk"], case["needs"][:1], 1, case["seed"],
                    "engine", "shrunk")
        cands.insert(0, c)
    if any(o[0] == "try" for o in case["ops"]):
        budget += 4
    for drop in range(len(sched) - 1, 0, -1):
        s2 = sched[:drop] + sched[drop + 1:]
        if len(s2) < 2:
            continue
        init, ops = batch_ops(s2)
        cands.append(mk_case(init, ops, case["chunk"], case["needs"][:1], 1, case["seed"], "engine", "shrunk"))
    for c in cands:
        if tried >= budget:
            break
        try:
            if fails(c):
                best = c
                if c.get("stratum") == "shrunk":
                    break
        except Exception:
            pass
    return best


def kind_of(why):
    w = re.sub(r"chain \d+, kernel \d+: ", "", str(why))
    w = re.sub(r"\([^)]*\)", "", w)
    return re.sub(r"[0-9]+", "#", w)[:60]


def search(ctx, rnd, budget_s=70):
    """widened search with the direct oracle only (no Coq): random configurations biased to the strata the
    sampled run is thinnest on"""
    t0 = time.time()
    found = []
    n = 0
    while time.time() - t0 < budget_s and not found:
        chunk = rnd.choice([1, 2, 3])
        sched = random_schedule(rnd, chunk, rnd.randint(2, 5))
        nker = rnd.choice([1, 2, 3])
        if n_rows(sched, nker) + chunk + 2 > MAX_ROWS:
            continue
        if n % 3 == 0:
            grp = group_cases(rnd, 1000 + n, sched, chunk, 1 if chunk > 1 else 2 if all(c[1] % 2 == 0 for c in sched[1:]) else 1,
                              [rnd.random() < 0.5 for _ in range(nker)], 1, rnd.randint(1, 10 ** 6))
            obss = [run_case(c) for c in grp]
            for c, o in zip(grp, obss):
                r = oracle(c, o)
                if r:
                    found.append({"why": r, "case": slim(c)})
                    break
            else:
                g = oracle_group(grp, obss)
                if g:
                    found.append({"why": g[0], "cases": [slim(x) for x in g[1]]})
        else:
            init, ops = random_ops(rnd, sched)
            c = mk_case(init, ops, chunk, [rnd.random() < 0.5 for _ in range(nker)], rnd.choice([1, 2]), rnd.randint(1, 10 ** 6))
            r = oracle(c, run_case(c))
            if r:
                found.append({"why": r, "case": slim(c)})
        n += 1
    ctx.hist("search.configurations", n)
    return found


def run(ctx) -> int:
    rnd = random.Random(ctx.seed)
    built = ctx.coq_build()
    thm_ok = built and ctx.check_property_file()
    if not built:
        ctx.broken.append("coq build (make) failed")
    forb = ctx.forbidden_scan()
    if forb:
        ctx.broken.append("forbidden constructs: " + "; ".join(forb[:5]))

    log(f"[c07] build + theorems {time.time() - ctx.t0:.1f}s")
    cases = generate_specs(ctx, rnd)
    for c in cases:
        assert valid_schedule(full_schedule(c)), c
    t_run = time.time()
    obss = [run_case(c) for c in cases]
    ctx.cov["implementation_run_s"] = round(time.time() - t_run, 1)
    log(f"[c07] {len(cases)} configurations run on the implementation in {time.time() - t_run:.1f}s")

    # evidence: distribution of the inputs
    distinct = set()
    n_rows_total = 0
    for c, o in zip(cases, obss):
        for t in tags(c):
            ctx.hist(t)
        ctx.hist("stratum: " + re.sub(r"corpus .*", "corpus", c.get("stratum", "")))
        distinct.add(json.dumps([c["init"], c["ops"], c["chunk"], c["needs"], c["chains"]]))
        if "logs" in o:
            n_rows_total += sum(len(rows) for ch in o["logs"] for rows in ch)
    ctx.count(len(cases), len(distinct))
    ctx.hist("kernel calls compared (rows)", n_rows_total)
    for c in cases[5:8]:
        ctx.sample({"schedule": [[ETY[x[0]], x[1], x[2]] for x in full_schedule(c)], "ops": [o[0] for o in all_ops(c)],
                    "chunk": c["chunk"], "needs_history": c["needs"], "chains": c["chains"], "tags": tags(c)})
    ctx.cov["rule"] = ("one case = one run of the real Engine (schedule incl. sentinel, operation sequence, JIT chunk, "
                       "needs_history list, chain count); distinct = distinct such tuples; all are non-trivial (>= 1 sampled epoch); "
                       "every row of every kernel of every chain is compared")

    # direct oracle
    fails = []
    for i, (c, o) in enumerate(zip(cases, obss)):
        r = oracle(c, o)
        if r:
            fails.append({"why": r, "case": slim(c), "index": i})
    groups = {}
    for i, c in enumerate(cases):
        if c.get("group") is not None:
            groups.setdefault(c["group"], []).append(i)
    for gid, ii in groups.items():
        g = oracle_group([cases[i] for i in ii], [obss[i] for i in ii])
        if g:
            fails.append({"why": g[0], "cases": [slim(x) for x in g[1]]})
    ctx.hist("groups batch/incremental/other-chunk", len(groups))

    # correspondence
    disagree = {}
    if built:
        shards = emit(ctx, cases, obss)
        t_c = time.time()
        res = ctx.compile_shards([p for p, _ in shards])
        log(f"[c07] {len(shards)} shards compiled in {time.time() - t_c:.1f}s")
        bad_shards = []
        for p, idxs in shards:
            ok, out = res[p]
            if not ok:
                bad_shards.append(os.path.basename(p))
                log(f"shard {p} failed:\n{out[-600:]}")
                try:
                    v, fd = diagnose(ctx, p, idxs)
                    for i in idxs:
                        if i in v and not all([v[i][0], v[i][1], v[i][4], v[i][5]]):
                            disagree[i] = {"verdicts": v[i], "first_diff": fd.get(i)}
                    if not any(i in disagree for i in idxs):
                        for i in idxs:
                            disagree[i] = {"verdicts": v.get(i), "first_diff": fd.get(i)}
                except Exception as ex:
                    log("diagnose failed:", repr(ex))
                    for i in idxs:
                        disagree[i] = {"verdicts": None}
        if bad_shards:
            names = []
            for i, dv in disagree.items():
                v = dv.get("verdicts")
                if v:
                    names += [nm for nm, okk in zip(["shard_ok", "shard_keys_ok", None, None, "shard_hyp", "shard_spec"], v) if nm and not okk]
            ctx.broken.append("correspondence lemma(s) " + ", ".join(sorted(set(names)) or ["shard_ok"]) + " in " + ", ".join(bad_shards))
            f1 = [i for i, dv in disagree.items() if dv.get("verdicts") and not dv["verdicts"][0] and dv["verdicts"][2]]
            if f1:
                ctx.cov["variant"] = "NeverSets"
                ctx.broken.append(f"{len(f1)} case(s) agree with the model variant NeverSets (end_warmup guard flag never set: defect F1, "
                                  "theorem C07_end_warmup_refuted)")
    ctx.cov.setdefault("variant", "SetsFlag")
    n_err = sum(1 for o in obss if "raised" in o)
    ctx.hist("engine raised", n_err)

    ctx.tested_not_proved += [
        "vmap over chains = the same machine per chain: every chain's log is compared with the same model trace (only the root key differs)",
        "jit / lax.scan / lax.cond semantics (scan = left fold, cond = if): exercised by the runs, not proved",
        "threefry behaves like a free splitting tree: concrete keys are re-derived with jax.random.split along the model's path and compared exactly",
        "batch run == incremental run on the implementation itself (full logs incl. keys), calls independent of the chunk (groups)",
    ]
    ctx.assume += ["valid sched = true (EpochManager invariant; C16 proves accepts = valid)",
                   "chunk_ok: 0 < chunk and chunk divides the duration of every sampled epoch",
                   "ops_ok: the operation sequence never samples without a pending epoch and ends with all epochs sampled",
                   "the kernels follow the Kernel protocol and do not raise"]
    ctx.extra_tb = ["harness LoggingKernel (enginekit.py): what it logs is what it was called with; log read back through store_kernel_states",
                    "the sentinel epoch appended to read the log is part of every case; its end_epoch call is the only call not observed"]

    # verdict
    seen = set()
    for f in fails:
        kd = kind_of(f["why"])
        if kd in seen or len(seen) >= 3:
            continue
        seen.add(kd)
        rp = dict(f)
        if "case" in f:
            full = next((c for c in cases if slim(c) == f["case"]), None)
            if full is not None and "raised" not in obss[f["index"]]:
                try:
                    small = shrink(full, kd)
                    if small is not full:
                        r2 = oracle(small, run_case(small))
                        if r2:
                            rp = {"why": r2, "case": slim(small), "shrunk_from": f["case"]}
                except Exception as ex:
                    log("shrink failed:", repr(ex))
        rp.pop("index", None)
        ctx.violation(rp["why"], rp, True, None)
    if (disagree or not thm_ok or forb or (built and ctx.broken)) and not fails:
        found = []
        try:
            found = search(ctx, rnd, 60 if ctx.quick else 200)
        except Exception as ex:
            log("search failed:", repr(ex))
        for f in found[:2]:
            ctx.violation(f["why"], f, True, None)
        if not found:
            ctx.violation("; ".join(ctx.broken) or "correspondence disagreement",
                          {"broken": ctx.broken,
                           "disagreeing_cases": [dict(slim(cases[i]), diagnosis=dv) for i, dv in list(disagree.items())[:4]]},
                          False, None)
    return ctx.finish()


def replay(rp) -> int:
    r = rp.get("replay", rp)
    cs = [r["case"]] if "case" in r else r.get("cases")
    if not cs:
        print("replay file names no concrete input (broken lemma only):", r.get("broken"))
        for c in r.get("disagreeing_cases", [])[:1]:
            print("first disagreeing case:", json.dumps(c))
        return 0
    cs = [dict(c) for c in cs]
    obss = [run_case(c) for c in cs]
    for c, o in zip(cs, obss):
        why = oracle(c, o)
        if why:
            print("schedule:", [[ETY[x[0]], x[1], x[2]] for x in full_schedule(c)], "chunk", c["chunk"], "ops", [o_[0] for o_ in all_ops(c)])
            print("REPLAY FAILS:", why)
            return 1
    if len(cs) > 1:
        g = oracle_group(cs, obss)
        if g:
            print("REPLAY FAILS:", g[0])
            return 1
    print("replay passes on the current tree")
    return 0
