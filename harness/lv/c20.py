"""C20 - optim_flat: stopping rule, restored optimum, history shape, fresh mini-batches.

A. exhaustive: Stopper.stop_early / stop_now / which_best_in_recent_history on ALL loss histories of
   length L over {0,1,2,3} x all i x patience x (atol, rtol); Coq enumerates the same space and the
   packed result words must be equal (one N literal per method and configuration).  Forced strata: negative
   losses; attributes assigned on an existing Stopper instance (model: apply_ops on the constructed record).
B. optim_flat end-to-end with a scripted optimizer (positions prescribed per iteration): iteration,
   iteration_best, restored position, history shape, model state; Coq re-runs optim_loop on the
   observed validation losses.
C. mini-batching: the key handed to the batch generator in every iteration is captured and compared
   with the model's key path (carry advanced); batches must be re-drawn.
D. optim_flat end-to-end with several NAMED parameters in non-alphabetical order: returned position and
   position history compared name by name with StopperPos.optim_flat_full (c20_pos.py); validation models of
   equal and different size than the training model (other data), recorded losses against an independent
   evaluation; one run with a Stopper whose attributes are assigned after construction.
E. _generate_batch_indices against StopperPos.batch_indices (c20_pos.py).
"""
from __future__ import annotations

import itertools
import logging
import math
import random
from fractions import Fraction
from unittest import mock

from . import common
from . import c20_pos
from . import c20_tie
from .common import lst, blit, natlit, qlit, zlit

HEADER = """From Coq Require Import String.
From Coq Require Import List ZArith NArith QArith Bool.
Import ListNotations.
From LV Require Import Goose.Stopper Goose.StopperPos Goose.CorrC20.
"""

TOLS = [Fraction(0), Fraction(1, 2), Fraction(1)]
ALPHA = [0, 1, 2, 3]
ALPHA_NEG = [-3, -2, -1, 0]      # stratum with negative losses: the relative test divides by |best|, not by best


# ---------------------------------------------------------------------------------------------
def part_a(ctx):
    import jax, jax.numpy as jnp, numpy as np
    from liesel.goose.optim import Stopper

    L = 6 if ctx.quick else 8
    hs = np.array(list(itertools.product(ALPHA, repeat=L)), dtype=np.float32)       # lexicographic
    H = jnp.asarray(np.repeat(hs, L, axis=0))
    I = jnp.asarray(np.tile(np.arange(L, dtype=np.int32), hs.shape[0]))
    cfgs = []
    for p in range(1, 5):
        for at in TOLS:
            for rt in TOLS:
                cfgs.append((L, p, at, rt))
    cfgs.append((L - 2, 2, Fraction(0), Fraction(0)))
    cfgs.append((L + 3, 3, Fraction(1, 2), Fraction(0)))
    out = []
    nev = 0
    for (mi, p, at, rt) in cfgs:
        st = Stopper(max_iter=mi, patience=p, atol=float(at), rtol=float(rt))
        se = np.asarray(jax.jit(jax.vmap(lambda i, h: st.stop_early(i, h)))(I, H)).astype(bool)
        sn = np.asarray(jax.jit(jax.vmap(lambda i, h: st.stop_now(i, h)))(I, H)).astype(bool)
        wb = np.asarray(jax.jit(jax.vmap(lambda i, h: st.which_best_in_recent_history(i, h)))(I, H)).astype(int)
        nev += 3 * len(se)
        out.append({"cfg": (mi, p, at, rt), "L": L, "se": se, "sn": sn, "wb": wb})
    for o in out:
        o["hs"] = hs
    # forced stratum: all histories of length 5 over NEGATIVE losses, relative tolerance > 0, absolute tolerance 0
    # (diff / |best| <= rtol differs from diff / best <= rtol exactly when best < 0)
    Ln = 5
    hs_n = np.array(list(itertools.product(ALPHA_NEG, repeat=Ln)), dtype=np.float32)
    Hn = jnp.asarray(np.repeat(hs_n, Ln, axis=0))
    In = jnp.asarray(np.tile(np.arange(Ln, dtype=np.int32), hs_n.shape[0]))
    cfgs_n = [(Ln, 2, Fraction(0), Fraction(1, 2)), (Ln + 2, 3, Fraction(0), Fraction(1))]
    for (mi, p, at, rt) in cfgs_n:
        st = Stopper(max_iter=mi, patience=p, atol=float(at), rtol=float(rt))
        se = np.asarray(jax.jit(jax.vmap(lambda i, h: st.stop_early(i, h)))(In, Hn)).astype(bool)
        sn = np.asarray(jax.jit(jax.vmap(lambda i, h: st.stop_now(i, h)))(In, Hn)).astype(bool)
        wb = np.asarray(jax.jit(jax.vmap(lambda i, h: st.which_best_in_recent_history(i, h)))(In, Hn)).astype(int)
        nev += 3 * len(se)
        out.append({"cfg": (mi, p, at, rt), "L": Ln, "se": se, "sn": sn, "wb": wb, "hs": hs_n, "neg": True})
    ctx.hist("A.configs_negative_losses", len(cfgs_n))
    # forced stratum: attributes ASSIGNED on an existing instance before use (Stopper is a mutable dataclass; optim_flat
    # itself re-assigns stopper.patience): behaviour must follow the CURRENT values.  (constructor kwargs, assignments)
    F = Fraction
    reassigned = [
        ({"max_iter": L, "patience": 2, "atol": 0.0}, [("rtol", F(1, 2))]),                      # rtol default 0 -> 1/2
        ({"max_iter": L, "patience": 3, "atol": 0.0, "rtol": 0.0}, [("rtol", F(1))]),
        ({"max_iter": L, "patience": 2, "atol": 0.0, "rtol": 1.0}, [("rtol", F(0))]),            # and back to 0
        ({"max_iter": L, "patience": 2}, [("atol", F(1))]),                                      # atol default 1e-3 -> 1
        ({"max_iter": L, "patience": 2, "atol": 1.0, "rtol": 0.0}, [("atol", F(0))]),
        ({"max_iter": L, "patience": 1, "atol": 0.0, "rtol": 0.0}, [("patience", 3)]),
        ({"max_iter": L + 3, "patience": 2, "atol": 0.5, "rtol": 0.0}, [("max_iter", L - 2)]),
        ({"max_iter": 30, "patience": 5}, [("rtol", F(1, 2)), ("atol", F(0)), ("patience", 2), ("max_iter", L)]),
        ({"max_iter": L, "patience": 2, "atol": 0.0}, [("rtol", F(1)), ("rtol", F(1, 2))]),      # assigned twice: last wins
    ]
    for (kw, assigns) in reassigned:
        st = Stopper(**kw)
        cur = {name: getattr(st, name) for name in ("max_iter", "patience", "atol", "rtol")}     # as constructed (with defaults)
        asbuilt = {k: str(F(v)) for k, v in cur.items()}
        for (name, v) in assigns:
            setattr(st, name, int(v) if name in ("max_iter", "patience") else float(v))
            cur[name] = v
        cfg = (int(cur["max_iter"]), int(cur["patience"]), F(cur["atol"]), F(cur["rtol"]))
        se = np.asarray(jax.jit(jax.vmap(lambda i, h: st.stop_early(i, h)))(I, H)).astype(bool)
        sn = np.asarray(jax.jit(jax.vmap(lambda i, h: st.stop_now(i, h)))(I, H)).astype(bool)
        wb = np.asarray(jax.jit(jax.vmap(lambda i, h: st.which_best_in_recent_history(i, h)))(I, H)).astype(int)
        nev += 3 * len(se)
        out.append({"cfg": cfg, "L": L, "se": se, "sn": sn, "wb": wb, "hs": hs,
                    "constructed": asbuilt, "constructed_kwargs": {k: str(F(v)) for k, v in kw.items()},
                    "assigned": [[name, str(v)] for name, v in assigns]})
    ctx.hist("A.configs_attributes_assigned_after_construction", len(reassigned))
    for name in ("max_iter", "patience", "atol", "rtol"):
        ctx.hist("A.assigned." + name, sum(1 for _, a in reassigned if any(n == name for n, _ in a)))
    ctx.count(nev, sum(int(o["se"].sum()) + int((~o["se"]).sum() > 0) for o in out))
    ctx.hist("A.configs", len(cfgs))
    ctx.hist("A.method_evaluations", nev)
    ctx.hist("A.stop_early_true", int(sum(o["se"].sum() for o in out)))
    ctx.cov["exhaustive"] = True
    ctx.sample({"part": "A", "history_len": L, "alphabet": ALPHA, "config_example": [str(x) for x in cfgs[5]],
                "stop_early_true_for_config": int(out[5]["se"].sum()), "of": int(len(out[5]["se"]))})
    return {"hs": hs, "L": L, "out": out}


def pack_bits(bits):
    bits = list(bits)
    return lst("0x" + format(int("1" + "".join("1" if b else "0" for b in bits[k:k + 2048]), 2), "x")
               for k in range(0, len(bits), 2048))


def pack_nibbles(vals):
    vals = list(vals)
    return lst("0x1" + "".join(format(int(v) + 8, "x") for v in vals[k:k + 512]) for k in range(0, len(vals), 512))


def emit_a(ctx, a):
    paths = []
    for k, o in enumerate(a["out"]):
        mi, p, at, rt = o["cfg"]
        # an index outside the nibble range cannot be a model value (the model's indices lie in [-3, L-1]): encode it as the
        # sentinel -8, which never agrees; the direct oracle names the input
        o["wb"] = [v if -7 <= v <= 7 else -8 for v in o["wb"]]
        if o.get("neg"):
            txt = HEADER + f"""
Definition st := mkStopper {natlit(mi)} {natlit(p)} {qlit(at)} {qlit(rt)}.
Definition alphabet_neg : list Q := {lst(qlit(x) for x in ALPHA_NEG)}.
Fixpoint hists_neg (n : nat) : list (list Q) :=
  match n with
  | O => [[]]
  | S n' => flat_map (fun a => map (cons a) (hists_neg n')) alphabet_neg
  end.
Definition enum_neg {{A}} (f : nat -> list Q -> A) (L : nat) : list A :=
  flat_map (fun h => map (fun i => f i h) (seq 0 L)) (hists_neg L).
Lemma shard_ok_stop_early : nlist_eqb (pack_bits (enum_neg (stop_early st) {natlit(o['L'])})) ({pack_bits(o['se'])})%N = true.
Proof. vm_compute. reflexivity. Qed.
Lemma shard_ok_stop_now : nlist_eqb (pack_bits (enum_neg (stop_now st) {natlit(o['L'])})) ({pack_bits(o['sn'])})%N = true.
Proof. vm_compute. reflexivity. Qed.
Lemma shard_ok_which_best : nlist_eqb (pack_nibbles (enum_neg (which_best st) {natlit(o['L'])})) ({pack_nibbles(o['wb'])})%N = true.
Proof. vm_compute. reflexivity. Qed.
"""
            paths.append(ctx.new_shard(txt, f"cases_A{k:02d}_neg"))
            continue
        st_term = f"mkStopper {natlit(mi)} {natlit(p)} {qlit(at)} {qlit(rt)}"
        if o.get("assigned"):
            # the model instance as constructed (attribute values read back after construction), then the assignments
            k0 = o["constructed"]
            ops = {"max_iter": lambda v: f"SetMaxIter {natlit(int(Fraction(v)))}", "patience": lambda v: f"SetPatience {natlit(int(Fraction(v)))}",
                   "atol": lambda v: f"SetAtol {qlit(Fraction(v))}", "rtol": lambda v: f"SetRtol {qlit(Fraction(v))}"}
            st_term = (f"apply_ops (mkStopper {natlit(int(Fraction(k0['max_iter'])))} {natlit(int(Fraction(k0['patience'])))} "
                       f"{qlit(Fraction(k0['atol']))} {qlit(Fraction(k0['rtol']))}) "
                       + lst(ops[n](v) for n, v in o["assigned"]))
        txt = HEADER + f"""
Definition st := {st_term}.
Lemma shard_ok_stop_early : nlist_eqb (pack_bits (enum_stop_early st {natlit(o['L'])})) ({pack_bits(o['se'])})%N = true.
Proof. vm_compute. reflexivity. Qed.
Lemma shard_ok_stop_now : nlist_eqb (pack_bits (enum_stop_now st {natlit(o['L'])})) ({pack_bits(o['sn'])})%N = true.
Proof. vm_compute. reflexivity. Qed.
Lemma shard_ok_which_best : nlist_eqb (pack_nibbles (enum_which_best st {natlit(o['L'])})) ({pack_nibbles(o['wb'])})%N = true.
Proof. vm_compute. reflexivity. Qed.
"""
        paths.append(ctx.new_shard(txt, f"cases_A{k:02d}" + ("_assigned" if o.get("assigned") else "")))
    return paths


def py_rule(mi, p, at, rt, i, h):
    """documented rule, read from the docstring: window = loss_history[-patience:] of the history up to i"""
    if i >= mi - 1:
        return True
    if not i > p:
        return False
    win = h[i - p + 1: i + 1]
    oldest, best = win[0], min(win)
    diff = oldest - best
    return diff <= at or (best != 0 and diff / abs(best) <= rt)


def oracle_a(a):
    for o in a["out"]:
        L = o["L"]
        mi, p, at, rt = o["cfg"]
        k = 0
        for h in o["hs"]:
            hh = [Fraction(int(x)) for x in h]
            for i in range(L):
                want = py_rule(mi, p, at, rt, i, hh)
                if bool(o["sn"][k]) != want:
                    r = {"why": f"Stopper.stop_now returns {bool(o['sn'][k])} where the documented rule says {want}",
                         "max_iter": mi, "patience": p, "atol": str(at), "rtol": str(rt), "i": i, "history": [int(x) for x in h]}
                    if o.get("assigned"):
                        r["why"] += (f" for the current attribute values (constructed with {o['constructed_kwargs']}, then assigned "
                                     + ", ".join(f"{n}={v}" for n, v in o["assigned"]) + ")")
                        r["constructed"], r["assigned"] = o["constructed_kwargs"], o["assigned"]
                    return r
                if i >= p - 1:
                    win = hh[i - p + 1: i + 1]
                    wantb = i - p + 1 + win.index(min(win))
                    if int(o["wb"][k]) != wantb:
                        r = {"why": f"which_best_in_recent_history returns {int(o['wb'][k])}, the first minimiser of the window is {wantb}",
                             "patience": p, "i": i, "history": [int(x) for x in h]}
                        if o.get("assigned"):
                            r.update({"max_iter": mi, "atol": str(at), "rtol": str(rt), "constructed": o["constructed_kwargs"], "assigned": o["assigned"]})
                        return r
                k += 1
    return None


# ---------------------------------------------------------------------------------------------
def scripted_optimizer(script):
    import jax.numpy as jnp, optax

    def init(params):
        return jnp.int32(0)

    def update(grads, state, params=None):
        upd = {k: script[state] - v for k, v in params.items()}
        return upd, state + 1

    return optax.GradientTransformation(init, update)


def build_models(ytrain, yval):
    import jax.numpy as jnp
    import liesel.model as lsl
    import tensorflow_probability.substrates.jax.distributions as tfd

    def mk(y):
        x = lsl.param(jnp.float32(0.0), name="x")
        yv = lsl.obs(jnp.asarray(y, dtype=jnp.float32), lsl.Dist(tfd.Normal, loc=x, scale=jnp.float32(1.0)), name="y")
        return lsl.GraphBuilder().add(yv).build_model()

    return mk(ytrain), mk(yval)


def run_b(mi, p, at, rt, prune, pos, validation=True, restore=True):
    """one optim_flat run with a scripted optimizer; returns the observation dict judged by oracle_b"""
    import jax, jax.numpy as jnp, numpy as np
    from liesel.goose.optim import Stopper, optim_flat
    ytr = [0.0, 0.5, -0.5, 1.0]
    yva = [0.25, -0.25, 0.0]
    mtr, mva = build_models(ytr, yva)
    st = Stopper(max_iter=mi, patience=p, atol=float(at), rtol=float(rt))
    script = jnp.asarray([float(x) for x in pos], dtype=jnp.float32)
    res = optim_flat(mtr, ["x"], optimizer=scripted_optimizer(script), stopper=st,
                     model_validation=mva if validation else None, restore_best_position=restore,
                     prune_history=prune, progress_bar=False)
    lv = np.asarray(res.history["loss_validation"], dtype=np.float64)
    lt = np.asarray(res.history["loss_train"], dtype=np.float64)
    ph = np.asarray(res.history["position"]["x"], dtype=np.float64)
    it, ib = int(res.iteration), int(res.iteration_best)
    # consistency of the returned model state with the returned position (direct assignment oracle)
    xs = float(res.position["x"])
    m2, _ = build_models(ytr, yva)
    m2.vars["x"].value = jnp.float32(xs)
    m2.update()
    lp_direct = float(m2.log_prob)
    lp_state = float(res.model_state["_model_log_prob"].value)
    x_state = float(res.model_state["x_value"].value) if "x_value" in res.model_state else float(res.model_state[mtr.vars["x"].value_node.name].value)
    return {"part": "B", "max_iter": mi, "patience": p, "atol": at, "rtol": rt, "prune": prune,
            "validation": validation, "restore": restore,
            "script": [str(x) for x in pos], "loss_val": [None if math.isnan(v) else Fraction(v) for v in lv],
            "loss_train_nan": [bool(math.isnan(v)) for v in lt],
            "pos_hist": [None if math.isnan(v) else Fraction(v) for v in ph],
            "iteration": it, "ibest": ib, "position": Fraction(xs),
            "lp_direct": lp_direct, "lp_state": lp_state, "x_state": x_state, "stopper_patience_after": int(st.patience)}


def part_b(ctx, rnd):
    import jax, jax.numpy as jnp, numpy as np
    from liesel.goose.optim import Stopper, optim_flat

    logging.getLogger("liesel").setLevel(logging.ERROR)
    n = 8 if ctx.quick else 60
    cases = []
    for ci in range(n):
        mi = rnd.choice([6, 8, 10, 12])
        p = rnd.choice([1, 2, 3, 4]) if ci % 4 else mi           # stratum: patience == max_iter
        p = min(p, mi)
        at = rnd.choice([Fraction(0), Fraction(1, 4), Fraction(1)])
        rt = rnd.choice([Fraction(0), Fraction(0), Fraction(1, 8)])
        prune = rnd.random() < 0.5
        # scripted positions: descending then plateau / rebound, exact repeats give exact ties
        pos, cur = [], Fraction(rnd.randint(8, 24), 4)
        mode = rnd.choice(["plateau", "rebound", "descend", "zigzag"])
        for k in range(mi + 2):
            if mode == "descend" or k < rnd.randint(2, 5):
                cur = cur - Fraction(rnd.randint(1, 4), 4)
            elif mode == "rebound":
                cur = cur + Fraction(rnd.randint(0, 2), 4)
            elif mode == "zigzag":
                cur = cur + Fraction(rnd.choice([-1, 1, 0]), 2)
            pos.append(cur)
        # strata: no validation model (loop patience := max_iter, user's patience restored for the best
        # lookup) and restore_best_position=False, each forced at least twice per run
        validation = not (ci % 4 == 1 or (ci >= 4 and rnd.random() < 0.25))
        restore = not (ci % 4 == 2 or (ci >= 4 and rnd.random() < 0.25))
        if not validation:
            p = rnd.choice([1, 2, 3])      # a window strictly inside the run, so the argmin window matters
            mode_note = "no_validation"
        cases.append(run_b(mi, p, at, rt, prune, pos, validation, restore))
    ctx.count(len(cases), len({(c["max_iter"], c["patience"], tuple(c["script"])) for c in cases}))
    ctx.hist("B.optim_flat_runs", len(cases))
    ctx.hist("B.early_stopped", sum(1 for c in cases if c["iteration"] < c["max_iter"] - 1))
    ctx.hist("B.pruned", sum(1 for c in cases if c["prune"]))
    ctx.hist("B.no_validation_model", sum(1 for c in cases if not c["validation"]))
    ctx.hist("B.restore_best_position_false", sum(1 for c in cases if not c["restore"]))
    ctx.sample({k: (str(v) if not isinstance(v, (int, bool, list)) else v) for k, v in cases[0].items() if k not in ("loss_train_nan",)} | {"loss_val": [str(x) for x in cases[0]["loss_val"]], "pos_hist": [str(x) for x in cases[0]["pos_hist"]]})
    return cases


def borderline(c):
    """float rounding could flip a comparison of the exact-rational model: skip such cases (counted)"""
    lv = [x for x in c["loss_val"] if x is not None]
    p, at, rt = c["patience"], c["atol"], c["rtol"]
    if not c.get("validation", True):
        return False
    for i in range(len(lv)):
        if i > p:
            win = lv[i - p + 1:i + 1]
            d = win[0] - min(win)
            for a, b in ((d, at), (d / abs(min(win)) if min(win) != 0 else None, rt)):
                if a is not None and a != b and abs(a - b) < Fraction(1, 10 ** 5) * max(1, abs(b)):
                    return True
    return False


def emit_b(ctx, cases):
    rows = []
    for c in cases:
        if borderline(c):
            ctx.hist("B.skipped_borderline_rounding")
            continue
        lv = c["loss_val"]
        known = [x for x in lv if x is not None]
        ph = [x for x in c["pos_hist"] if x is not None]
        rows.append("(mkOC (mkStopper {mi} {p} {at} {rt}) {hv} {rs} {prune} {losses} {it} {ib} {hl} {nn} {ph} {pos})".format(
            mi=natlit(c["max_iter"]), p=natlit(c["patience"]), at=qlit(c["atol"]), rt=qlit(c["rtol"]),
            hv=blit(c["validation"]), rs=blit(c["restore"]),
            prune=blit(c["prune"]), losses=lst(qlit(x) for x in known), it=natlit(c["iteration"]), ib=zlit(c["ibest"]),
            hl=natlit(len(lv)), nn=natlit(sum(1 for x in lv if x is None)),
            ph=lst(qlit(x) for x in ph), pos=qlit(c["position"])))
    txt = HEADER + f"""
Definition cases : list ocase := {lst(rows)}.
Lemma shard_ok : forallb agrees_o cases = true.
Proof. vm_compute. reflexivity. Qed.
"""
    return ctx.new_shard(txt, "cases_B")


def oracle_b(c):
    lv = c["loss_val"]
    known = [x for x in lv if x is not None]
    mi, p, at, rt, it, ib = c["max_iter"], c["patience"], c["atol"], c["rtol"], c["iteration"], c["ibest"]
    if borderline(c):
        return None
    # without a validation model the loop runs with patience = max_iter: only the iteration limit stops it
    lp = p if c.get("validation", True) else mi
    first = next((i for i in range(len(known)) if py_rule(mi, lp, at, rt, i, known)), None)
    if first != it:
        return {"why": f"optim_flat stopped at iteration {it}; the documented rule first fires at {first}", "case": _js(c)}
    lo = it - p + 1
    if lo < 0:
        return None
    win = known[lo:it + 1]
    if ib != lo + win.index(min(win)):
        return {"why": f"iteration_best={ib} is not the first minimiser of the validation loss in the final patience window", "case": _js(c)}
    if c.get("restore", True):
        if c["pos_hist"][ib] != c["position"]:
            return {"why": "returned position is not the recorded position at iteration_best", "case": _js(c)}
    elif c["pos_hist"][it] != c["position"]:
        return {"why": "restore_best_position=False: returned position is not the position of the last iteration", "case": _js(c)}
    want_len = it + 1 if c["prune"] else mi
    if len(lv) != want_len or any(x is None for x in lv[:it + 1]) or any(x is not None for x in lv[it + 1:]) \
            or c["loss_train_nan"] != [x is None for x in lv] or [x is None for x in c["pos_hist"]] != [x is None for x in lv]:
        return {"why": "history length / NaN padding differs from the documentation", "case": _js(c)}
    if abs(c["lp_direct"] - c["lp_state"]) > 1e-4 * max(1, abs(c["lp_direct"])) or abs(c["x_state"] - float(c["position"])) > 0:
        return {"why": "returned model state is not consistent with the returned position", "case": _js(c)}
    if c["stopper_patience_after"] != p:
        return {"why": "optim_flat changed the caller's Stopper", "case": _js(c)}
    return None


def _js(c):
    return {k: (str(v) if isinstance(v, Fraction) else ([str(x) for x in v] if isinstance(v, list) else v)) for k, v in c.items()}


# ---------------------------------------------------------------------------------------------
def run_c(n, bs, iters, seed):
    """one mini-batch optim_flat run with the batch generator wrapped to log (key, batches) per iteration"""
    import jax, jax.numpy as jnp, numpy as np
    import liesel.goose.optim as opt
    import liesel.model as lsl
    import tensorflow_probability.substrates.jax.distributions as tfd
    log = []
    orig = opt._generate_batch_indices

    def spy(key, n, batch_size):
        out = orig(key, n, batch_size)
        jax.debug.callback(lambda k, o: log.append((np.asarray(jax.random.key_data(k) if hasattr(k, "dtype") and str(k.dtype).startswith("key") else k).tolist(), np.asarray(o).tolist())), key, out)
        return out

    xs = jnp.linspace(-1.0, 1.0, n)
    b = lsl.param(jnp.float32(0.0), name="b")
    xv = lsl.obs(xs, name="xobs")
    mu = lsl.Var(lsl.Calc(lambda x, b: x * b, xv, b), name="mu")
    y = lsl.obs(2.0 * xs + 0.1, lsl.Dist(tfd.Normal, loc=mu, scale=jnp.float32(1.0)), name="y")
    model = lsl.GraphBuilder().add(y).build_model()
    with mock.patch.object(opt, "_generate_batch_indices", spy):
        res = opt.optim_flat(model, ["b"], stopper=opt.Stopper(max_iter=iters + 1, patience=iters + 1),
                             batch_size=bs, batch_seed=seed, progress_bar=False)
    jax.effects_barrier()
    # model keys along the path  root ++ 0^j ++ [1]
    root = jax.random.PRNGKey(seed)
    want, k = [], root
    for j in range(len(log)):
        nk, sub = jax.random.split(k)
        want.append(np.asarray(sub).tolist())
        k = nk
    stale = [np.asarray(jax.random.split(root)[1]).tolist()] * len(log)
    used = sorted({i for (_, bt) in log for row in bt for i in row})
    return ({"part": "C", "n": n, "batch_size": bs, "seed": seed, "iterations": len(log),
                  "keys": [k for k, _ in log], "batches": [b_ for _, b_ in log], "want_keys": want, "stale_keys": stale,
                  "observations_used": used})


def part_c(ctx, rnd):
    import jax, jax.numpy as jnp, numpy as np
    import liesel.goose.optim as opt
    import liesel.model as lsl
    import tensorflow_probability.substrates.jax.distributions as tfd

    cases = []
    cfgs = [(7, 3, 4), (10, 4, 5)] if ctx.quick else [(7, 3, 6), (10, 4, 6), (11, 5, 5), (9, 2, 5), (13, 6, 4)]
    for (n, bs, iters) in cfgs:
        cases.append(run_c(n, bs, iters, rnd.randint(1, 999)))
    ctx.count(len(cases), len(cases))
    ctx.hist("C.minibatch_runs", len(cases))
    ctx.hist("C.iterations_logged", sum(c["iterations"] for c in cases))
    ctx.sample({k: cases[0][k] for k in ("n", "batch_size", "seed", "iterations", "batches", "observations_used")})
    return cases


def emit_c(ctx, cases):
    # key identity is established concretely by the harness (exact uint32 equality against jax.random.split along
    # the model path); Coq certifies that the observed pattern is the Advance one: pairwise distinct keys
    rows = []
    for c in cases:
        # index of each observed key in the list of model keys (Advance) / code 999 if absent
        idx = [c["want_keys"].index(k) if k in c["want_keys"] else 999 for k in c["keys"]]
        rows.append(lst(natlit(i) for i in idx))
    # which variant of the key discipline does the tree implement?  (Advance = property holds;
    # Stale = C20_stale_key_refuted applies, reported by oracle_c as the known finding F7)
    stale = all(c["keys"] == c["stale_keys"] and c["iterations"] > 1 for c in cases)
    ctx.cov["batch_key_variant"] = "Stale" if stale else "Advance"
    pred = "agrees_keys_stale" if stale else "agrees_keys"
    txt = HEADER + f"""
Definition cases : list (list nat) := {lst(rows)}.
Lemma shard_ok : forallb {pred} cases = true.
Proof. vm_compute. reflexivity. Qed.
"""
    return ctx.new_shard(txt, "cases_C")


def oracle_c(c):
    if c["keys"] == c["stale_keys"] and c["iterations"] > 1:
        unused = sorted(set(range(c["n"])) - set(c["observations_used"]))
        return {"why": "mini-batches are not re-drawn: every iteration uses the same key and the same batches"
                       + (f"; observations {unused} never influence the fit" if unused else ""),
                "klass": "F7-stale-batch-key", "n": c["n"], "batch_size": c["batch_size"], "seed": c["seed"], "batches": c["batches"][:3]}
    if len({str(k) for k in c["keys"]}) != len(c["keys"]):
        return {"why": "two iterations drew their batches with the same key", "n": c["n"], "batch_size": c["batch_size"], "seed": c["seed"]}
    if any(c["batches"][j] == c["batches"][j + 1] for j in range(len(c["batches"]) - 1)) and c["n"] > 4:
        return {"why": "consecutive iterations use identical batches", "n": c["n"], "batch_size": c["batch_size"], "seed": c["seed"]}
    for bt in c["batches"]:
        flat = [i for row in bt for i in row]
        if len(set(flat)) != len(flat) or any(len(row) != c["batch_size"] for row in bt) or len(bt) != c["n"] // c["batch_size"]:
            return {"why": "batches are not disjoint full batches", "batches": bt}
    return None


# ---------------------------------------------------------------------------------------------
def run(ctx) -> int:
    rnd = random.Random(ctx.seed)
    built = ctx.coq_build()
    thm_ok = built and ctx.check_property_file()
    if not built:
        ctx.broken.append("coq build (make) failed")
    forb = ctx.forbidden_scan()
    if forb:
        ctx.broken.append("forbidden constructs: " + "; ".join(forb[:5]))
    a = part_a(ctx)
    b = part_b(ctx, rnd)
    c = part_c(ctx, rnd)
    d = c20_pos.part_d(ctx, rnd)
    e = c20_pos.part_e(ctx, rnd, c)
    fails = []
    r = oracle_a(a)
    if r:
        fails.append(r)
    for x in b:
        r = oracle_b(x)
        if r:
            fails.append(r)
    for x in c:
        r = oracle_c(x)
        if r:
            fails.append(r)
    for x in d:
        r = c20_pos.oracle_d(x)
        if r:
            fails.append(r)
    for x in e:
        r = c20_pos.oracle_e(x)
        if r:
            fails.append(r)
    disagree = []
    if built:
        paths = emit_a(ctx, a) + [emit_b(ctx, b), emit_c(ctx, c), c20_pos.emit_d(ctx, d, HEADER), c20_pos.emit_e(ctx, e, HEADER)]
        res = ctx.compile_shards(paths)
        for p, (ok, out) in res.items():
            if not ok:
                common.log(f"shard {p} failed:\n{out[-800:]}")
                disagree.append(p.split("/")[-1])
                if p.endswith("cases_D.v"):
                    common.log("part D clauses (0 = agrees, 1 error kind, 2 iteration, 3 best, 4 position by name, "
                               "5 position history, 6 loss history): " + c20_pos.diagnose_d(ctx, d, HEADER))
        if disagree:
            ctx.broken.append("correspondence lemma shard_ok in " + ", ".join(sorted(disagree)))
        # second tie between model and code: the source of the Stopper methods and of _generate_batch_indices is
        # translated to Gallina now and proved equal to the model (c20_tie.py).  A broken source tie alone is no
        # alarm (a refactoring may leave the translated subset); it is named beside a behavioural disagreement.
        try:
            tie = c20_tie.run(ctx, common.REPO)
        except Exception as ex:      # optional evidence: never turns into an alarm by itself
            tie = {"translated": [], "lemmas_ok": False, "lemmas": [], "not_tied": {"all": f"{type(ex).__name__}: {ex}"},
                   "detail": "SOURCE TIE BROKEN: the tie step aborted; the verdict rests on the behavioural correspondence"}
        ctx.cov["source_tie"] = tie
        for sec in sorted(tie["not_tied"]):
            ctx.hist("T.source_tie_broken." + sec)
        ctx.hist("T.source_tie_lemmas", len(tie["lemmas"]))
        if not tie["lemmas_ok"] and (disagree or [f for f in fails if not f.get("klass")]):
            ctx.broken.append("source tie (py2gallina_c20): " + "; ".join(f"{k}: {v}" for k, v in sorted(tie["not_tied"].items()))[:600])
    else:
        ctx.cov["source_tie"] = {"translated": [], "lemmas_ok": False, "detail": "not attempted: the Coq build failed"}
    ctx.extra_tb = getattr(ctx, "extra_tb", []) + [
        "source tie (advisory): tools/py2gallina_c20.py (Python ast -> Gallina for Stopper.stop_early / stop_now / "
        "which_best_in_recent_history and _generate_batch_indices; fails closed outside its subset), its library-call table "
        "(lax.dynamic_slice -> the model's clamped dyn_slice, jnp.min / argmin / w[0] -> qmin_list / argmin / hd, float scalars as "
        "exact rationals + inf / NaN, jax.random.permutation as an oracle argument, jnp.array_split by numpy's rule), Python / jax "
        "ints as unbounded Z; result of this run in coverage.source_tie"]
    ctx.cov["rule"] = ("A: every loss history of the stated length over {0,1,2,3} x every i x 38 stopper configurations, and every "
                       "history of length 5 over the negative losses {-3,-2,-1,0} x every i x 2 configurations with rtol > 0, and 9 configurations "
                       "whose attributes (max_iter / patience / atol / rtol, each) are assigned on the instance after construction "
                       "(exhaustive; distinct = histories on which stop_early fires, all distinct); B: optim_flat runs with "
                       "scripted positions (distinct scripts); C: mini-batch runs with captured keys; D: optim_flat runs with 2-3 named "
                       "parameters handed over in non-alphabetical order (distinct name lists x scripts); E: batch index calls "
                       "(distinct (n, batch_size, permutation))")
    ctx.tested_not_proved.append("B, D: returned model state equals direct assignment of the returned position (float tolerance 1e-4; "
                                 "extract_position of the returned state equals the returned position exactly)")
    ctx.tested_not_proved.append("D: jax rebuilds dicts that pass through tree.map / while_loop with sorted keys (model: pytree); "
                                 "the scripted optimizer produces the prescribed positions")
    ctx.tested_not_proved.append("D: history['loss_validation'] / history['loss_train'] equal an independent evaluation (fresh models, direct "
                                 "assignment, eager) of the validation / training model at the recorded positions (tolerance 1e-4), also with a "
                                 "validation model of the same size as the training model; iteration_best minimises that independent validation loss "
                                 "in the final window; the Coq model takes the observed validation losses as its loss stream")
    ctx.tested_not_proved.append("E: jax.random.permutation(key, n) is a permutation of 0..n-1 (hypothesis of C20_batches_partition, "
                                 "checked on every drawn permutation)")
    ctx.assume.append("C20_position_restored: parameter names distinct, 1 <= patience <= max_iter, restore_best_position only with save_position_history")
    seen = set()
    for f in fails:
        if f["why"][:60] in seen or len(seen) >= 3:
            continue
        seen.add(f["why"][:60])
        ctx.violation(f["why"], f, True, f.get("klass"))
    # a broken lemma / shard must be reported even when the only direct-oracle failure is the known finding
    if (disagree or not thm_ok or forb) and not [f for f in fails if not f.get("klass")]:
        ctx.violation("; ".join(ctx.broken), {"broken": ctx.broken}, False, None)
    return ctx.finish()


def replay(rp) -> int:
    """re-run the recorded failing input on the real code and judge it with the direct oracle"""
    import jax, jax.numpy as jnp, numpy as np
    from liesel.goose.optim import Stopper
    logging.getLogger("liesel").setLevel(logging.ERROR)
    r = rp.get("replay", rp)
    verdict = None
    if "history" in r:                      # part A: one Stopper call
        h = [int(x) for x in r["history"]]
        p, i = int(r["patience"]), int(r["i"])
        mi = int(r.get("max_iter", len(h)))
        at, rt = Fraction(r.get("atol", 0)), Fraction(r.get("rtol", 0))
        if r.get("assigned"):           # the recorded construction, then the recorded assignments
            k0 = r["constructed"]
            st = Stopper(**{k: (int(Fraction(v)) if k in ("max_iter", "patience") else float(Fraction(v))) for k, v in k0.items()})
            for name, v in r["assigned"]:
                setattr(st, name, int(Fraction(v)) if name in ("max_iter", "patience") else float(Fraction(v)))
        else:
            st = Stopper(max_iter=mi, patience=p, atol=float(at), rtol=float(rt))
        H = jnp.asarray(h, dtype=jnp.float32)
        sn = bool(st.stop_now(jnp.int32(i), H))
        wb = int(st.which_best_in_recent_history(jnp.int32(i), H))
        hh = [Fraction(x) for x in h]
        want = py_rule(mi, p, at, rt, i, hh)
        if sn != want:
            verdict = {"why": f"Stopper.stop_now returns {sn} where the documented rule says {want}"}
        elif i >= p - 1:
            win = hh[i - p + 1: i + 1]
            wantb = i - p + 1 + win.index(min(win))
            if wb != wantb:
                verdict = {"why": f"which_best_in_recent_history returns {wb}, the first minimiser of the window is {wantb}"}
    elif "case" in r and r["case"].get("part") == "B":
        c = r["case"]
        obs = run_b(int(c["max_iter"]), int(c["patience"]), Fraction(c["atol"]), Fraction(c["rtol"]), bool(c["prune"]),
                    [Fraction(x) for x in c["script"]], bool(c.get("validation", True)), bool(c.get("restore", True)))
        verdict = oracle_b(obs)
    elif "case" in r and r["case"].get("part") == "D":
        verdict = c20_pos.replay_d(r["case"])
    elif r.get("part") == "E":
        verdict = c20_pos.replay_e(r)
    elif "n" in r and "batch_size" in r:
        obs = run_c(int(r["n"]), int(r["batch_size"]), int(r.get("iterations", 5)), int(r["seed"]))
        verdict = oracle_c(obs)
    else:
        print("replay file names no concrete input (broken lemma only):", r.get("broken"))
        return 0
    if verdict:
        print("REPLAY FAILS:", verdict["why"])
        return 1
    print("replay passes on the current tree")
    return 0
