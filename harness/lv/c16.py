"""C16 - epoch schedules accepted iff valid; Stan warmup adds up; chunk length divides durations.

Correspondence (flavour D):
  A. exhaustive: every sequence of length <= L over the alphabet types x durations x thinnings is fed
     to the real EpochManager; the set of accepted sequences and the EpochStates handed out by next()
     are compared with the model (which enumerates the same space inside Coq).
  B. random interleavings of append / next / has_more on one manager vs the mgr state machine.
  C. stan_epochs on a border grid + random arguments vs the model; EpochManager on its output;
     EngineBuilder's jit chunk length (captured from the Engine constructor) vs chunk_len.
"""
from __future__ import annotations

import itertools
import logging
import math
import random
from unittest import mock

from . import common
from .common import zlit, lst, blit, natlit

HEADER = """From Coq Require Import List ZArith Bool.
Import ListNotations.
From LV Require Import Goose.Epoch Goose.EpochProofs Goose.Warmup Goose.CorrC16.
Open Scope Z_scope.
"""


def _imports():
    from liesel.goose.epoch import EpochConfig, EpochManager, EpochType
    from liesel.goose.warmup import stan_epochs
    return EpochConfig, EpochManager, EpochType, stan_epochs


def cfg_lit(t, d, th):
    return f"(mkE (ety_of_code {zlit(t)}) {zlit(d)} {zlit(th)})"


# ---------------------------------------------------------------------------------------------
def part_a(ctx):
    EpochConfig, EpochManager, EpochType, _ = _imports()
    if ctx.quick:
        durs, thins, L = [0, 1, 2, 4], [0, 1, 2, 3], 3
    else:
        durs, thins, L = [0, 1, 2, 3], [0, 1, 2], 4
    alpha = [(t, d, th) for t in range(5) for d in durs for th in thins]
    objs = [EpochConfig(EpochType(t), d, th, None) for (t, d, th) in alpha]
    accepted = []
    total = 0
    rng = range(len(alpha))
    for n in range(0, L + 1):
        for seq in itertools.product(rng, repeat=n):
            total += 1
            try:
                m = EpochManager([objs[i] for i in seq])
            except RuntimeError:
                continue
            states = []
            while m.has_more():
                s = m.next()
                states.append((int(s.nth_epoch), int(s.time_before_epoch), int(s.time), int(s.time_in_epoch),
                               int(s.config.type), int(s.config.duration), int(s.config.thinning)))
            accepted.append((seq, states))
    ctx.count(total, len(accepted))
    ctx.hist("A.sequences_enumerated", total)
    ctx.hist("A.accepted", len(accepted))
    ctx.cov["exhaustive"] = True
    ctx.sample({"part": "A", "alphabet": {"types": 5, "durations": durs, "thinnings": thins, "max_len": L},
                "accepted_example": [alpha[i] for i in accepted[-1][0]] if accepted else None})
    return {"part": "A", "durs": durs, "thins": thins, "L": L, "alpha": alpha, "accepted": accepted, "total": total}


def emit_a(ctx, a):
    # observed: list of (letter indices, [(nth, t_before)]) in lexicographic enumeration order per length
    obs = lst(
        "(" + lst(natlit(i) for i in seq) + ", " + lst(f"({natlit(s[0])}, {zlit(s[1])})" for s in states) + ")"
        for seq, states in a["accepted"])
    alpha = lst(cfg_lit(*x) for x in a["alpha"])
    txt = HEADER + f"""
Definition alphabet : list econf := {alpha}.
Definition observed : list (list nat * list (nat * Z)) := {obs}.
Lemma shard_ok : model_accepted alphabet {natlit(a['L'])} = observed.
Proof. vm_compute. reflexivity. Qed.
"""
    return ctx.new_shard(txt, "cases_A")


def oracle_a(a):
    """property text directly on the implementation's behaviour"""
    alpha = a["alpha"]

    def valid(seq):
        cs = [alpha[i] for i in seq]
        if not cs:
            return True
        if cs[0][0] != 0 or cs[0][1] != 1:
            return False
        seen_post = False
        for k, (t, d, th) in enumerate(cs):
            if k > 0 and t == 0:
                return False
            if d < 1 or th < 1 or th > d:
                return False
            if t == 4 and d % th != 0:
                return False
            if seen_post and t in (1, 2, 3):
                return False
            if t == 4:
                seen_post = True
        return True

    acc = {seq for seq, _ in a["accepted"]}
    rng = range(len(alpha))
    for n in range(0, a["L"] + 1):
        for seq in itertools.product(rng, repeat=n):
            v = valid(seq)
            if v != (seq in acc):
                return {"why": f"EpochManager {'accepts' if seq in acc else 'rejects'} a schedule that is "
                               f"{'valid' if v else 'invalid'}", "schedule": [alpha[i] for i in seq]}
    for seq, states in a["accepted"]:
        tb = 0
        for k, s in enumerate(states):
            if s[0] != k or s[1] != tb or s[2] != tb or s[3] != 0 or tuple(s[4:]) != tuple(alpha[seq[k]]):
                return {"why": "next() hands out a wrong EpochState", "schedule": [alpha[i] for i in seq],
                        "states": states}
            tb += alpha[seq[k]][1]
        if len(states) != len(seq):
            return {"why": "next() hands out a wrong number of states", "schedule": [alpha[i] for i in seq]}
    return None


# ---------------------------------------------------------------------------------------------
def rand_valid_cfg(rnd, after_post):
    t = 4 if after_post else rnd.choice([1, 1, 2, 2, 3, 4])
    d = rnd.choice([1, 2, 3, 4, 6, 8, 12])
    ths = [x for x in range(1, d + 1) if (t != 4 or d % x == 0)]
    return (t, d, rnd.choice(ths))


def part_b(ctx, rnd):
    EpochConfig, EpochManager, EpochType, _ = _imports()
    n = 150 if ctx.quick else 1500
    cases = []
    for _ in range(n):
        m = EpochManager(None)
        ops, outs = [], []
        have, post = False, False
        for _ in range(rnd.randint(1, 14)):
            r = rnd.random()
            if r < 0.5:
                if rnd.random() < 0.8:   # mostly valid next config
                    c = (0, 1, 1) if not have else rand_valid_cfg(rnd, post)
                else:
                    c = (rnd.randint(0, 4), rnd.randint(0, 4), rnd.randint(0, 3))
                try:
                    m.append(EpochConfig(EpochType(c[0]), c[1], c[2], None))
                    ok = True
                    have = True
                    post = post or c[0] == 4
                except RuntimeError:
                    ok = False
                ops.append(("A", c))
                outs.append(("A", ok))
            elif r < 0.85:
                try:
                    s = m.next()
                    o = (int(s.nth_epoch), int(s.time_before_epoch), int(s.config.type), int(s.config.duration),
                         int(s.config.thinning), int(s.time), int(s.time_in_epoch))
                except RuntimeError:
                    o = None
                ops.append(("N", None))
                outs.append(("N", o))
            else:
                ops.append(("H", None))
                outs.append(("H", bool(m.has_more())))
        cases.append({"part": "B", "ops": ops, "outs": outs})
    ctx.count(len(cases), len({str(c["ops"]) for c in cases}))
    ctx.hist("B.op_sequences", len(cases))
    ctx.hist("B.ops", sum(len(c["ops"]) for c in cases))
    ctx.hist("B.rejected_appends", sum(1 for c in cases for o in c["outs"] if o == ("A", False)))
    ctx.hist("B.next_on_empty", sum(1 for c in cases for o in c["outs"] if o == ("N", None)))
    ctx.sample(cases[0])
    return cases


def emit_b(ctx, cases):
    def op(o):
        k, c = o
        return f"(OpAppend {cfg_lit(*c)})" if k == "A" else ("OpNext" if k == "N" else "OpHasMore")

    def out(o):
        k, v = o
        if k == "A":
            return f"(OutAppend {blit(v)})"
        if k == "H":
            return f"(OutHasMore {blit(v)})"
        if v is None:
            return "(OutNext None)"
        return f"(OutNext (Some ({natlit(v[0])}, {zlit(v[1])}, {cfg_lit(v[2], v[3], v[4])})))"

    body = lst("(" + lst(op(o) for o in c["ops"]) + ", " + lst(out(o) for o in c["outs"]) + ")" for c in cases)
    txt = HEADER + f"""
Definition cases : list (list mop * list mout) := {body}.
Lemma shard_ok : forallb agrees_b cases = true.
Proof. vm_compute. reflexivity. Qed.
"""
    return ctx.new_shard(txt, "cases_B")


def oracle_b(c):
    # direct: replay with a trivially simple reference (list + pointer)
    cfgs, ptr, start = [], 0, 0
    for (k, arg), (_, o) in zip(c["ops"], c["outs"]):
        if k == "A":
            t, d, th = arg
            ok = True
            if not cfgs:
                ok = t == 0 and d == 1
            else:
                ok = t != 0 and not (cfgs[-1][0] == 4 and t in (1, 2, 3))
            ok = ok and d >= 1 and 1 <= th <= d and (t != 4 or d % th == 0)
            if ok != o:
                return {"why": "append accepted/rejected against the validity rule", "ops": c["ops"]}
            if ok:
                cfgs.append(arg)
        elif k == "N":
            if ptr < len(cfgs):
                exp = (ptr, start) + tuple(cfgs[ptr]) + (start, 0)
                start += cfgs[ptr][1]
                ptr += 1
            else:
                exp = None
            if exp != o:
                return {"why": "next() returned a wrong state", "ops": c["ops"], "got": o, "expected": exp}
        else:
            if (ptr < len(cfgs)) != o:
                return {"why": "has_more wrong", "ops": c["ops"]}
    return None


# ---------------------------------------------------------------------------------------------
def stan_args(ctx, rnd):
    args = []
    # borders
    for w in [19, 20, 21, 25, 30, 60, 150, 151, 1000]:
        for (i, t, b) in [(75, 50, 25), (1, 1, 1), (5, 5, 10), (w // 3, w // 3, max(1, w - 2 * (w // 3))),
                          (w - 2, 1, 1), (1, w - 2, 1), (1, 1, w - 2), (1, 1, w - 1), (7, 3, 2)]:
            if b >= 1:
                args.append((w, 10, i, t, b, 1, 1))
    # 3*b == left borders
    for b in [1, 2, 3, 5, 8, 25]:
        for k in [0, 1, 2]:
            left = 3 * b + k - 1
            i, t = 4, 3
            args.append((left + i + t, 12, i, t, b, 2, 1))
    # warmup thinnings that do not divide the default 75 / 25 / 50 windows
    for thw in [2, 3, 4, 6, 7, 8, 9, 10, 11, 12, 13, 24, 25]:
        args.append((1000, 1000, 75, 50, 25, 1, thw))
        args.append((200 + thw, 30, 30 + thw, 26, 25, 3, thw))
    n = 300 if ctx.quick else 4000
    for _ in range(n):
        w = rnd.choice([rnd.randint(15, 60), rnd.randint(20, 400), rnd.randint(100, 5000)])
        i = rnd.randint(0, max(1, w // 2))
        t = rnd.randint(0, max(1, w // 3))
        b = rnd.randint(1, max(1, w // 4))
        p = rnd.choice([1, 2, 10, 100, 1000, rnd.randint(0, 50)])
        thp = rnd.choice([1, 1, 2, 5, 10, rnd.randint(0, 4)])
        thw = rnd.choice([1, 1, 1, 2, 3, rnd.randint(0, 5)])
        args.append((w, p, i, t, b, thp, thw))
    return args


class _Spy(Exception):
    pass


def builder_chunk(epochs):
    """EngineBuilder.build() with the Engine constructor replaced by a spy: returns jitted_sample_duration"""
    import liesel.goose as gs
    import liesel.goose.builder as gb
    got = {}

    def spy(**kw):
        got.update(kw)
        return None

    b = gs.EngineBuilder(seed=1, num_chains=1)
    b.set_epochs(epochs)
    b.set_model(gs.DictInterface(lambda s: 0.0))
    b.set_initial_values({"x": 0.0})
    with mock.patch.object(gb, "Engine", spy):
        b.build()
    return int(got["jitted_sample_duration"])


def builder_chunk_safe(epochs):
    try:
        return builder_chunk(epochs)
    except Exception as ex:  # a valid schedule must be buildable
        return f"error: {type(ex).__name__}: {ex}"


def part_c(ctx, rnd):
    EpochConfig, EpochManager, EpochType, stan_epochs = _imports()
    logging.getLogger("liesel").setLevel(logging.ERROR)
    cases = []
    nchunk = 0
    for a in stan_args(ctx, rnd):
        w, p, i, t, b, thp, thw = a
        try:
            eps = stan_epochs(w, p, i, t, b, thp, thw)
            res = [(int(e.type), int(e.duration), int(e.thinning)) for e in eps]
        except Exception:      # documented: ValueError; any other exception class is a rejection too
            eps, res = None, None
        acc, chunk = None, None
        if eps is not None:
            try:
                EpochManager(eps)
                acc = True
            except RuntimeError:
                acc = False
            if acc and nchunk < (40 if ctx.quick else 400):
                chunk = builder_chunk_safe(eps)
                nchunk += 1
        cases.append({"part": "C", "args": a, "res": res, "accepted": acc, "chunk": chunk})
    # chunk length on random valid schedules (not from stan_epochs)
    for _ in range(40 if ctx.quick else 400):
        cs, post = [(0, 1, 1)], False
        for _ in range(rnd.randint(1, 6)):
            c = rand_valid_cfg(rnd, post)
            c = (c[0], c[1] * rnd.choice([1, 1, 2, 3, 5]), c[2])
            if c[2] > c[1] or (c[0] == 4 and c[1] % c[2]):
                c = (c[0], c[1], 1)
            post = post or c[0] == 4
            cs.append(c)
        eps = [EpochConfig(EpochType(t), d, th, None) for (t, d, th) in cs]
        cases.append({"part": "C2", "cfgs": cs, "chunk": builder_chunk_safe(eps)})
    nc = [c for c in cases if c["part"] == "C"]
    ctx.count(len(cases), len({str(c.get("args", c.get("cfgs"))) for c in cases}))
    ctx.hist("C.stan_calls", len(nc))
    ctx.hist("C.stan_value_error", sum(1 for c in nc if c["res"] is None))
    ctx.hist("C.stan_result_rejected_by_manager", sum(1 for c in nc if c["accepted"] is False))
    ctx.hist("C.chunk_lengths_observed", sum(1 for c in cases if c.get("chunk") is not None))
    ctx.sample(nc[len(nc) // 2])
    return cases


def emit_c(ctx, cases):
    paths = []
    c1 = [c for c in cases if c["part"] == "C"]
    c2 = [c for c in cases if c["part"] == "C2"]
    for k in range(0, len(c1), 400):
        chunk = c1[k:k + 400]

        def one(c):
            a = ", ".join(zlit(x) for x in c["args"])
            res = "None" if c["res"] is None else "(Some " + lst(cfg_lit(*e) for e in c["res"]) + ")"
            acc = "None" if c["accepted"] is None else f"(Some {blit(c['accepted'])})"
            ch = "None" if c["chunk"] is None else f"(Some {zlit(c['chunk'])})"
            return f"(({a}), {res}, {acc}, {ch})"

        txt = HEADER + f"""
Definition cases : list ((Z * Z * Z * Z * Z * Z * Z) * option (list econf) * option bool * option Z) := {lst(one(c) for c in chunk)}.
Lemma shard_ok : forallb agrees_c cases = true.
Proof. vm_compute. reflexivity. Qed.
"""
        paths.append((ctx.new_shard(txt, f"cases_C{k // 400}"), chunk))
    txt = HEADER + f"""
Definition cases : list (list econf * Z) := {lst("(" + lst(cfg_lit(*e) for e in c["cfgs"]) + ", " + zlit(c["chunk"]) + ")" for c in c2 if c["chunk"] is not None)}.
Lemma shard_ok : forallb (fun c => chunk_len (fst c) =? snd c) cases = true.
Proof. vm_compute. reflexivity. Qed.
"""
    paths.append((ctx.new_shard(txt, "cases_C2"), c2))
    return paths


def oracle_c(c):
    if c.get("chunk_err"):
        return {"why": "EngineBuilder fails on a valid schedule: " + c["chunk_err"], "case": dict(c)}
    if c["part"] == "C2":
        ds = [d for (_, d, _) in c["cfgs"][1:]]
        if any(d % c["chunk"] for d in ds):
            return {"why": "JIT chunk length does not divide every epoch duration", "cfgs": c["cfgs"], "chunk": c["chunk"]}
        return None
    w, p, i, t, b, thp, thw = c["args"]
    admissible = (w >= 20 and i + t + b <= w and min(i, t, b, p) >= 1 and 1 <= thw <= min(i, t, b)
                  and thp >= 1 and p % thp == 0)
    if not admissible:
        return None
    r = c["res"]
    if r is None:
        return {"why": "stan_epochs rejects an admissible argument combination", "args": c["args"]}
    if not c["accepted"]:
        return {"why": "stan_epochs returned a schedule the epoch manager rejects", "args": c["args"], "res": r}
    warm = [e for e in r if e[0] in (1, 2, 3)]
    if sum(e[1] for e in warm) != w:
        return {"why": "warmup epochs do not sum to the requested warmup length", "args": c["args"], "res": r}
    shape_ok = (r[0] == (0, 1, 1) and r[1] == (1, i, thw) and r[-1] == (4, p, thp) and r[-2] == (1, t, thw)
                and all(e[0] == 2 and e[2] == thw for e in r[2:-2]) and len(r) >= 5)
    slows = [e[1] for e in r[2:-3]]
    shape_ok = shape_ok and all(s == b * 2 ** k for k, s in enumerate(slows))
    rest = r[-3][1]
    shape_ok = shape_ok and b <= rest < 3 * b * 2 ** len(slows)
    if not shape_ok:
        return {"why": "not the documented fast / doubling-slow / fast / posterior pattern", "args": c["args"], "res": r}
    if c["chunk"] is not None and any(e[1] % c["chunk"] for e in r[1:]):
        return {"why": "JIT chunk length does not divide every epoch duration", "args": c["args"], "chunk": c["chunk"]}
    return None


# ---------------------------------------------------------------------------------------------
def run(ctx) -> int:
    rnd = random.Random(ctx.seed)
    built = ctx.coq_build()
    thm_ok = built and ctx.check_property_file()
    if not built:
        ctx.broken.append("coq build (make) failed")
    forb = ctx.forbidden_scan()
    if forb:
        ctx.broken.append("forbidden constructs: " + "; ".join(forb[:5]))
    a = part_a(ctx)
    bcases = part_b(ctx, rnd)
    ccases = part_c(ctx, rnd)
    fails = []
    for c in ccases:   # builder errors cannot be emitted as numbers
        if isinstance(c.get("chunk"), str):
            c["chunk_err"] = c["chunk"]
            c["chunk"] = None
    r = oracle_a(a)
    if r:
        fails.append(r)
    for c in bcases:
        r = oracle_b(c)
        if r:
            fails.append(r)
    for c in ccases:
        r = oracle_c(c)
        if r:
            fails.append(r)
    disagree = []
    if built:
        pa = emit_a(ctx, a)
        pb = emit_b(ctx, bcases)
        pcs = emit_c(ctx, ccases)
        res = ctx.compile_shards([pa, pb] + [p for p, _ in pcs])
        for p, (ok, out) in res.items():
            if not ok:
                common.log(f"shard {p} failed:\n{out[-1200:]}")
                ctx.broken.append(f"correspondence lemma shard_ok in {p.split('/')[-1]}")
                disagree.append(p)
    ctx.cov["rule"] = ("A: all sequences over the stated alphabet up to max_len (exhaustive; non-trivial = accepted ones, "
                       "each distinct); B: random append/next/has_more interleavings (distinct op lists); "
                       "C: stan_epochs border grid + random arguments, distinct argument tuples; C2: random valid schedules")
    for f in fails[:3]:
        ctx.violation(f["why"], f, True, None)
    if (disagree or not thm_ok or forb) and not fails:
        ctx.violation("; ".join(ctx.broken), {"broken": ctx.broken,
                      "note": "model and implementation disagree (or a theorem no longer checks) but every sampled "
                              "input still satisfies the property as read directly on the implementation"}, False, None)
    return ctx.finish()


def _run_ops(ops):
    """re-run an append/next/has_more sequence on the real EpochManager"""
    EpochConfig, EpochManager, EpochType, _ = _imports()
    m = EpochManager(None)
    outs = []
    for k, c in ops:
        if k == "A":
            try:
                m.append(EpochConfig(EpochType(c[0]), c[1], c[2], None))
                outs.append(("A", True))
            except RuntimeError:
                outs.append(("A", False))
        elif k == "N":
            try:
                st = m.next()
                outs.append(("N", (int(st.nth_epoch), int(st.time_before_epoch), int(st.config.type),
                                   int(st.config.duration), int(st.config.thinning), int(st.time),
                                   int(st.time_in_epoch))))
            except RuntimeError:
                outs.append(("N", None))
        else:
            outs.append(("H", bool(m.has_more())))
    return outs


def replay(rp) -> int:
    """re-run the recorded failing input on the real code and judge it with the direct oracle"""
    EpochConfig, EpochManager, EpochType, stan_epochs = _imports()
    logging.getLogger("liesel").setLevel(logging.ERROR)
    r = rp.get("replay", rp)
    r = r.get("case", r)
    verdict = None
    if "schedule" in r:
        sched = [tuple(c) for c in r["schedule"]]
        ops = [("A", c) for c in sched] + [("N", None)] * len(sched)
        verdict = oracle_b({"ops": ops, "outs": _run_ops(ops)})
    elif "ops" in r:
        ops = [(k, tuple(c) if c is not None else None) for k, c in r["ops"]]
        verdict = oracle_b({"ops": ops, "outs": _run_ops(ops)})
    elif "args" in r:
        a = tuple(r["args"])
        try:
            eps = stan_epochs(*a)
            res = [(int(e.type), int(e.duration), int(e.thinning)) for e in eps]
        except ValueError:
            eps, res = None, None
        acc, chunk = None, None
        if eps is not None:
            try:
                EpochManager(eps)
                acc = True
            except RuntimeError:
                acc = False
            if acc:
                chunk = builder_chunk_safe(eps)
        c = {"part": "C", "args": a, "res": res, "accepted": acc, "chunk": chunk}
        if isinstance(chunk, str):
            c["chunk_err"], c["chunk"] = chunk, None
        verdict = oracle_c(c)
    elif "cfgs" in r:
        cs = [tuple(c) for c in r["cfgs"]]
        eps = [EpochConfig(EpochType(t), d, th, None) for (t, d, th) in cs]
        chunk = builder_chunk_safe(eps)
        c = {"part": "C2", "cfgs": cs, "chunk": chunk}
        if isinstance(chunk, str):
            c["chunk_err"], c["chunk"] = chunk, None
        verdict = oracle_c(c)
    else:
        print("replay file names no concrete input (broken lemma only):", r.get("broken"))
        return 0
    if verdict:
        print("REPLAY FAILS:", verdict["why"], {k: v for k, v in verdict.items() if k != "why"})
        return 1
    print("replay passes on the current tree")
    return 0
