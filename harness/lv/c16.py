"""C16 - epoch schedules accepted iff valid; Stan warmup adds up; chunk length divides durations.

Correspondence (flavour D):
  A. exhaustive: every sequence of length <= L over the alphabet types x durations x thinnings is fed
     to the real EpochManager; the set of accepted sequences and the EpochStates handed out by next()
     are compared with the model (which enumerates the same space inside Coq).
  B. random interleavings of append / next / has_more on one manager vs the mgr state machine.
  C. stan_epochs on a border grid + random arguments vs the model; EpochManager on its output;
     EngineBuilder's jit chunk length (captured from the Engine constructor) vs chunk_len.  Every call is
     followed by an in-place edit of the returned list / EpochConfig objects and a second call with
     identical arguments, which must again return the model's value (pure function of its arguments).
  D. EngineBuilder.set_epochs / set_duration + build(): the schedule the builder holds and the chunk
     length it hands to the Engine vs builder_set_epochs / builder_set_duration; strata with large
     common divisors (1001, 1125, 1500, 2250, 3006, 4096, 5000, ...), mixed epoch types, invalid schedules.
  G. ONE EngineBuilder driven by a script set_epochs / set_duration / build / set_... / build: every build must hand
     the Engine the schedule set last and the gcd chunk of THAT schedule (model: brun); real engines of one
     re-used builder sample their schedules to the end (part F histories).
  E. EpochState: to_state / advance_time / time_left vs the model.
  F. a few real engines (RWKernel) built from large-gcd schedules sample all epochs; number of
     posterior draws vs the model's chunk loop.
"""
from __future__ import annotations

import inspect
import itertools
import logging
import math
import random
from unittest import mock

from . import common, c16_tie
from .common import zlit, lst, blit, natlit

HEADER = """From Coq Require Import List ZArith Bool.
Import ListNotations.
From LV Require Import Goose.Epoch Goose.EpochProofs Goose.Warmup Goose.EpochBuilder Goose.CorrC16.
Open Scope Z_scope.
"""


def _imports():
    from liesel.goose.epoch import EpochConfig, EpochManager, EpochType
    from liesel.goose.warmup import stan_epochs
    return EpochConfig, EpochManager, EpochType, stan_epochs


def cfg_lit(t, d, th):
    return f"(mkE (ety_of_code {zlit(t)}) {zlit(d)} {zlit(th)})"


# ---------------------------------------------------------------------------------------------
def part_a(ctx):
    EpochConfig, EpochManager, EpochType, _ = _imports()
    if ctx.quick:
        durs, thins, L = [0, 1, 2, 4], [0, 1, 2, 3], 3
    else:
        durs, thins, L = [0, 1, 2, 3], [0, 1, 2], 4
    alpha = [(t, d, th) for t in range(5) for d in durs for th in thins]
    objs = [EpochConfig(EpochType(t), d, th, None) for (t, d, th) in alpha]
    accepted = []
    total = 0
    rng = range(len(alpha))
    for n in range(0, L + 1):
        for seq in itertools.product(rng, repeat=n):
            total += 1
            try:
                m = EpochManager([objs[i] for i in seq])
            except RuntimeError:
                continue
            states = []
            while m.has_more():
                s = m.next()
                states.append((int(s.nth_epoch), int(s.time_before_epoch), int(s.time), int(s.time_in_epoch),
                               int(s.config.type), int(s.config.duration), int(s.config.thinning)))
            accepted.append((seq, states))
    ctx.count(total, len(accepted))
    ctx.hist("A.sequences_enumerated", total)
    ctx.hist("A.accepted", len(accepted))
    ctx.cov["exhaustive"] = True
    ctx.sample({"part": "A", "alphabet": {"types": 5, "durations": durs, "thinnings": thins, "max_len": L},
                "accepted_example": [alpha[i] for i in accepted[-1][0]] if accepted else None})
    return {"part": "A", "durs": durs, "thins": thins, "L": L, "alpha": alpha, "accepted": accepted, "total": total}


def emit_a(ctx, a):
    # observed: list of (letter indices, [(nth, t_before, time, time_in_epoch)]) in lexicographic enumeration order per length
    obs = lst(
        "(" + lst(natlit(i) for i in seq) + ", "
        + lst(f"({natlit(s[0])}, {zlit(s[1])}, {zlit(s[2])}, {zlit(s[3])})" for s in states) + ")"
        for seq, states in a["accepted"])
    alpha = lst(cfg_lit(*x) for x in a["alpha"])
    txt = HEADER + f"""
Definition alphabet : list econf := {alpha}.
Definition observed : list (list nat * list (nat * Z * Z * Z)) := {obs}.
Lemma shard_ok : model_accepted alphabet {natlit(a['L'])} = observed.
Proof. vm_compute. reflexivity. Qed.
"""
    return ctx.new_shard(txt, "cases_A")


def oracle_a(a):
    """property text directly on the implementation's behaviour"""
    alpha = a["alpha"]

    def valid(seq):
        cs = [alpha[i] for i in seq]
        if not cs:
            return True
        if cs[0][0] != 0 or cs[0][1] != 1:
            return False
        seen_post = False
        for k, (t, d, th) in enumerate(cs):
            if k > 0 and t == 0:
                return False
            if d < 1 or th < 1 or th > d:
                return False
            if t == 4 and d % th != 0:
                return False
            if seen_post and t in (1, 2, 3):
                return False
            if t == 4:
                seen_post = True
        return True

    acc = {seq for seq, _ in a["accepted"]}
    rng = range(len(alpha))
    for n in range(0, a["L"] + 1):
        for seq in itertools.product(rng, repeat=n):
            v = valid(seq)
            if v != (seq in acc):
                return {"why": f"EpochManager {'accepts' if seq in acc else 'rejects'} a schedule that is "
                               f"{'valid' if v else 'invalid'}", "schedule": [alpha[i] for i in seq]}
    for seq, states in a["accepted"]:
        tb = 0
        for k, s in enumerate(states):
            if s[0] != k or s[1] != tb or s[2] != tb or s[3] != 0 or tuple(s[4:]) != tuple(alpha[seq[k]]):
                return {"why": "next() hands out a wrong EpochState", "schedule": [alpha[i] for i in seq],
                        "states": states}
            tb += alpha[seq[k]][1]
        if len(states) != len(seq):
            return {"why": "next() hands out a wrong number of states", "schedule": [alpha[i] for i in seq]}
    return None


# ---------------------------------------------------------------------------------------------
def rand_valid_cfg(rnd, after_post):
    t = 4 if after_post else rnd.choice([1, 1, 2, 2, 3, 4])
    d = rnd.choice([1, 2, 3, 4, 6, 8, 12])
    ths = [x for x in range(1, d + 1) if (t != 4 or d % x == 0)]
    return (t, d, rnd.choice(ths))


def part_b(ctx, rnd):
    EpochConfig, EpochManager, EpochType, _ = _imports()
    n = 150 if ctx.quick else 1500
    cases = []
    for _ in range(n):
        m = EpochManager(None)
        ops, outs = [], []
        have, post = False, False
        for _ in range(rnd.randint(1, 14)):
            r = rnd.random()
            if r < 0.5:
                if rnd.random() < 0.8:   # mostly valid next config
                    c = (0, 1, 1) if not have else rand_valid_cfg(rnd, post)
                else:
                    c = (rnd.randint(0, 4), rnd.randint(0, 4), rnd.randint(0, 3))
                try:
                    m.append(EpochConfig(EpochType(c[0]), c[1], c[2], None))
                    ok = True
                    have = True
                    post = post or c[0] == 4
                except RuntimeError:
                    ok = False
                ops.append(("A", c))
                outs.append(("A", ok))
            elif r < 0.85:
                try:
                    s = m.next()
                    o = (int(s.nth_epoch), int(s.time_before_epoch), int(s.config.type), int(s.config.duration),
                         int(s.config.thinning), int(s.time), int(s.time_in_epoch))
                except RuntimeError:
                    o = None
                ops.append(("N", None))
                outs.append(("N", o))
            else:
                ops.append(("H", None))
                outs.append(("H", bool(m.has_more())))
        cases.append({"part": "B", "ops": ops, "outs": outs})
    ctx.count(len(cases), len({str(c["ops"]) for c in cases}))
    ctx.hist("B.op_sequences", len(cases))
    ctx.hist("B.ops", sum(len(c["ops"]) for c in cases))
    ctx.hist("B.rejected_appends", sum(1 for c in cases for o in c["outs"] if o == ("A", False)))
    ctx.hist("B.next_on_empty", sum(1 for c in cases for o in c["outs"] if o == ("N", None)))
    ctx.sample(cases[0])
    return cases


def emit_b(ctx, cases):
    def op(o):
        k, c = o
        return f"(OpAppend {cfg_lit(*c)})" if k == "A" else ("OpNext" if k == "N" else "OpHasMore")

    def out(o):
        k, v = o
        if k == "A":
            return f"(OutAppend {blit(v)})"
        if k == "H":
            return f"(OutHasMore {blit(v)})"
        if v is None:
            return "(OutNext None)"
        return f"(OutNext (Some ({natlit(v[0])}, {zlit(v[1])}, {cfg_lit(v[2], v[3], v[4])})))"

    body = lst("(" + lst(op(o) for o in c["ops"]) + ", " + lst(out(o) for o in c["outs"]) + ")" for c in cases)
    txt = HEADER + f"""
Definition cases : list (list mop * list mout) := {body}.
Lemma shard_ok : forallb agrees_b cases = true.
Proof. vm_compute. reflexivity. Qed.
"""
    return ctx.new_shard(txt, "cases_B")


def oracle_b(c):
    # direct: replay with a trivially simple reference (list + pointer)
    cfgs, ptr, start = [], 0, 0
    for (k, arg), (_, o) in zip(c["ops"], c["outs"]):
        if k == "A":
            t, d, th = arg
            ok = True
            if not cfgs:
                ok = t == 0 and d == 1
            else:
                ok = t != 0 and not (cfgs[-1][0] == 4 and t in (1, 2, 3))
            ok = ok and d >= 1 and 1 <= th <= d and (t != 4 or d % th == 0)
            if ok != o:
                return {"why": "append accepted/rejected against the validity rule", "ops": c["ops"]}
            if ok:
                cfgs.append(arg)
        elif k == "N":
            if ptr < len(cfgs):
                exp = (ptr, start) + tuple(cfgs[ptr]) + (start, 0)
                start += cfgs[ptr][1]
                ptr += 1
            else:
                exp = None
            if exp != o:
                return {"why": "next() returned a wrong state", "ops": c["ops"], "got": o, "expected": exp}
        else:
            if (ptr < len(cfgs)) != o:
                return {"why": "has_more wrong", "ops": c["ops"]}
    return None


# ---------------------------------------------------------------------------------------------
def stan_args(ctx, rnd):
    args = []
    # borders
    for w in [19, 20, 21, 25, 30, 60, 150, 151, 1000]:
        for (i, t, b) in [(75, 50, 25), (1, 1, 1), (5, 5, 10), (w // 3, w // 3, max(1, w - 2 * (w // 3))),
                          (w - 2, 1, 1), (1, w - 2, 1), (1, 1, w - 2), (1, 1, w - 1), (7, 3, 2)]:
            if b >= 1:
                args.append((w, 10, i, t, b, 1, 1))
    # 3*b == left borders
    for b in [1, 2, 3, 5, 8, 25]:
        for k in [0, 1, 2]:
            left = 3 * b + k - 1
            i, t = 4, 3
            args.append((left + i + t, 12, i, t, b, 2, 1))
    # warmup thinnings that do not divide the default 75 / 25 / 50 windows
    for thw in [2, 3, 4, 6, 7, 8, 9, 10, 11, 12, 13, 24, 25]:
        args.append((1000, 1000, 75, 50, 25, 1, thw))
        args.append((200 + thw, 30, 30 + thw, 26, 25, 3, thw))
    # windows that are all multiples of a large number: the builder's chunk length gets large
    for g in BIG_GCDS:
        for (ki, kt, kb, extra, kp) in [(1, 1, 1, 0, 2), (1, 2, 1, 3, 1), (2, 1, 1, 9, 3)]:
            args.append(((ki + kt + kb + extra) * g, kp * g, ki * g, kt * g, kb * g, rnd.choice([1, g, kp * g]), 1))
    n = 300 if ctx.quick else 4000
    for _ in range(n):
        w = rnd.choice([rnd.randint(15, 60), rnd.randint(20, 400), rnd.randint(100, 5000)])
        i = rnd.randint(0, max(1, w // 2))
        t = rnd.randint(0, max(1, w // 3))
        b = rnd.randint(1, max(1, w // 4))
        p = rnd.choice([1, 2, 10, 100, 1000, rnd.randint(0, 50)])
        thp = rnd.choice([1, 1, 2, 5, 10, rnd.randint(0, 4)])
        thw = rnd.choice([1, 1, 1, 2, 3, rnd.randint(0, 5)])
        args.append((w, p, i, t, b, thp, thw))
    return args


BIG_GCDS = [1001, 1125, 1500, 2250, 3006, 4096, 5000]


def snap(eps):
    return [(int(e.type), int(e.duration), int(e.thinning)) for e in eps]


def builder_observe(setter):
    """EngineBuilder: setter(builder) installs the schedule (set_epochs / set_duration); build() runs with
    the Engine constructor replaced by a spy.  Returns ("ok", schedule held by the builder, schedule handed
    to the Engine, jitted_sample_duration) or ("rejected", text) when the setter raises."""
    import liesel.goose as gs
    import liesel.goose.builder as gb
    got = {}
    sig = inspect.signature(gb.Engine.__init__)

    def spy(*a, **kw):
        got.update(sig.bind(None, *a, **kw).arguments)
        return None

    b = gs.EngineBuilder(seed=1, num_chains=1)
    try:
        setter(b)
    except Exception as ex:     # RuntimeError (manager) / ValueError (stan_epochs); the class is not compared
        return ("rejected", f"{type(ex).__name__}: {ex}")
    held = snap(b.epochs)
    b.set_model(gs.DictInterface(lambda s: 0.0))
    b.set_initial_values({"x": 0.0})
    with mock.patch.object(gb, "Engine", spy):
        b.build()
    return ("ok", held, snap(got["epoch_configs"]), int(got["jitted_sample_duration"]))


def builder_chunk(epochs):
    """EngineBuilder.set_epochs + build(): the jitted_sample_duration handed to the Engine"""
    r = builder_observe(lambda b: b.set_epochs(epochs))
    if r[0] != "ok":
        raise RuntimeError(r[1])
    return r[3]


# in-place edits a caller may apply to a schedule it received from stan_epochs
LIST_OPS = ["append_post", "append_post", "pop", "insert", "clear", "reverse", "none"]


def rand_edit(rnd):
    e = {"list_op": rnd.choice(LIST_OPS), "idx": rnd.randint(0, 8), "ddur": rnd.choice([0, 1, 7, -1, 100]),
         "dthin": rnd.choice([0, 0, 1, 3]), "type": rnd.choice([None, None, 3, 4])}
    if e["ddur"] == 0 and e["dthin"] == 0 and e["type"] is None and e["list_op"] in ("none", "reverse"):
        e["ddur"] = 7
    return e


def apply_edit(eps, e):
    """edit the list and one of its EpochConfig objects in place (the list belongs to the caller)"""
    EpochConfig, _, EpochType, _ = _imports()
    if eps:
        o = eps[e["idx"] % len(eps)]
        o.duration += e["ddur"]
        o.thinning += e["dthin"]
        if e["type"] is not None:
            o.type = EpochType(e["type"])
    op = e["list_op"]
    if op == "append_post":
        eps.append(EpochConfig(EpochType.POSTERIOR, 50, 1, None))
    elif op == "pop" and eps:
        eps.pop(e["idx"] % len(eps))
    elif op == "insert":
        eps.insert(e["idx"] % (len(eps) + 1), EpochConfig(EpochType.BURNIN, 3, 1, None))
    elif op == "clear":
        eps.clear()
    elif op == "reverse":
        eps.reverse()


def stan_twice(a, edit):
    """stan_epochs(*a); in-place edit of the returned list / objects; stan_epochs(*a) again.
    Returns (fresh unedited copy of the first schedule or None, snapshot of the first result taken
    before the edit, snapshot of the second result)"""
    EpochConfig, _, EpochType, stan_epochs = _imports()
    try:
        eps = stan_epochs(*a)
        res = snap(eps)
    except Exception:      # documented: ValueError; any other exception class is a rejection too
        return None, None, None
    if edit is not None:
        apply_edit(eps, edit)       # the list belongs to the caller
    try:
        res2 = snap(stan_epochs(*a))
    except Exception:
        res2 = None
    clean = [EpochConfig(EpochType(t), d, th, None) for (t, d, th) in res]
    return clean, res, res2


def builder_chunk_safe(epochs):
    try:
        return builder_chunk(epochs)
    except Exception as ex:  # a valid schedule must be buildable
        return f"error: {type(ex).__name__}: {ex}"


def part_c(ctx, rnd):
    EpochConfig, EpochManager, EpochType, stan_epochs = _imports()
    logging.getLogger("liesel").setLevel(logging.ERROR)
    cases = []
    nchunk = 0
    for a in stan_args(ctx, rnd):
        edit = rand_edit(rnd)
        eps, res, res2 = stan_twice(a, edit)
        acc, chunk = None, None
        if eps is not None:
            try:
                EpochManager(eps)
                acc = True
            except RuntimeError:
                acc = False
            big = min(a[2:5]) >= 1000
            if acc and (big or nchunk < (40 if ctx.quick else 400)):
                chunk = builder_chunk_safe(eps)
                nchunk += 0 if big else 1
        cases.append({"part": "C", "args": a, "res": res, "edit": edit, "res2": res2, "accepted": acc, "chunk": chunk})
    # chunk length on random valid schedules (not from stan_epochs)
    for _ in range(40 if ctx.quick else 400):
        cs, post = [(0, 1, 1)], False
        for _ in range(rnd.randint(1, 6)):
            c = rand_valid_cfg(rnd, post)
            c = (c[0], c[1] * rnd.choice([1, 1, 2, 3, 5]), c[2])
            if c[2] > c[1] or (c[0] == 4 and c[1] % c[2]):
                c = (c[0], c[1], 1)
            post = post or c[0] == 4
            cs.append(c)
        eps = [EpochConfig(EpochType(t), d, th, None) for (t, d, th) in cs]
        cases.append({"part": "C2", "cfgs": cs, "chunk": builder_chunk_safe(eps)})
    nc = [c for c in cases if c["part"] == "C"]
    ctx.count(len(cases), len({str(c.get("args", c.get("cfgs"))) for c in cases}))
    ctx.hist("C.stan_calls", len(nc))
    ctx.hist("C.stan_value_error", sum(1 for c in nc if c["res"] is None))
    ctx.hist("C.stan_result_rejected_by_manager", sum(1 for c in nc if c["accepted"] is False))
    ctx.hist("C.chunk_lengths_observed", sum(1 for c in cases if c.get("chunk") is not None))
    ctx.hist("C.repeated_call_after_inplace_edit", sum(1 for c in nc if c["res"] is not None))
    for op in sorted(set(LIST_OPS)):
        ctx.hist("C.edit." + op, sum(1 for c in nc if c["res"] is not None and c["edit"]["list_op"] == op))
    ctx.hist("C.large_windows(>=1000)", sum(1 for c in nc if min(c["args"][2:5]) >= 1000))
    ctx.sample(nc[len(nc) // 2])
    return cases


def emit_c(ctx, cases):
    paths = []
    c1 = [c for c in cases if c["part"] == "C"]
    c2 = [c for c in cases if c["part"] == "C2"]
    for k in range(0, len(c1), 400):
        chunk = c1[k:k + 400]

        def one(c):
            a = ", ".join(zlit(x) for x in c["args"])
            res = "None" if c["res"] is None else "(Some " + lst(cfg_lit(*e) for e in c["res"]) + ")"
            acc = "None" if c["accepted"] is None else f"(Some {blit(c['accepted'])})"
            ch = "None" if c["chunk"] is None else f"(Some {zlit(c['chunk'])})"
            res2 = "None" if c["res2"] is None else "(Some " + lst(cfg_lit(*e) for e in c["res2"]) + ")"
            return f"(({a}), {res}, {res2}, {acc}, {ch})"

        txt = HEADER + f"""
Definition cases : list ((Z * Z * Z * Z * Z * Z * Z) * option (list econf) * option (list econf) * option bool * option Z) := {lst(one(c) for c in chunk)}.
Lemma shard_ok : forallb agrees_c2 cases = true.
Proof. vm_compute. reflexivity. Qed.
"""
        paths.append((ctx.new_shard(txt, f"cases_C{k // 400}"), chunk))
    txt = HEADER + f"""
Definition cases : list (list econf * Z) := {lst("(" + lst(cfg_lit(*e) for e in c["cfgs"]) + ", " + zlit(c["chunk"]) + ")" for c in c2 if c["chunk"] is not None)}.
Lemma shard_ok : forallb (fun c => chunk_len (fst c) =? snd c) cases = true.
Proof. vm_compute. reflexivity. Qed.
"""
    paths.append((ctx.new_shard(txt, "cases_C2"), c2))
    return paths


def _oracle_c1(c):
    if c.get("chunk_err"):
        return {"why": "EngineBuilder fails on a valid schedule: " + c["chunk_err"], "case": dict(c)}
    if c["part"] == "C2":
        ds = [d for (_, d, _) in c["cfgs"][1:]]
        if ds and (c["chunk"] < 1 or any(d % c["chunk"] for d in ds)):
            return {"why": "JIT chunk length does not divide every epoch duration", "cfgs": c["cfgs"], "chunk": c["chunk"]}
        return None
    w, p, i, t, b, thp, thw = c["args"]
    admissible = (w >= 20 and i + t + b <= w and min(i, t, b, p) >= 1 and 1 <= thw <= min(i, t, b)
                  and thp >= 1 and p % thp == 0)
    if not admissible:
        return None
    r = c["res"]
    if r is None:
        return {"why": "stan_epochs rejects an admissible argument combination", "args": c["args"]}
    if not c["accepted"]:
        return {"why": "stan_epochs returned a schedule the epoch manager rejects", "args": c["args"], "res": r}
    warm = [e for e in r if e[0] in (1, 2, 3)]
    if sum(e[1] for e in warm) != w:
        return {"why": "warmup epochs do not sum to the requested warmup length", "args": c["args"], "res": r}
    r = [tuple(e) for e in r]
    shape_ok = (len(r) >= 5 and r[0] == (0, 1, 1) and r[1] == (1, i, thw) and r[-1] == (4, p, thp)
                and r[-2] == (1, t, thw) and all(e[0] == 2 and e[2] == thw for e in r[2:-2]))
    if not shape_ok:
        return {"why": "not the documented fast / doubling-slow / fast / posterior pattern", "args": c["args"], "res": r}
    slows = [e[1] for e in r[2:-3]]
    shape_ok = shape_ok and all(s == b * 2 ** k for k, s in enumerate(slows))
    rest = r[-3][1]
    shape_ok = shape_ok and b <= rest < 3 * b * 2 ** len(slows)
    if not shape_ok:
        return {"why": "not the documented fast / doubling-slow / fast / posterior pattern", "args": c["args"], "res": r}
    if c["chunk"] is not None and (c["chunk"] < 1 or any(e[1] % c["chunk"] for e in r[1:])):
        return {"why": "JIT chunk length does not divide every epoch duration", "args": c["args"], "chunk": c["chunk"],
                "durations": [e[1] for e in r[1:]]}
    return None


def oracle_c(c):
    v = _oracle_c1(c)
    if v or c["part"] != "C" or "res2" not in c or c["res"] is None:
        return v
    # the same reading of the property on the second call (after the caller edited the first result)
    v = _oracle_c1({"part": "C", "args": c["args"], "res": c["res2"], "accepted": _accepts(c["res2"]), "chunk": None})
    if v is None and c["res2"] != c["res"]:
        v = {"why": "two calls with identical arguments return different schedules", "args": c["args"],
             "res": c["res2"]}
    if v:
        v["why"] = ("stan_epochs, called again with identical arguments after the caller edited the first "
                    "result in place: " + v["why"])
        v["edit"] = c["edit"]
        v["first_result"] = c["res"]
    return v


def _accepts(res):
    if res is None:
        return None
    EpochConfig, EpochManager, EpochType, _ = _imports()
    try:
        EpochManager([EpochConfig(EpochType(t), d, th, None) for (t, d, th) in res])
        return True
    except Exception:
        return False


# ---------------------------------------------------------------------------------------------
# part D: EngineBuilder.set_epochs / set_duration + build()
def valid_text(cs):
    """validity of a schedule, read from the property text"""
    if not cs:
        return True
    if cs[0][0] != 0 or cs[0][1] != 1:
        return False
    seen_post = False
    for k, (t, d, th) in enumerate(cs):
        if (k > 0 and t == 0) or d < 1 or th < 1 or th > d or (t == 4 and d % th != 0):
            return False
        if seen_post and t in (1, 2, 3):
            return False
        seen_post = seen_post or t == 4
    return True


def big_schedule(rnd, g, n=None, exact=True):
    """a valid schedule all of whose non-initial durations are multiples of g (gcd exactly g if exact)"""
    n = n or rnd.randint(1, 5)
    while True:
        ms = [rnd.choice([1, 1, 2, 3, 4, 5, 6, 7, 9, 10]) for _ in range(n)]
        if not exact or math.gcd(*ms) == 1:
            break
    types = sorted(rnd.choice([1, 2, 3, 4]) for _ in range(n))      # warmup types (any order) before posterior
    warm = [t for t in types if t != 4]
    rnd.shuffle(warm)
    types = warm + [t for t in types if t == 4]
    cs = [(0, 1, 1)]
    for t, m in zip(types, ms):
        d = g * m
        divs = [x for x in (1, 1, 2, 3, 5, m, g, d) if d % x == 0]
        th = rnd.choice(divs) if t == 4 else rnd.choice([1, 1, 2, 7, d])
        cs.append((t, d, th))
    return cs


def part_d(ctx, rnd):
    EpochConfig, EpochManager, EpochType, _ = _imports()
    scheds = [[], [(0, 1, 1)], [(0, 1, 1), (4, 3006, 1)], [(0, 1, 1), (3, 2250, 1), (4, 4500, 1)],
              [(0, 1, 1), (1, 2002, 1), (2, 3003, 7), (4, 5005, 5)], [(0, 1, 1), (4, 1001, 7), (4, 1001, 1)],
              [(0, 1, 1), (4, 2250, 1), (3, 2250, 1)], [(3, 2250, 1), (4, 4500, 1)], [(0, 1, 1), (4, 3006, 4)]]
    for g in BIG_GCDS:
        scheds.append([(0, 1, 1), (4, g, 1)])
        for _ in range(3 if ctx.quick else 20):
            scheds.append(big_schedule(rnd, g))
    for _ in range(40 if ctx.quick else 600):
        g = rnd.choice([rnd.randint(1001, 9999), rnd.randint(1001, 9999) | 1, 2 ** rnd.randint(10, 14),
                        2 ** rnd.randint(1, 4) * rnd.randint(501, 999), rnd.randint(2, 999), 1000, 1024, 2000])
        cs = big_schedule(rnd, g, exact=rnd.random() < 0.7)
        if rnd.random() < 0.15:        # break it somewhere
            k = rnd.randrange(len(cs))
            t, d, th = cs[k]
            cs[k] = rnd.choice([(0, d, th), (t, 0, th), (t, d, d + 1), (t, d, 0), (1, d, 1), (4, d, max(2, d - 1))])
        scheds.append(cs)
    cases = []
    for cs in scheds:
        eps = [EpochConfig(EpochType(t), d, th, None) for (t, d, th) in cs]
        cases.append({"part": "D", "cfgs": cs, "obs": builder_observe(lambda b: b.set_epochs(eps))})
    # set_duration: init / base windows are the defaults of stan_epochs (75 / 25)
    durs = [((1000, 1000), {}), ((1000, 1000, 50), {}), ((200, 100), {"term_duration": 100}),
            ((199, 100), {"term_duration": 100}), ((19, 10), {"term_duration": 1}), ((150, 10), {}), ((149, 10), {}),
            ((1000, 1000), {"thinning_posterior": 10, "thinning_warmup": 5}), ((1000, 999), {"thinning_posterior": 10}),
            ((1000, 1000), {"thinning_warmup": 26}), ((1000, 1000), {"thinning_warmup": 25}),
            ((400, 0), {}), ((400, 5000), {"thinning_posterior": 5000}), ((5000, 4500, 2250, 2250, 25), {})]
    for _ in range(40 if ctx.quick else 600):
        w = rnd.choice([rnd.randint(90, 260), rnd.randint(100, 6000)])
        t = rnd.choice([50, 50, rnd.randint(0, max(1, w - 90)), 1, 25])
        thp = rnd.choice([1, 1, 2, 5, 25, rnd.randint(0, 6)])
        p = rnd.choice([1000, rnd.randint(0, 20), 25 * rnd.randint(1, 400), 4096, max(1, thp) * rnd.randint(1, 300)])
        thw = rnd.choice([1, 1, 1, 1, 2, 5, 25, rnd.randint(0, 30)])
        style = rnd.randint(0, 2)
        if style == 0:
            durs.append(((w, p, t, thp, thw), {}))
        elif style == 1:
            durs.append(((w, p), {"term_duration": t, "thinning_posterior": thp, "thinning_warmup": thw}))
        else:
            durs.append(((), {"warmup_duration": w, "posterior_duration": p, "term_duration": t,
                              "thinning_warmup": thw, "thinning_posterior": thp}))
    names = ["warmup_duration", "posterior_duration", "term_duration", "thinning_posterior", "thinning_warmup"]
    for pos, kw in durs:
        full = {"term_duration": 50, "thinning_posterior": 1, "thinning_warmup": 1}   # documented defaults
        full.update(dict(zip(names, pos)))
        full.update(kw)
        cases.append({"part": "D2", "call": [list(pos), kw], "args": [full[n] for n in names],
                      "obs": builder_observe(lambda b: b.set_duration(*pos, **kw))})
    ctx.count(len(cases), len({str(c.get("cfgs", c.get("call"))) for c in cases}))
    d1 = [c for c in cases if c["part"] == "D"]
    ctx.hist("D.set_epochs_calls", len(d1))
    ctx.hist("D.set_epochs_rejected", sum(1 for c in d1 if c["obs"][0] != "ok"))
    ctx.hist("D.chunk>1000", sum(1 for c in d1 if c["obs"][0] == "ok" and c["obs"][3] > 1000))
    ctx.hist("D.chunk>1000_where_repeated_halving_would_not_divide", sum(1 for c in d1 if c["obs"][0] == "ok" and c["obs"][3] > 1000
                                                and _halved(c["obs"][3]) * (c["obs"][3] // _halved(c["obs"][3])) != c["obs"][3]))
    ctx.hist("D.set_duration_calls", len(cases) - len(d1))
    ctx.hist("D.set_duration_rejected", sum(1 for c in cases if c["part"] == "D2" and c["obs"][0] != "ok"))
    ctx.sample(d1[3])
    return cases


def _halved(g):
    while g > 1000:
        g //= 2
    return g


def bobs_lit(o):
    if o[0] != "ok":
        return "ObsRejected"
    return f"(ObsOk {lst(cfg_lit(*e) for e in o[2])} {zlit(o[3])})"


def emit_d(ctx, cases):
    d1 = [c for c in cases if c["part"] == "D"]
    d2 = [c for c in cases if c["part"] == "D2"]
    out = []
    for k in range(0, len(d1), 400):
        part = d1[k:k + 400]
        body = lst("(" + lst(cfg_lit(*e) for e in c["cfgs"]) + ", " + bobs_lit(c["obs"]) + ")" for c in part)
        txt = HEADER + f"""
Definition cases : list (list econf * bobs) := {body}.
Lemma shard_ok : forallb agrees_bld_epochs cases = true.
Proof. vm_compute. reflexivity. Qed.
"""
        out.append(ctx.new_shard(txt, f"cases_D{k // 400}"))
    for k in range(0, len(d2), 400):
        part = d2[k:k + 400]
        body = lst("((" + ", ".join(zlit(x) for x in c["args"]) + "), " + bobs_lit(c["obs"]) + ")" for c in part)
        txt = HEADER + f"""
Definition cases : list ((Z * Z * Z * Z * Z) * bobs) := {body}.
Lemma shard_ok : forallb agrees_bld_duration cases = true.
Proof. vm_compute. reflexivity. Qed.
"""
        out.append(ctx.new_shard(txt, f"cases_D2_{k // 400}"))
    return out


def oracle_d(c):
    o = c["obs"]
    if c["part"] == "D":
        cs = [tuple(e) for e in c["cfgs"]]
        v = valid_text(cs)
        if v != (o[0] == "ok"):
            return {"why": f"EngineBuilder.set_epochs {'accepts' if o[0] == 'ok' else 'rejects'} a schedule that is "
                           f"{'valid' if v else 'invalid'}" + ("" if o[0] == "ok" else f" ({o[1]})"), "bld_epochs": cs}
        if o[0] != "ok":
            return None
        if [tuple(e) for e in o[1]] != cs or [tuple(e) for e in o[2]] != cs:
            return {"why": "the builder / the engine does not hold the schedule that was set", "bld_epochs": cs,
                    "held": o[1], "engine_gets": o[2]}
        ds = [d for (_, d, _) in cs[1:]]
        if ds and (o[3] < 1 or any(d % o[3] for d in ds)):
            return {"why": "JIT chunk length does not divide every epoch duration", "bld_epochs": cs, "chunk": o[3],
                    "durations": ds}
        return None
    w, p, t, thp, thw = c["args"]
    adm = (w >= 20 and 75 + t + 25 <= w and min(t, p) >= 1 and 1 <= thw <= min(75, t, 25) and thp >= 1 and p % thp == 0)
    if not adm:
        return None
    if o[0] != "ok":
        return {"why": "EngineBuilder.set_duration rejects an admissible argument combination: " + o[1],
                "bld_duration": c["call"]}
    r = [tuple(e) for e in o[2]]
    if [tuple(e) for e in o[1]] != r or not valid_text(r):
        return {"why": "set_duration leaves the builder with an invalid schedule", "bld_duration": c["call"], "res": r}
    if (sum(e[1] for e in r if e[0] in (1, 2, 3)) != w or r[-1] != (4, p, thp) or sum(1 for e in r if e[0] == 4) != 1
            or len(r) < 5 or r[1] != (1, 75, thw) or r[-2] != (1, t, thw)):
        return {"why": "set_duration: warmup epochs do not sum to the request / fast windows are not 75 and "
                       "term_duration with the warmup thinning / not one posterior epoch of the requested length", "bld_duration": c["call"], "res": r}
    if o[3] < 1 or any(e[1] % o[3] for e in r[1:]):
        return {"why": "JIT chunk length does not divide every epoch duration", "bld_duration": c["call"],
                "chunk": o[3], "durations": [e[1] for e in r[1:]]}
    return None


# ---------------------------------------------------------------------------------------------
# part G: one builder, a script of setter / build calls
DUR_NAMES = ["warmup_duration", "posterior_duration", "term_duration", "thinning_posterior", "thinning_warmup"]


def dur_args(pos, kw):
    full = {"term_duration": 50, "thinning_posterior": 1, "thinning_warmup": 1}   # documented defaults
    full.update(dict(zip(DUR_NAMES, pos)))
    full.update(kw)
    return [full[n] for n in DUR_NAMES]


def script_run(ops):
    """ops: ["E", cfgs] = set_epochs, ["D", pos, kw] = set_duration, ["B"] = build (Engine constructor
    replaced by a spy), all on ONE EngineBuilder.  Events: ["set", accepted, text], ["built", schedule held
    by the builder before build(), schedule handed to the Engine, jitted_sample_duration], ["error", text]"""
    import liesel.goose as gs
    import liesel.goose.builder as gb
    EpochConfig, _, EpochType, _ = _imports()
    sig = inspect.signature(gb.Engine.__init__)
    b = gs.EngineBuilder(seed=1, num_chains=1)
    b.set_model(gs.DictInterface(lambda s: 0.0))
    b.set_initial_values({"x": 0.0})
    events = []
    for op in ops:
        if op[0] == "B":
            got = {}

            def spy(*a, **kw):
                got.update(sig.bind(None, *a, **kw).arguments)
                return None
            try:
                held = snap(b.epochs)
                with mock.patch.object(gb, "Engine", spy):
                    b.build()
                events.append(["built", held, snap(got["epoch_configs"]), int(got["jitted_sample_duration"])])
            except Exception as ex:
                events.append(["error", f"{type(ex).__name__}: {ex}"])
            continue
        try:
            if op[0] == "E":
                b.set_epochs([EpochConfig(EpochType(t), d, th, None) for (t, d, th) in op[1]])
            else:
                b.set_duration(*op[1], **op[2])
            events.append(["set", True, ""])
        except Exception as ex:     # the class of the rejection is not compared
            events.append(["set", False, f"{type(ex).__name__}: {ex}"])
    return events


def rand_sched(rnd):
    g = rnd.choice([rnd.randint(2, 60), rnd.randint(2, 60), 25, 10, 7, rnd.randint(61, 999), rnd.choice(BIG_GCDS)])
    while True:
        cs = big_schedule(rnd, g)
        if valid_text(cs):
            return cs


def rand_dur_call(rnd, admissible=True):
    if admissible:
        t = rnd.choice([50, 16, 25, rnd.randint(1, 200)])
        w = 100 + t + rnd.randint(0, 900)
        thp = rnd.choice([1, 1, 2, 4])
        p = thp * rnd.randint(1, 300)
        thw = rnd.choice([1, 1, 1, 2, 5]) if t >= 5 else 1
    else:
        w, p, t, thp, thw = rnd.choice([(19, 10, 1, 1, 1), (120, 100, 50, 1, 1), (400, 101, 50, 2, 1), (400, 100, 50, 1, 26)])
    if rnd.random() < 0.5:
        return [[w, p, t, thp, thw], {}]
    return [[w, p], {"term_duration": t, "thinning_posterior": thp, "thinning_warmup": thw}]


def part_g(ctx, rnd):
    I = (0, 1, 1)
    scripts = [
        [["E", [I, (1, 50, 1), (3, 25, 1), (4, 100, 1)]], ["B"], ["E", [I, (1, 30, 1), (3, 20, 1), (4, 40, 1)]], ["B"],
         ["D", [], {"warmup_duration": 200, "posterior_duration": 64, "term_duration": 16}], ["B"]],
        [["D", [1000, 1000], {}], ["B"], ["E", [I, (3, 2250, 1), (4, 4500, 1)]], ["B"], ["B"],
         ["E", [I, (4, 1001, 7)]], ["B"]],
        [["E", [I, (4, 3006, 1)]], ["B"], ["E", [(4, 3, 1)]], ["B"], ["D", [19, 10], {}], ["B"],
         ["E", [I, (4, 1002, 1)]], ["B"]],
        [["E", [I, (2, 12, 1), (4, 18, 3)]], ["B"], ["E", [I, (2, 24, 1), (4, 36, 3)]], ["B"],
         ["E", [I, (2, 8, 1), (4, 20, 5)]], ["B"], ["E", [I]], ["B"]],
    ]
    for _ in range(60 if ctx.quick else 800):
        ops = [["E", rand_sched(rnd)] if rnd.random() < 0.7 else ["D"] + rand_dur_call(rnd)]
        for _ in range(rnd.randint(2, 8)):
            r = rnd.random()
            if r < 0.42:
                ops.append(["B"])
            elif r < 0.72:
                ops.append(["E", rand_sched(rnd)])
            elif r < 0.80:     # a schedule the manager rejects: the previous one stays
                cs = rand_sched(rnd)
                k = rnd.randrange(len(cs))
                t, d, th = cs[k]
                cs[k] = rnd.choice([(t, 0, th), (t, d, d + 1), (t, d, 0), (0, d, th) if k else (4, d, th)])
                ops.append(["E", cs])
            else:
                ops.append(["D"] + rand_dur_call(rnd, admissible=rnd.random() < 0.75))
        if ops[-1] != ["B"]:
            ops.append(["B"])
        scripts.append(ops)
    cases = [{"part": "G", "script": ops, "events": script_run(ops)} for ops in scripts]
    ctx.count(len(cases), len({str(c["script"]) for c in cases}))
    ctx.hist("G.builder_scripts", len(cases))
    ctx.hist("G.builds", sum(1 for c in cases for e in c["events"] if e[0] == "built"))
    nre, nnm = 0, 0
    for c in cases:
        prev = None
        for e in c["events"]:
            if e[0] == "built":
                if prev is not None and e[2] != prev[2]:
                    nre += 1
                    if any(d % prev[3] for (_, d, _) in e[2][1:]):
                        nnm += 1
                prev = e
    ctx.hist("G.builds_after_schedule_change", nre)
    ctx.hist("G.builds_where_previous_chunk_would_not_divide", nnm)
    ctx.hist("G.rejected_setters", sum(1 for c in cases for e in c["events"] if e[0] == "set" and not e[1]))
    ctx.sample(cases[0])
    return cases


def emit_g(ctx, cases):
    def op(o):
        if o[0] == "B":
            return "BBuild"
        if o[0] == "E":
            return f"(BSetEpochs {lst(cfg_lit(*e) for e in o[1])})"
        return "(BSetDuration " + " ".join(zlit(x) for x in dur_args(o[1], o[2])) + ")"

    def ev(e):
        if e[0] == "set":
            return f"(ESet {blit(e[1])})"
        if e[0] == "built":
            return f"(EBuilt {lst(cfg_lit(*x) for x in e[2])} {zlit(e[3])})"
        return "EBuildError"

    out = []
    for k in range(0, len(cases), 200):
        part = cases[k:k + 200]
        body = lst("(" + lst(op(o) for o in c["script"]) + ", " + lst(ev(e) for e in c["events"]) + ")" for c in part)
        txt = HEADER + f"""
Definition cases : list (list bop * list bevent) := {body}.
Lemma shard_ok : forallb agrees_script cases = true.
Proof. vm_compute. reflexivity. Qed.
"""
        out.append(ctx.new_shard(txt, f"cases_G{k // 200}"))
    return out


def oracle_g(c):
    """every engine that is built gets the schedule that was set last (and accepted) and a chunk length
    that divides every epoch duration of THAT schedule"""
    cur, k = None, 0
    for o, e in zip(c["script"], c["events"]):
        k += 1
        if o[0] == "E":
            cs = [tuple(x) for x in o[1]]
            if valid_text(cs) != e[1]:
                return {"why": f"EngineBuilder.set_epochs {'accepts' if e[1] else 'rejects'} a schedule that is "
                               f"{'valid' if valid_text(cs) else 'invalid'} (builder used for several builds)",
                        "script": c["script"][:k]}
            if e[1]:
                cur = cs
        elif o[0] == "D":
            w, p, t, thp, thw = dur_args(o[1], o[2])
            adm = (w >= 20 and 100 + t <= w and min(t, p) >= 1 and 1 <= thw <= min(25, t) and thp >= 1 and p % thp == 0)
            if adm and not e[1]:
                return {"why": "EngineBuilder.set_duration rejects an admissible argument combination: " + e[2],
                        "script": c["script"][:k]}
            if e[1]:
                cur = ("duration", w, p, thp)
        else:
            if cur is None:
                continue
            if e[0] != "built":
                return {"why": "EngineBuilder.build() fails on a builder that holds a valid schedule: " + e[1],
                        "script": c["script"][:k]}
            r = [tuple(x) for x in e[2]]
            if isinstance(cur, list):
                good = r == cur and [tuple(x) for x in e[1]] == cur
            else:
                _, w, p, thp = cur
                good = (valid_text(r) and sum(x[1] for x in r if x[0] in (1, 2, 3)) == w and r[-1] == (4, p, thp)
                        and sum(1 for x in r if x[0] == 4) == 1)
            if not good:
                return {"why": "a re-used builder does not hand the schedule that was set last to the engine",
                        "script": c["script"][:k], "engine_gets": r}
            ds = [d for (_, d, _) in r[1:]]
            if ds and (e[3] < 1 or any(d % e[3] for d in ds)):
                return {"why": "JIT chunk length does not divide every epoch duration of the schedule the engine is built "
                               "with (builder re-used after an earlier build)", "script": c["script"][:k],
                        "chunk": e[3], "durations": ds}
    return None


# ---------------------------------------------------------------------------------------------
# part E: EpochState
def state_run(cf, n, tb, bys):
    EpochConfig, _, EpochType, _ = _imports()
    s = EpochConfig(EpochType(cf[0]), cf[1], cf[2], None).to_state(n, tb)
    for by in bys:
        s.advance_time(by)
    return (int(s.nth_epoch), int(s.time), int(s.time_before_epoch), int(s.time_in_epoch), int(s.time_left()))


def part_e(ctx, rnd):
    cases = []
    for _ in range(150 if ctx.quick else 1500):
        d = rnd.choice([1, 2, 25, 1000, 2250, rnd.randint(1, 10000)])
        cf = (rnd.randint(0, 4), d, rnd.choice([1, 2, d]))
        n, tb = rnd.randint(0, 9), rnd.choice([0, 1, rnd.randint(0, 20000)])
        kind = rnd.random()
        if kind < 0.4:      # the engine's chunk loop: duration // chunk steps of chunk
            divs = [x for x in range(1, min(d, 60) + 1) if d % x == 0] + [d]
            ch = rnd.choice(divs)
            bys = [ch] * min(d // ch, 40)
        else:
            bys = [rnd.choice([1, 1, 2, 25, rnd.randint(0, 500)]) for _ in range(rnd.randint(0, 8))]
        cases.append({"part": "E", "state": [cf, n, tb, bys], "obs": state_run(cf, n, tb, bys)})
    ctx.count(len(cases), len({str(c["state"]) for c in cases}))
    ctx.hist("E.epoch_state_runs", len(cases))
    ctx.hist("E.run_to_end_of_epoch", sum(1 for c in cases if c["obs"][4] == 0))
    return cases


def emit_e(ctx, cases):
    def one(c):
        cf, n, tb, bys = c["state"]
        o = c["obs"]
        return (f"({cfg_lit(*cf)}, {natlit(n)}, {zlit(tb)}, {lst(zlit(b) for b in bys)}, "
                f"({natlit(o[0])}, {zlit(o[1])}, {zlit(o[2])}, {zlit(o[3])}, {zlit(o[4])}))")
    txt = HEADER + f"""
Definition cases : list (econf * nat * Z * list Z * (nat * Z * Z * Z * Z)) := {lst(one(c) for c in cases)}.
Lemma shard_ok : forallb agrees_state cases = true.
Proof. vm_compute. reflexivity. Qed.
"""
    return ctx.new_shard(txt, "cases_E")


def oracle_e(c):
    cf, n, tb, bys = c["state"]
    exp = (n, tb + sum(bys), tb, sum(bys), cf[1] - sum(bys))
    if tuple(c["obs"]) != exp:
        return {"why": "EpochState time bookkeeping (to_state / advance_time / time_left) is wrong", "state": c["state"],
                "got": list(c["obs"]), "expected": list(exp)}
    return None


# ---------------------------------------------------------------------------------------------
# part F: real engines
def engine_run(cs):
    """build a real engine for the schedule and sample all epochs; number of posterior draws per chain,
    or a string describing the exception"""
    import jax.numpy as jnp
    import liesel.goose as gs
    EpochConfig, _, EpochType, _ = _imports()
    try:
        b = gs.EngineBuilder(seed=1, num_chains=1)
        b.set_model(gs.DictInterface(lambda ms: -0.5 * ms["x"] ** 2))
        b.set_initial_values({"x": jnp.array(0.5)})
        b.add_kernel(gs.RWKernel(["x"]))
        b.set_epochs([EpochConfig(EpochType(t), d, th, None) for (t, d, th) in cs])
        b.show_progress = False
        e = b.build()
        e.sample_all_epochs()
        if not any(t == 4 for (t, _, _) in cs):
            return 0
        return int(e.get_results().get_posterior_samples()["x"].shape[1])
    except Exception as ex:
        return f"{type(ex).__name__}: {ex}"


def engine_history_run(hist):
    """ONE builder (RWKernel): for every schedule of the history set_epochs, build, sample all epochs;
    per step the number of posterior draws or a string describing the exception"""
    import jax.numpy as jnp
    import liesel.goose as gs
    EpochConfig, _, EpochType, _ = _imports()
    b = gs.EngineBuilder(seed=1, num_chains=1)
    b.set_model(gs.DictInterface(lambda ms: -0.5 * ms["x"] ** 2))
    b.set_initial_values({"x": jnp.array(0.5)})
    b.add_kernel(gs.RWKernel(["x"]))
    b.show_progress = False
    out = []
    for cs in hist:
        try:
            b.set_epochs([EpochConfig(EpochType(t), d, th, None) for (t, d, th) in cs])
            e = b.build()
            e.sample_all_epochs()
            out.append(int(e.get_results().get_posterior_samples()["x"].shape[1]) if any(t == 4 for (t, _, _) in cs) else 0)
        except Exception as ex:
            out.append(f"{type(ex).__name__}: {ex}")
    return out


def part_f(ctx, rnd):
    scheds = [[(0, 1, 1), (3, 2250, 1), (4, 4500, 1)], [(0, 1, 1), (4, 3006, 1)],
              [(0, 1, 1), (1, 2002, 7), (4, 1001, 7)], [(0, 1, 1), (1, 30, 1), (3, 45, 1), (4, 60, 2)]]
    for _ in range(2 if ctx.quick else 24):
        g = rnd.choice(BIG_GCDS + [rnd.randint(1001, 3000) | 1])
        scheds.append(big_schedule(rnd, g, n=rnd.randint(1, 3)))
    cases = [{"part": "F", "engine": cs, "obs": engine_run(cs)} for cs in scheds]
    # one builder re-used: the later schedules are not multiples of the earlier chunk lengths
    hists = [[[(0, 1, 1), (1, 50, 1), (3, 25, 1), (4, 100, 1)], [(0, 1, 1), (1, 30, 1), (3, 20, 1), (4, 40, 1)]],
             [[(0, 1, 1), (4, 2250, 1)], [(0, 1, 1), (3, 1001, 1), (4, 2002, 2)], [(0, 1, 1), (4, 36, 3)]]]
    for _ in range(0 if ctx.quick else 8):
        hists.append([rand_sched(rnd) for _ in range(rnd.randint(2, 3))])
    for h in hists:
        obs = engine_history_run(h)
        for k, cs in enumerate(h):
            cases.append({"part": "F", "engine": cs, "obs": obs[k], "history": h[:k + 1]})
    ctx.hist("F.engine_runs_on_a_reused_builder", sum(1 for c in cases if len(c.get("history", [])) > 1))
    ctx.count(len(cases), len({str(c["engine"]) for c in cases}))
    ctx.hist("F.engine_runs", len(cases))
    ctx.hist("F.engine_runs_chunk>1000", sum(1 for c in cases if math.gcd(*[d for (_, d, _) in c["engine"][1:]]) > 1000))
    return cases


def emit_f(ctx, cases):
    body = lst("(" + lst(cfg_lit(*e) for e in c["engine"]) + ", "
               + ("None" if isinstance(c["obs"], str) else f"(Some {zlit(c['obs'])})") + ")" for c in cases)
    txt = HEADER + f"""
Definition cases : list (list econf * option Z) := {body}.
Lemma shard_ok : forallb agrees_engine cases = true.
Proof. vm_compute. reflexivity. Qed.
"""
    return ctx.new_shard(txt, "cases_F")


def oracle_f(c):
    cs = [tuple(e) for e in c["engine"]]
    if not valid_text(cs) or len(cs) < 2:
        return None
    if isinstance(c["obs"], str):
        v = {"why": "a valid schedule is accepted by the builder but the engine cannot sample it: " + c["obs"], "engine": cs}
        if c.get("history"):
            v = {"why": "a builder is re-used (set_epochs, build, sample for each schedule of the history in turn); the "
                        "last schedule is valid and accepted but its engine cannot sample it: " + c["obs"],
                 "engine_history": c["history"]}
        return v
    exp = sum(d // th for (t, d, th) in cs if t == 4)
    if c["obs"] != exp:
        return {"why": f"the engine stored {c['obs']} posterior draws, the schedule asks for {exp}", "engine": cs}
    return None


# ---------------------------------------------------------------------------------------------
def run(ctx) -> int:
    rnd = random.Random(ctx.seed)
    built = ctx.coq_build()
    thm_ok = built and ctx.check_property_file()
    if not built:
        ctx.broken.append("coq build (make) failed")
    forb = ctx.forbidden_scan()
    if forb:
        ctx.broken.append("forbidden constructs: " + "; ".join(forb[:5]))
    a = part_a(ctx)
    bcases = part_b(ctx, rnd)
    ccases = part_c(ctx, rnd)
    dcases = part_d(ctx, rnd)
    gcases = part_g(ctx, rnd)
    ecases = part_e(ctx, rnd)
    fcases = part_f(ctx, rnd)
    fails = []
    for c in ccases:   # builder errors cannot be emitted as numbers
        if isinstance(c.get("chunk"), str):
            c["chunk_err"] = c["chunk"]
            c["chunk"] = None
    r = oracle_a(a)
    if r:
        fails.append(r)
    for c in bcases:
        r = oracle_b(c)
        if r:
            fails.append(r)
    for c in ccases:
        r = oracle_c(c)
        if r:
            fails.append(r)
    for cases, orc in ((dcases, oracle_d), (gcases, oracle_g), (ecases, oracle_e), (fcases, oracle_f)):
        for c in cases:
            r = orc(c)
            if r:
                fails.append(r)
    # one violation per distinct reason first, so that independent defects are all reported
    seen, ordered = set(), []
    for f in fails:
        key = f["why"].split(":")[0][:60]
        if key not in seen:
            seen.add(key)
            ordered.append(f)
    fails = ordered + [f for f in fails if f not in ordered]
    disagree = []
    if built:
        pa = emit_a(ctx, a)
        pb = emit_b(ctx, bcases)
        pcs = emit_c(ctx, ccases)
        more = emit_d(ctx, dcases) + emit_g(ctx, gcases) + [emit_e(ctx, ecases), emit_f(ctx, fcases)]
        res = ctx.compile_shards([pa, pb] + [p for p, _ in pcs] + more)
        for p, (ok, out) in res.items():
            if not ok:
                common.log(f"shard {p} failed:\n{out[-1200:]}")
                ctx.broken.append(f"correspondence lemma shard_ok in {p.split('/')[-1]}")
                disagree.append(p)
        # second tie between model and code: the source of the pure integer functions is translated to
        # Gallina now and proved equal to the model (c16_tie.py).  A broken source tie alone is no alarm
        # (a refactoring may leave the translated subset); it is named beside a behavioural disagreement.
        try:
            tie = c16_tie.run(ctx, common.REPO)
        except Exception as ex:      # optional evidence: never turns into an alarm by itself
            tie = {"translated": [], "lemmas_ok": False, "lemmas": [], "not_tied": {"all": f"{type(ex).__name__}: {ex}"},
                   "detail": "SOURCE TIE BROKEN: the tie step aborted; the verdict rests on the behavioural correspondence"}
        ctx.cov["source_tie"] = tie
        for sec, why in sorted(tie["not_tied"].items()):
            ctx.hist("T.source_tie_broken." + sec)
        ctx.hist("T.source_tie_lemmas", len(tie["lemmas"]))
        if not tie["lemmas_ok"] and (fails or disagree):
            ctx.broken.append("source tie (py2gallina): " + "; ".join(f"{k}: {v}" for k, v in sorted(tie["not_tied"].items()))[:600])
    else:
        ctx.cov["source_tie"] = {"translated": [], "lemmas_ok": False, "detail": "not attempted: the Coq build failed"}
    ctx.extra_tb = getattr(ctx, "extra_tb", []) + [
        "source tie: tools/py2gallina.py (Python ast -> Gallina for EpochManager.append, stan_epochs, EpochType.is_warmup / "
        "is_adaptation, EpochState.time_left / advance_time; fails closed outside its subset), the assumption that Python ints are "
        "unbounded Z and that the translated subset has its usual meaning; result of this run in coverage.source_tie"]
    ctx.tested_not_proved.append("stan_epochs is a pure function of its arguments: every call is repeated after an in-place "
                                 "edit of the returned list and EpochConfig objects; both results must equal the model")
    ctx.tested_not_proved.append(f"{len(fcases)} real engines (RWKernel, one chain) built by EngineBuilder sample all epochs; "
                                 "posterior draw count = sum duration/thinning; ties the chunk-loop model run_epoch to engine.py")
    ctx.tested_not_proved.append("the chunk length is observed as the jitted_sample_duration argument EngineBuilder.build() "
                                 "passes to the Engine constructor (constructor replaced by a spy)")
    ctx.assume.append("C16_stan_valid_and_sums / C16_builder_set_duration_ok: admissible arguments (20 <= w, i+t+b <= w, "
                      "1 <= i,t,b,p, 1 <= thw <= min(i,t,b), 1 <= thp | p); set_duration fixes i = 75, b = 25")
    ctx.tested_not_proved.append("the builder keeps no epoch-related state besides the schedule set last (model brun): tested by "
                                 "scripts of set_epochs / set_duration / build on one builder, not derivable from the source tie")
    ctx.assume.append("C16_chunk_positive / C16_builder_epochs_run_to_end: the schedule is valid and has a non-initial epoch")
    ctx.cov["rule"] = ("A: all sequences over the stated alphabet up to max_len (exhaustive; non-trivial = accepted ones, "
                       "each distinct); B: random append/next/has_more interleavings (distinct op lists); "
                       "C: stan_epochs border grid + random arguments (each call repeated after an in-place edit of its result), "
                       "distinct argument tuples; C2: random valid schedules; D: builder set_epochs (large-gcd strata, "
                       "distinct schedules) / set_duration (distinct calls); G: scripts of setter / build calls on one builder "
                       "(distinct scripts); E: EpochState runs; F: real engine runs, also several on one re-used builder")
    for f in fails[:3]:
        ctx.violation(f["why"], f, True, None)
    if (disagree or not thm_ok or forb) and not fails:
        ctx.violation("; ".join(ctx.broken), {"broken": ctx.broken,
                      "note": "model and implementation disagree (or a theorem no longer checks) but every sampled "
                              "input still satisfies the property as read directly on the implementation"}, False, None)
    return ctx.finish()


def _run_ops(ops):
    """re-run an append/next/has_more sequence on the real EpochManager"""
    EpochConfig, EpochManager, EpochType, _ = _imports()
    m = EpochManager(None)
    outs = []
    for k, c in ops:
        if k == "A":
            try:
                m.append(EpochConfig(EpochType(c[0]), c[1], c[2], None))
                outs.append(("A", True))
            except RuntimeError:
                outs.append(("A", False))
        elif k == "N":
            try:
                st = m.next()
                outs.append(("N", (int(st.nth_epoch), int(st.time_before_epoch), int(st.config.type),
                                   int(st.config.duration), int(st.config.thinning), int(st.time),
                                   int(st.time_in_epoch))))
            except RuntimeError:
                outs.append(("N", None))
        else:
            outs.append(("H", bool(m.has_more())))
    return outs


def replay(rp) -> int:
    """re-run the recorded failing input on the real code and judge it with the direct oracle"""
    EpochConfig, EpochManager, EpochType, stan_epochs = _imports()
    logging.getLogger("liesel").setLevel(logging.ERROR)
    r = rp.get("replay", rp)
    r = r.get("case", r)
    verdict = None
    if "schedule" in r:
        sched = [tuple(c) for c in r["schedule"]]
        ops = [("A", c) for c in sched] + [("N", None)] * len(sched)
        verdict = oracle_b({"ops": ops, "outs": _run_ops(ops)})
    elif "ops" in r:
        ops = [(k, tuple(c) if c is not None else None) for k, c in r["ops"]]
        verdict = oracle_b({"ops": ops, "outs": _run_ops(ops)})
    elif "args" in r:
        a = tuple(r["args"])
        edit = r.get("edit")
        eps, res, res2 = stan_twice(a, edit)
        acc, chunk = None, None
        if eps is not None:
            acc = _accepts(res)
            if acc:
                chunk = builder_chunk_safe(eps)
        c = {"part": "C", "args": a, "res": res, "accepted": acc, "chunk": chunk}
        if edit is not None:
            c.update({"edit": edit, "res2": res2})
            print(f"stan_epochs{a} -> {res}; after in-place edit {edit} of that list, the same call -> {res2}")
        if isinstance(chunk, str):
            c["chunk_err"], c["chunk"] = chunk, None
        verdict = oracle_c(c)
    elif "bld_epochs" in r:
        cs = [tuple(c) for c in r["bld_epochs"]]
        eps = [EpochConfig(EpochType(t), d, th, None) for (t, d, th) in cs]
        obs = builder_observe(lambda b: b.set_epochs(eps))
        print(f"EngineBuilder.set_epochs({cs}); build() -> {obs}")
        verdict = oracle_d({"part": "D", "cfgs": cs, "obs": obs})
    elif "bld_duration" in r:
        pos, kw = r["bld_duration"]
        names = ["warmup_duration", "posterior_duration", "term_duration", "thinning_posterior", "thinning_warmup"]
        full = {"term_duration": 50, "thinning_posterior": 1, "thinning_warmup": 1}
        full.update(dict(zip(names, pos)))
        full.update(kw)
        obs = builder_observe(lambda b: b.set_duration(*pos, **kw))
        print(f"EngineBuilder.set_duration(*{pos}, **{kw}); build() -> {obs}")
        verdict = oracle_d({"part": "D2", "call": [pos, kw], "args": [full[n] for n in names], "obs": obs})
    elif "state" in r:
        cf, n, tb, bys = r["state"]
        verdict = oracle_e({"part": "E", "state": [tuple(cf), n, tb, bys], "obs": state_run(tuple(cf), n, tb, bys)})
    elif "script" in r:
        ops = r["script"]
        events = script_run(ops)
        for o, e in zip(ops, events):
            print("  ", o, "->", e)
        verdict = oracle_g({"part": "G", "script": ops, "events": events})
    elif "engine_history" in r:
        h = [[tuple(c) for c in cs] for cs in r["engine_history"]]
        obs = engine_history_run(h)
        for cs, o in zip(h, obs):
            print(f"   one builder: set_epochs({cs}); build(); sample_all_epochs() -> {o}")
        verdict = oracle_f({"part": "F", "engine": h[-1], "obs": obs[-1], "history": h})
    elif "engine" in r:
        cs = [tuple(c) for c in r["engine"]]
        obs = engine_run(cs)
        print(f"engine for schedule {cs}: sample_all_epochs -> {obs}")
        verdict = oracle_f({"part": "F", "engine": cs, "obs": obs})
    elif "cfgs" in r:
        cs = [tuple(c) for c in r["cfgs"]]
        eps = [EpochConfig(EpochType(t), d, th, None) for (t, d, th) in cs]
        chunk = builder_chunk_safe(eps)
        c = {"part": "C2", "cfgs": cs, "chunk": chunk}
        if isinstance(chunk, str):
            c["chunk_err"], c["chunk"] = chunk, None
        verdict = oracle_c(c)
    else:
        print("replay file names no concrete input (broken lemma only):", r.get("broken"))
        return 0
    if verdict:
        print("REPLAY FAILS:", verdict["why"], {k: v for k, v in verdict.items() if k != "why"})
        return 1
    print("replay passes on the current tree")
    return 0
