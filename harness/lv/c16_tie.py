"""C16 source tie: Gallina definitions translated from the current Python source (tools/py2gallina.py)
+ Qed-closed lemmas that they are extensionally equal to the hand-written model + the main C16 theorems
re-stated for the translated functions.  Never raises an alarm by itself: the caller (c16.run) records
the outcome in the evidence (coverage.source_tie) and keeps the behavioural correspondence for the verdict.
"""
from __future__ import annotations

import importlib.util
import os
import re

from . import common

TOOL = os.path.join(common.VERIF, "tools", "py2gallina.py")

HEADER = """(* GENERATED on this run by tools/py2gallina.py from the Python source under {root} - do not edit *)
From Coq Require Import List ZArith Bool Lia.
Import ListNotations.
From LV Require Import Goose.Epoch Goose.EpochProofs Goose.Warmup Goose.WarmupProofs Goose.EpochBuilder.
From LV Require Import Goose.GenC16Tie.
Open Scope Z_scope.
"""

ENUM_NAMES = ["INITIAL_VALUES", "FAST_ADAPTATION", "SLOW_ADAPTATION", "BURNIN", "POSTERIOR"]
UNFOLD_ENUM = ", ".join("gen_EpochType_" + n for n in ENUM_NAMES)

PROOFS = {
    # the enum of the source has the model's five members with the model's codes
    "enum": f"""
Lemma gen_enum_is_model :
  ({", ".join("gen_EpochType_" + n for n in ENUM_NAMES)})
  = (ety_code Init, ety_code Fast, ety_code Slow, ety_code Burnin, ety_code Post).
Proof. reflexivity. Qed.
""",
    "predicates": """
Lemma gen_is_warmup_is_model : forall t, gen_is_warmup (ety_code t) = is_warmup t.
Proof. intros t; destruct t; reflexivity. Qed.
Lemma gen_is_adaptation_is_model : forall t, gen_is_adaptation (ety_code t) = is_adapt t.
Proof. intros t; destruct t; reflexivity. Qed.
""",
    "state": """
Lemma gen_time_left_is_model : forall s,
  gen_time_left (f_cfg s) (f_time s) (f_before s) (f_in s) = time_left s.
Proof. intros [c n t b i]. unfold gen_time_left, time_left. cbn [f_cfg f_in]. lia. Qed.
Lemma gen_advance_time_is_model : forall s by_,
  gen_advance_time (f_cfg s) (f_time s) (f_before s) (f_in s) by_
  = (f_time (advance_time s by_), f_before (advance_time s by_), f_in (advance_time s by_)).
Proof.
  intros [c n t b i] by_. unfold gen_advance_time, advance_time.
  cbn [f_cfg f_nth f_time f_before f_in]. cbv zeta. repeat (f_equal; try lia).
Qed.
""",
    "append": f"""
Lemma gen_append_is_model : forall cs c, gen_append cs c = append_res cs c.
Proof.
  intros cs c. unfold gen_append, append_res, append_ok.
  destruct (list_rev_case cs) as [-> | (r & p & ->)];
    [ change (lastc []) with (@None econf); rewrite ?glast_nil
    | rewrite ?lastc_app, ?glast_app, ?gempty_app; destruct p as [pt pd pth]; destruct pt ];
    destruct c as [t d th]; destruct t;
    cbv zeta; unfold gen_is_warmup, gen_is_adaptation, {UNFOLD_ENUM};
    tie_crush.
Qed.

Corollary gen_mgr_append_is_model : forall m c,
  mgr_append m c = match gen_append (cfgs m) c with
                   | GOk l => Some (mkM l (ptr m) (start m))
                   | GRaise _ => None
                   end.
Proof. intros m c. rewrite gen_append_is_model. apply mgr_append_as_res. Qed.

(* C16_accept_iff_valid for the append translated from the source: feeding a list of configs through it
   one by one (EpochManager.__init__) succeeds, leaving exactly that list, iff the list is valid; an
   invalid list ends in RuntimeError *)
Theorem gen_accept_iff_valid : forall l,
  (run_appends gen_append [] l = GOk l <-> valid l = true)
  /\\ (valid l = false -> run_appends gen_append [] l = GRaise E_RuntimeError).
Proof. exact (tie_accept_iff_valid gen_append gen_append_is_model). Qed.
Print Assumptions gen_accept_iff_valid.
""",
}


def stan_proofs(loop):
    """lemmas for stan_epochs; the loop lemma is stated positionally (state = (this, left, epochs),
    one free variable = the warmup thinning), which is the shape of the loop in the model"""
    lp = loop["name"]
    return f"""
Lemma gen_stan_loop_is_model : forall fuel thw this left eps this' left',
  this' = this -> left' = left ->
  gbind (gwhile fuel ({lp}_cond thw) ({lp}_body thw) (this', left', eps))
        (fun st => GOk (snd st, snd (fst st)))
  = slow_res fuel this left thw eps.
Proof.
  induction fuel as [|f IH]; intros thw this left eps this' left' -> ->; [reflexivity|].
  rewrite slow_res_step. cbn [gwhile].
  assert (Hc : {lp}_cond thw (this, left, eps) = (3 * this <=? left))
    by (unfold {lp}_cond; cbv zeta; tie_crush).
  rewrite Hc. destruct (3 * this <=? left); [|reflexivity].
  assert (Hb : exists this2 left2,
             {lp}_body thw (this, left, eps) = (this2, left2, eps ++ [mkE Slow this thw])
             /\\ this2 = 2 * this /\\ left2 = left - this)
    by (unfold {lp}_body, {UNFOLD_ENUM}; cbv zeta; tie_simpl;
        eexists; eexists; split; [reflexivity | split; lia]).
  destruct Hb as (this2 & left2 & -> & H1 & H2).
  exact (IH thw (2 * this) (left - this) _ this2 left2 H1 H2).
Qed.

Lemma gen_stan_epochs_is_model : forall w p i t b thp thw,
  gen_stan_epochs (S (Z.to_nat w)) w p i t b thp thw = stan_res w p i t b thp thw.
Proof.
  intros w p i t b thp thw. rewrite stan_res_unfold. unfold gen_stan_epochs, {UNFOLD_ENUM}.
  cbv zeta. tie_simpl.
  repeat (first [ reflexivity | tie_split; tie_simpl; try (exfalso; lia) ]);
  match goal with
  | |- context [gwhile ?f (?c ?v) ?bd (?a, ?l, ?e)] =>
      generalize (gen_stan_loop_is_model f v b (w - i - t) e a l);
      destruct (gwhile f (c v) bd (a, l, e)) as [[[x y] z]|ex]
  end;
  intros HL; specialize (HL ltac:(lia) ltac:(lia)); cbn [gbind fst snd] in HL;
  rewrite <- HL; cbn [gbind fst snd]; rewrite <- ?app_assoc; reflexivity.
Qed.

Lemma gen_stan_defaults_are_model :
  gen_stan_epochs_defaults = [1000; 1000; default_init; default_term; default_base; 1; 1].
Proof. reflexivity. Qed.

(* C16_stan_valid_and_sums / C16_stan_rejects for the stan_epochs translated from the source (the
   loop runs on the model's fuel, which the theorem shows to suffice) *)
Theorem gen_stan_valid_and_sums : forall w p i t b thp thw,
  admissible w p i t b thp thw ->
  exists slows rest,
    gen_stan_epochs (S (Z.to_nat w)) w p i t b thp thw =
      GOk ([mkE Init 1 1; mkE Fast i thw] ++ slows
           ++ [mkE Slow rest thw; mkE Fast t thw; mkE Post p thp])
    /\\ doubling b slows
    /\\ Forall (fun c => ety_ c = Slow /\\ thin c = thw /\\ b <= dur c) slows
    /\\ b <= rest < 3 * (b * 2 ^ Z.of_nat (length slows))
    /\\ i + sum_dur slows + rest + t = w
    /\\ forall l, gen_stan_epochs (S (Z.to_nat w)) w p i t b thp thw = GOk l ->
         valid l = true /\\ sum_dur (warmup_part l) = w.
Proof. exact (tie_stan_valid_and_sums gen_stan_epochs gen_stan_epochs_is_model). Qed.

Theorem gen_stan_rejects : forall w p i t b thp thw,
  w < 20 \\/ w < i + t + b ->
  gen_stan_epochs (S (Z.to_nat w)) w p i t b thp thw = GRaise E_ValueError.
Proof. exact (tie_stan_rejects gen_stan_epochs gen_stan_epochs_is_model). Qed.

(* the fuel is an artefact of the translation: more fuel never changes a result *)
Lemma gen_stan_fuel_mono : forall f f' w p i t b thp thw r,
  (f <= f')%nat ->
  gen_stan_epochs f w p i t b thp thw = GOk r -> gen_stan_epochs f' w p i t b thp thw = GOk r.
Proof.
  intros f f' w p i t b thp thw r Hf. unfold gen_stan_epochs. cbv zeta.
  repeat (first [ (intros HH; discriminate HH) | tie_split ]).
  match goal with
  | |- gbind (gwhile ?f0 ?c ?bd ?s) ?k = _ -> _ =>
      destruct (gwhile f0 c bd s) as [st|e] eqn:E;
      [ rewrite (gwhile_mono c bd f0 s st E f' Hf); exact (fun HH => HH)
      | intros HH; cbn [gbind] in HH; discriminate HH ]
  end.
Qed.

Theorem gen_stan_valid_and_sums_any_fuel : forall w p i t b thp thw,
  admissible w p i t b thp thw ->
  exists l,
    (forall fuel, (S (Z.to_nat w) <= fuel)%nat -> gen_stan_epochs fuel w p i t b thp thw = GOk l)
    /\\ valid l = true /\\ sum_dur (warmup_part l) = w.
Proof. exact (tie_stan_any_fuel gen_stan_epochs gen_stan_epochs_is_model gen_stan_fuel_mono). Qed.
Print Assumptions gen_stan_valid_and_sums.
Print Assumptions gen_stan_valid_and_sums_any_fuel.
"""


# sections in dependency order; a section needs the definitions (not the lemmas) of its dependencies
ORDER = ["enum", "predicates", "state", "append", "stan"]
DEPS = {"enum": [], "predicates": ["enum"], "state": [], "append": ["enum", "predicates"], "stan": ["enum", "predicates"]}


def load_tool():
    spec = importlib.util.spec_from_file_location("py2gallina", TOOL)
    mod = importlib.util.module_from_spec(spec)
    spec.loader.exec_module(mod)
    return mod


def lemma_names(txt):
    return re.findall(r"^(?:Lemma|Theorem|Corollary)\s+([A-Za-z0-9_']+)", txt, re.M)


def sections(root):
    """translate; returns ({section: {"defs", "proofs", "info"}}, {section: reason it is not available})"""
    tool = load_tool()
    res = tool.translate(root, tuple(ORDER))
    ok, bad = {}, {}
    for sec in ORDER:
        d = res.get(sec, {"error": "not translated"})
        if "error" in d:
            bad[sec] = "translator failed closed: " + d["error"]
            continue
        if sec == "stan":
            loops = d["info"][0].get("loops", [])
            if (len(loops) != 1 or loops[0]["state_types"] != ["Z", "Z", "list econf"]
                    or loops[0]["free_types"] != ["Z"]):
                bad[sec] = ("stan_epochs translated, but its loop does not have the shape the model's loop lemma is stated "
                            f"for (state int, int, list; one free int): {loops}")
                continue
            proofs = stan_proofs(loops[0])
        else:
            proofs = PROOFS[sec]
        ok[sec] = {"defs": d["text"], "proofs": proofs, "info": d["info"]}
    for sec in ORDER:      # a section whose dependency did not translate cannot be stated
        if sec in ok:
            missing = [x for x in DEPS[sec] if x not in ok]
            if missing:
                bad[sec] = f"needs the translation of {missing}, which failed"
                del ok[sec]
    return ok, bad


def assemble(root, ok, use):
    """file text for the sections in `use` (definitions of all translated sections are always included)"""
    parts = [HEADER.format(root=root)]
    marks = []          # (first line, last line, section) of each proof block, for error attribution
    for sec in ORDER:
        if sec not in ok:
            continue
        for i in ok[sec]["info"]:
            parts.append(f"(* {i['file']} : {i['function']}, lines {i['lines'][0]}-{i['lines'][1]}, sha256 {i['sha256']} *)")
        parts.append(ok[sec]["defs"])
        if sec in use:
            start = sum(p.count("\n") + 1 for p in parts) + 1
            parts.append(ok[sec]["proofs"])
            end = sum(p.count("\n") + 1 for p in parts)
            marks.append((start, end, sec))
    return "\n".join(parts) + "\n", marks


def run(ctx, root):
    """returns the coverage.source_tie record"""
    rec = {"translated": [], "lemmas_ok": False, "lemmas": [], "not_tied": {}, "detail": "",
           "translator": "tools/py2gallina.py", "generated_file": "gen_c16.v (work directory, deleted after the run)"}
    try:
        ok, bad = sections(root)
    except Exception as ex:       # the tie is optional evidence; never let it abort the check
        rec["detail"] = f"translator aborted: {type(ex).__name__}: {ex}"
        return rec
    rec["not_tied"].update(bad)
    use = [s for s in ORDER if s in ok]
    failed_out = ""
    for _ in range(len(ORDER) + 1):
        if not use:
            break
        txt, marks = assemble(root, ok, use)
        path = ctx.new_shard(txt, "gen_c16")
        rc, out, dt = common.sh(["coqc", "-Q", common.COQ, "LV", "-Q", ctx.work, "Cases", path], timeout=600, cwd=ctx.work)
        rec["coqc_s"] = round(dt, 1)
        if rc == 0:
            n_pa = len(re.findall(r"^Print Assumptions", txt, re.M))
            n_closed = out.count("Closed under the global context")
            rec["print_assumptions"] = ("closed under the global context (no axioms)" if n_pa == n_closed else
                                        " ".join(out.split())[-400:])
            break
        m = re.search(r"line (\d+)", out)
        ln = int(m.group(1)) if m else -1
        culprit = next((s for a, b, s in marks if a <= ln <= b), None)
        if culprit is None:        # a definition does not type-check (or the line is unknown): drop the last section
            culprit = next((s for s in reversed(ORDER) if s in use), None)
            for s in ORDER:
                if s in ok and f"gen_" in out and any(n in out for n in re.findall(r"Definition (gen_\w+)", ok[s]["defs"])):
                    culprit = s
        upto = "\n".join(txt.split("\n")[:max(ln, 0)])
        names = lemma_names(upto)
        msg = " ".join(out.strip().split())[-300:]
        rec["not_tied"][culprit] = (f"lemma {names[-1] if names else '?'} does not check for the functions as translated "
                                    f"from the current source: {msg}")
        failed_out = out
        # sections that depend on the definitions of the culprit stay (definitions are kept); only when a
        # definition itself is ill-typed must the section and its dependants go entirely
        use = [s for s in use if s != culprit]
        if "Definition" in "\n".join(txt.split("\n")[max(ln - 1, 0):ln]) or culprit not in [s for _, _, s in marks]:
            for s in list(ok):
                if s == culprit or culprit in DEPS[s]:
                    ok.pop(s, None)
                    rec["not_tied"].setdefault(s, f"definitions of {culprit} do not type-check")
            use = [s for s in use if s in ok]
    else:
        use = []
    for sec in use:
        rec["translated"].extend(ok[sec]["info"])
        rec["lemmas"].extend(lemma_names(ok[sec]["proofs"]))
    rec["lemmas_ok"] = bool(use) and not rec["not_tied"]
    n = len(rec["lemmas"])
    ctx.obligations += n
    ctx.discharged += n
    if rec["lemmas_ok"]:
        rec["detail"] = ("the C16 theorems about append / stan_epochs were re-established on this run for the functions as "
                         "translated from the current source (files, line ranges and sha256 of the translated text under "
                         "'translated'): every gen_*_is_model lemma and every gen_* corollary is Qed-closed")
    else:
        rec["detail"] = ("SOURCE TIE BROKEN for " + ", ".join(sorted(rec["not_tied"])) + " - the verdict of this run rests on "
                         "the behavioural correspondence and the oracle for these functions" +
                         ("; still tied: " + ", ".join(use) if use else ""))
        if failed_out:
            common.log("source tie: " + rec["detail"])
    return rec
