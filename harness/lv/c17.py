"""C17 - simulate() draws a joint ancestral sample.

Hierarchical models (distributed strong Vars whose distribution parameters are hyper-parameter Value
nodes, earlier Vars read directly, or chains of Calc / TransientCalc / TransientIdentity nodes over
earlier Vars - reading the Var's proxy or its value node directly; weak Vars, Vars without
distribution, stand-alone Dist nodes, descendants) are built as REAL liesel models on Python-int
values (the C01 builder `lv.c01.Real`).  The distribution class of every Var is a harness class whose
`sample(sample_shape, seed)` is an integer function of the parameter values it was constructed from and
of the PRNG key it receives, and which records every call.  After a random history of public operations
(assignments, auto_update toggles, updates, state save/restore) `model.simulate(key, skip)` is called,
then `model.update()`; values and flags of all nodes are recorded before, between and after.

Coq re-runs Graph/Simulate.v (variant RefreshInputs) on the same graph, history, observed visiting order
and seeds and the shard lemmas certify agreement (vm_compute, Qed): who is drawn, raised or not, the
values of all Value nodes, coherence of every node that reports itself up to date, the state after
update(), validity of the visiting order, and the joint-ancestral-sample equations.
A direct oracle reads the property literally on the observations (each drawn variable = its sampler
applied to its seed and the from-scratch parameter values under the FINAL values; skipped / other
inputs untouched; seeds = jax.random.split(seed, n)[i]; same result for the other auto_update setting;
coherent after update()).  Real tfd families are exercised for shapes / determinism / skipping
(tests, not proofs).
"""
from __future__ import annotations

import json
import os
import random

from . import common
from .common import lst, blit, natlit, zlit
from . import c01
from . import c17_tfd
from .c01 import Real, PG, apply_fs, node_lit, op_lit, GraphAnomaly, P

HEADER = """From Coq Require Import List ZArith Bool.
Import ListNotations.
From LV Require Import Graph.Graph Graph.CorrC01 Graph.Simulate Graph.CorrC17.
Open Scope Z_scope.
"""
LIT_MAX_NODES = 16
WITH_LOGPROB = os.environ.get("LV_C17_LOGPROB", "") == "1"
KLASS_LOGPROB = "F9-logprob-parameter-order"


# ---------------------------------------------------------------------------------------------
# descriptions of hierarchical models (item format of lv.c01)
# ---------------------------------------------------------------------------------------------
def _aff(rnd, n):
    return ["aff", rnd.randint(0, 999), [rnd.randint(1, 9) for _ in range(n)]]


def gen_spec(rnd: random.Random, stratum: str, quick=True) -> dict:
    items: list[dict] = []
    dvars: list[int] = []        # distributed strong Vars so far

    def add(it):
        items.append(it)
        return len(items) - 1

    def value():
        return add({"k": "value", "v": rnd.randint(-50, 50), "data": rnd.random() < 0.15})

    def node(kind, ins):
        if kind == "tid":
            return add({"k": "tid", "ins": ins[:1], "kw": [], "kwn": [], "fs": ["id"]})
        kw = []
        kwn = []
        if len(ins) >= 2 and rnd.random() < 0.3:
            kw, ins = ins[-1:], ins[:-1]
            kwn = [rnd.choice(c01.KW)]
        return add({"k": kind, "ins": ins, "kw": kw, "kwn": kwn, "fs": _aff(rnd, len(ins) + len(kw))})

    def chain(ref, depth, kinds):
        cur = ref
        for lvl in range(depth):
            k = rnd.choice(kinds)
            extra = []
            if k != "tid" and rnd.random() < 0.25:
                extra = [value()]
            cur = node(k, [cur] + extra)
        return cur

    def dist(params, transient=False):
        kw, kwn = [], []
        ins = list(params)
        if len(ins) >= 2 and rnd.random() < 0.4:
            kw, ins = ins[-1:], ins[:-1]
            kwn = [rnd.choice(c01.KW)]
        n = len(ins) + len(kw)
        return {"ins": ins, "kw": kw, "kwn": kwn, "fs": _aff(rnd, n + 1), "transient": transient,
                "samp": _aff(rnd, n + 1)}

    def param_for(parent, how):
        """a parameter node that depends on the Var item `parent`"""
        if how == "direct":
            return parent
        if how.startswith("diamond"):
            # two-level diamond of cached Calcs: A = f(parent), B = f(A) [, B' = f(B)], C = f(B, A) or f(A, B):
            # C has a shared ancestor reachable through paths of different length; in the order (B, A) the
            # descendant is listed before its ancestor
            first = [parent, "vn"] if rnd.random() < 0.2 else parent
            a = add({"k": "calc", "ins": [first], "kw": [], "kwn": [], "fs": _aff(rnd, 1)})
            b = add({"k": "calc", "ins": [a], "kw": [], "kwn": [], "fs": _aff(rnd, 1)})
            if rnd.random() < 0.3:
                b = add({"k": rnd.choice(["calc", "tcalc"]), "ins": [b], "kw": [], "kwn": [], "fs": _aff(rnd, 1)})
            ins = [b, a] if how == "diamond_ba" else [a, b]
            if rnd.random() < 0.25:
                ins.append(value())
            c = add({"k": "calc", "ins": ins, "kw": [], "kwn": [], "fs": _aff(rnd, len(ins))})
            if rnd.random() < 0.3:
                c = add({"k": "calc", "ins": [c, a] if rnd.random() < 0.5 else [c], "kw": [], "kwn": [], "fs": _aff(rnd, 2)})
                items[c]["fs"] = _aff(rnd, len(items[c]["ins"]))
            return c
        first = [parent, "vn"] if how.startswith("vn") else parent
        depth = rnd.randint(1, 3)
        kinds = {"cached": ["calc"], "trans": ["tcalc", "tid"], "vn_cached": ["calc"], "vn_mixed": ["calc", "tcalc"],
                 "mixed": ["calc", "calc", "tcalc", "tid"]}[how]
        if how in ("cached", "vn_cached", "mixed", "vn_mixed"):
            # at least one cached node on the way
            c = node("calc", [first] + ([value()] if rnd.random() < 0.3 else []))
            return chain(c, depth - 1, kinds)
        return chain(first, depth, kinds)

    def dvar(params, transient=False, role=None):
        i = add({"k": "var", "weak": False, "role": role if role is not None else rnd.choice(["", "", "obs", "par"]),
                 "v": rnd.randint(-50, 50), "dist": dist(params, transient)})
        dvars.append(i)
        return i

    hows = {"chain_cached": ["cached"], "direct": ["direct"], "value_node_read": ["vn_cached", "vn_mixed"],
            "transient_chain": ["trans"], "diamond": ["diamond_ba", "diamond_ba", "diamond_ab"],
            "mixed": ["cached", "direct", "vn_cached", "trans", "mixed", "vn_mixed", "diamond_ba", "diamond_ab"]}
    how_pool = hows.get(stratum, hows["mixed"])

    nlev = rnd.randint(2, 3 if quick else 5)
    # root variable; sometimes with a deep parameter chain (moves its Dist late in insertion order)
    rp = [value()]
    if rnd.random() < 0.5:
        rp = [chain(rp[0], rnd.randint(1, 3), ["calc", "tcalc"])]
    if rnd.random() < 0.4:
        rp.append(value())
    dvar(rp, transient=rnd.random() < 0.1)
    for lvl in range(1, nlev):
        nparents = 1 if rnd.random() < 0.7 else min(2, len(dvars))
        parents = rnd.sample(dvars, nparents)
        params = [param_for(p, rnd.choice(how_pool)) for p in parents]
        if rnd.random() < 0.35:
            params.append(value())
        rnd.shuffle(params)
        dvar(params[:3], transient=rnd.random() < 0.1)
        if rnd.random() < 0.25:       # a second root
            dvar([value()])
    # extras
    nextra = rnd.randint(0, 3 if quick else 6)
    for _ in range(nextra):
        r = rnd.random()
        anyv = rnd.choice(dvars)
        if r < 0.3:
            node(rnd.choice(["calc", "tcalc"]), [anyv] + ([rnd.choice(dvars)] if rnd.random() < 0.4 else []))
        elif r < 0.45:
            add({"k": "var", "weak": False, "role": "", "v": rnd.randint(-50, 50)})           # no distribution
        elif r < 0.6:
            # stand-alone Dist (not part of a Var: never simulated)
            add({"k": rnd.choice(["dist", "tdist"]), "ins": [rnd.choice(dvars)], "kw": [], "kwn": [], "at": None,
                 "atv": rnd.randint(-50, 50), "fs": _aff(rnd, 2)})
        elif r < 0.8:
            # weak Var without distribution depending on a drawn Var
            add({"k": "var", "weak": True, "role": "", "ins": [anyv], "kw": [], "kwn": [], "fs": _aff(rnd, 1),
                 "tvalue": rnd.random() < 0.2})
        else:
            value()
    if stratum in ("weak_skipped", "weak_raises"):
        p = rnd.choice(dvars)
        add({"k": "var", "weak": True, "role": "", "ins": [p], "kw": [], "kwn": [], "fs": _aff(rnd, 1),
             "tvalue": rnd.random() < 0.2, "dist": dist([value()])})
    if stratum == "logprob_param":
        # a parameter computed from the log-probability node of another variable (not in the default stream)
        x = dvars[0]
        d2 = add({"k": "dist", "ins": [value()], "kw": [], "kwn": [], "at": x, "atv": 0, "fs": _aff(rnd, 2)})
        c = node("calc", [d2])
        dvar([c])
    return {"items": shuffle_items(rnd, items) if rnd.random() < 0.6 else items}


def _refs(it):
    out = list(it.get("ins", [])) + list(it.get("kw", []))
    if it.get("at") is not None:
        out.append(it["at"])
    if it.get("dist"):
        out += list(it["dist"]["ins"]) + list(it["dist"]["kw"])
    return out


def shuffle_items(rnd, items):
    """a random topological order of the item DAG (insertion order changes networkx' sort)"""
    n = len(items)
    deps = [{(r[0] if isinstance(r, list) else r) for r in _refs(it)} for it in items]
    done, order = set(), []
    while len(order) < n:
        ready = [i for i in range(n) if i not in done and deps[i] <= done]
        i = rnd.choice(ready)
        done.add(i)
        order.append(i)
    new = {old: k for k, old in enumerate(order)}

    def mp(r):
        return [new[r[0]], r[1]] if isinstance(r, list) else new[r]

    out = []
    for old in order:
        it = json.loads(json.dumps(items[old]))
        for key in ("ins", "kw"):
            if key in it:
                it[key] = [mp(r) for r in it[key]]
        if it.get("at") is not None:
            it["at"] = mp(it["at"])
        if it.get("dist"):
            it["dist"]["ins"] = [mp(r) for r in it["dist"]["ins"]]
            it["dist"]["kw"] = [mp(r) for r in it["dist"]["kw"]]
        out.append(it)
    return out


# ---------------------------------------------------------------------------------------------
# driving the real model
# ---------------------------------------------------------------------------------------------
def seed_int(key) -> int:
    return (int(key[0]) * 4294967296 + int(key[1])) % P


class Sim:
    """real model + sampling harness distributions"""

    def __init__(self, spec, order=None, oseed=0):
        self.real = Real(spec, order, oseed)
        real = self.real
        lsl = real.lsl
        self.draws = []            # (dist position, seed int, parameter values seen, sample_shape)
        self.dists = []
        varnames = sorted(real.model.vars)
        self.varnames = varnames
        n = len(real.nodes)
        for k, nd in enumerate(real.nodes):
            if not isinstance(nd, lsl.Dist) or nd.at is None:
                continue
            params = [real.pos[x.name] for x in list(nd.inputs) + list(nd.kwinputs.values())]
            at = real.pos[nd.at.name]
            is_proxy = type(nd.at).__name__ == "VarValue" or (nd.var is not None and nd.at is nd.var.var_value_node)
            tgt = real.pos[nd.at.inputs[0].name] if is_proxy else at
            samp = None
            name = real.order[k]
            if name.startswith("v") and name.endswith("_log_prob"):
                samp = spec["items"][int(name[1:].split("_")[0])]["dist"].get("samp")
            if samp is None:
                samp = ["aff", 0, [1] * (len(params) + 1)]
            d = {"node": k, "params": params, "at": at, "tgt": tgt, "hasvar": nd.var is not None,
                 "names": [nd.name, nd.at.name] + ([nd.var.name] if nd.var is not None else []),
                 "name_ids": [k, at] + ([n + varnames.index(nd.var.name)] if nd.var is not None else []),
                 "samp": samp}
            self.dists.append(d)
            self._install(nd, len(self.dists) - 1, samp)

    def _install(self, nd, j, samp):
        cls = nd.distribution
        outer = self

        def sample(self_, sample_shape=(), seed=None):
            si = seed_int(seed)
            outer.draws.append((j, si, list(self_.vals), tuple(int(x) for x in tuple(sample_shape))))
            return apply_fs(samp, list(self_.vals) + [si])
        cls.sample = sample
        cls.event_shape = ()
        cls.batch_shape = ()

    def name_id(self, name):
        real = self.real
        if name in real.pos:
            return real.pos[name]
        if name in self.varnames:
            return len(real.nodes) + self.varnames.index(name)
        return len(real.nodes) + len(self.varnames) + 7


def run_case(spec, order, pre_ops, skip, seed, oseed=0, twin=True, rerun=False):
    import jax
    sim = Sim(spec, order, oseed)
    real = sim.real
    snaps = []
    auto = True
    for op in pre_ops:
        real.apply(op, snaps)
        if op[0] == "auto":
            auto = bool(op[1])
    pre = real.observe()
    key = jax.random.PRNGKey(seed)
    # literal reading of the skip rule
    for d in sim.dists:
        d["sel"] = bool(d["hasvar"] and not any(nm in skip for nm in d["names"]))
    nsel = sum(1 for d in sim.dists if d["sel"])
    seeds = [seed_int(k) for k in jax.random.split(key, nsel)] if nsel else []
    err, errtxt = False, ""
    try:
        real.model.simulate(key, skip=list(skip))
    except Exception as ex:
        err, errtxt = True, repr(ex)[:200]
    post = real.observe()
    real.model.update()
    upd = real.observe()
    c = {"spec": spec, "order": real.order, "kinds": real.kinds, "ins": real.ins, "fs": real.fs,
         "ext0": None, "pre_ops": pre_ops, "skip": list(skip), "skip_ids": [sim.name_id(s) for s in skip],
         "seed": seed, "seeds": seeds, "auto": auto,
         "dists": sim.dists, "draw_order": [d[0] for d in sim.draws],
         "draws": [list(d) for d in sim.draws],
         "pre": {"vals": pre[0], "flags": pre[1]}, "err": err, "errtxt": errtxt,
         "post": {"vals": post[0], "flags": post[1]}, "upd": {"vals": upd[0], "flags": upd[1]}}
    if twin:
        t = run_case(spec, real.order, pre_ops + [["auto", not auto]], skip, seed, oseed, twin=False)
        c["twin"] = {"err": t["err"], "vals": t["post"]["vals"], "draw_order": t["draw_order"]}
    if rerun:
        t = run_case(spec, real.order, pre_ops, skip, seed, oseed, twin=False)
        c["rerun"] = {"err": t["err"], "vals": t["post"]["vals"], "flags": t["post"]["flags"]}
    return c


def initial_ext(spec, order, oseed=0):
    real = Real(spec, order, oseed)
    v, _ = real.observe()
    return [x if k == "V" else 0 for x, k in zip(v, real.kinds)], real


# ---------------------------------------------------------------------------------------------
# the property, read literally on the observations
# ---------------------------------------------------------------------------------------------
def oracle(c):
    if c.get("anomaly"):
        return c["anomaly"]
    if c.get("tfd"):
        return c.get("rfail")
    pg = PG(c["kinds"], c["ins"], c["fs"])
    n = pg.n
    names = c["order"]
    for k in range(n):
        if any(i >= k for i in c["ins"][k]):
            return "harness: order is not topological"
    dists = c["dists"]
    sel = [j for j, d in enumerate(dists) if d["sel"]]
    order = c["draw_order"]
    pre, post, upd = c["pre"], c["post"], c["upd"]
    where = f"[nodes: {dict(enumerate(names))}; skip={c['skip']}; auto_update={c['auto']}; seed={c['seed']}]"

    def vname(d):
        return d["names"][-1] if d["hasvar"] else d["names"][0]

    unsettable = [j for j in sel if pg.kinds[dists[j]["tgt"]] != "V"]
    if len(set(order)) != len(order):
        return f"a distribution was sampled twice: {order} {where}"
    if not set(order) <= set(sel):
        bad = [vname(dists[j]) for j in order if j not in sel]
        return f"simulate drew the skipped / non-variable distributions {bad} {where}"
    if bool(unsettable) != c["err"]:
        return (f"simulate {'raised ' + c['errtxt'] if c['err'] else 'did not raise'}, selected variables without a value setter: "
                f"{[vname(dists[j]) for j in unsettable]} {where}")
    if not c["err"] and set(order) != set(sel):
        miss = [vname(dists[j]) for j in sel if j not in order]
        return f"simulate did not draw the non-skipped variables {miss} {where}"
    for i, (j, si, seen, shape) in enumerate(c["draws"]):
        if i >= len(c["seeds"]) or si != c["seeds"][i]:
            return (f"draw #{i} ({vname(dists[j])}) did not receive jax.random.split(seed, {len(sel)})[{i}] {where}")
        if tuple(shape) != ():
            return f"draw #{i} ({vname(dists[j])}) was asked for sample_shape {shape}, the current value is a scalar {where}"
    fin = post["vals"]
    sc = pg.scratch(fin)
    done = order[:-1] if c["err"] else order
    for i, j in enumerate(done):
        d = dists[j]
        pv = [sc[p] for p in d["params"]]
        expect = apply_fs(d["samp"], pv + [c["seeds"][i]])
        if fin[d["tgt"]] != expect:
            seen = c["draws"][i][2]
            return (f"variable {vname(d)} holds {fin[d['tgt']]} after simulate; its distribution evaluated at the newly drawn "
                    f"values of its ancestors (parameter nodes {[names[p] for p in d['params']]} = {pv} from scratch) draws "
                    f"{expect} from its seed; it was drawn from the parameter values {seen} "
                    f"(visiting order {[vname(dists[q]) for q in order]}) {where}")
    tgts = {dists[j]["tgt"] for j in done}
    for k in range(n):
        if pg.kinds[k] == "V" and k not in tgts and fin[k] != pre["vals"][k]:
            return f"simulate changed {names[k]} ({pre['vals'][k]} -> {fin[k]}), which is skipped / not a drawn variable {where}"
    for k in range(n):
        if not post["flags"][k] and fin[k] != sc[k]:
            return (f"after simulate node {names[k]} reports itself up to date but holds {fin[k]}, from scratch {sc[k]} {where}")
    if c["auto"] and any(post["flags"]) and not c["err"] and order:
        return f"auto_update on, but after simulate nodes {[names[k] for k in range(n) if post['flags'][k]]} are outdated {where}"
    if any(upd["flags"]):
        return f"after simulate + update() nodes {[names[k] for k in range(n) if upd['flags'][k]]} are outdated {where}"
    for k in range(n):
        if upd["vals"][k] != sc[k]:
            return (f"after simulate + update() node {names[k]} holds {upd['vals'][k]}, from scratch {sc[k]} {where}")
    t = c.get("twin")
    if t:
        if t["err"] != c["err"]:
            return f"simulate raises with auto_update={not c['auto']} but not with {c['auto']} (or vice versa) {where}"
        for k in range(n):
            if pg.kinds[k] == "V" and t["vals"][k] != fin[k]:
                return (f"the drawn value of {names[k]} depends on the auto_update setting: {fin[k]} with auto_update={c['auto']}, "
                        f"{t['vals'][k]} with {not c['auto']} {where}")
    r = c.get("rerun")
    if r and (r["err"] != c["err"] or r["vals"] != fin or r["flags"] != post["flags"]):
        return f"two runs with the same seed differ {where}"
    return None


def is_logprob_class(c):
    """a parameter of a Var's distribution has a Dist node among its ancestors"""
    if not c.get("kinds") or c.get("tfd"):
        return False
    pg = PG(c["kinds"], c["ins"], c["fs"])
    dn = {d["node"] for d in c["dists"]}
    for d in c["dists"]:
        if d["hasvar"]:
            for p in d["params"]:
                if p in dn or (pg.anc[p] & dn):
                    return True
    return False


def klass(c):
    return KLASS_LOGPROB if is_logprob_class(c) else None


# ---------------------------------------------------------------------------------------------
# cases
# ---------------------------------------------------------------------------------------------
STRATA = ["chain_cached", "value_node_read", "diamond", "direct", "transient_chain", "mixed", "skip", "weak_skipped",
          "weak_raises", "dirty_start", "diamond", "mixed"]
if WITH_LOGPROB:
    STRATA = STRATA + ["logprob_param"]


def gen_pre_ops(rnd, pg: PG, stratum, auto_final):
    n = pg.n
    V = [k for k in range(n) if pg.kinds[k] == "V"]
    Vd = [k for k in V if pg.desc[k]] or V
    ops = []

    def assign():
        return ["assign", rnd.choice(Vd if rnd.random() < 0.8 else V), rnd.randint(-99, 99), rnd.choice(["node", "var"])]

    if stratum == "dirty_start":
        ops.append(["auto", False])
        for _ in range(rnd.randint(1, 3)):
            ops.append(assign())
        if rnd.random() < 0.3:
            ops.append(["update", [rnd.randrange(n)]])
    elif rnd.random() < 0.25:
        ops += c01.gen_ops(rnd, pg, rnd.randint(1, 6), "random")
    else:
        for _ in range(rnd.randint(0, 3)):
            ops.append(assign() if rnd.random() < 0.8 else ["auto", rnd.random() < 0.5])
        if rnd.random() < 0.3:
            ops.append(["update", []])
    ops.append(["auto", auto_final])
    return ops


def gen_skip(rnd, sim: Sim, stratum):
    real = sim.real
    dv = [d for d in sim.dists if d["hasvar"]]
    weak = [d for d in dv if real.kinds[d["tgt"]] != "V"]
    skip = []
    if stratum == "weak_skipped" or (weak and stratum != "weak_raises"):
        for d in weak:
            skip.append(d["names"][rnd.choice([0, 1, 2, 2])])
    strong = [d for d in dv if d not in weak]
    if stratum == "skip" or rnd.random() < 0.3:
        for d in strong:
            r = rnd.random()
            if r < 0.3:
                skip.append(d["names"][rnd.choice([0, 1, 2])])      # Dist node name / at name / Var name
            elif r < 0.4:
                skip.append(real.order[d["tgt"]])                    # name of the value node: not looked at
        if rnd.random() < 0.3:
            skip.append("no_such_name")
        if rnd.random() < 0.3:
            skip.append(rnd.choice(real.order))
    rnd.shuffle(skip)
    return skip


def make_case(rnd, quick, stratum, auto_final, rerun=False):
    for _try in range(50):
        spec = gen_spec(rnd, stratum, quick)
        oseed = rnd.randrange(2 ** 30)
        try:
            sim = Sim(spec, None, oseed)
        except GraphAnomaly as ex:
            return {"anomaly": str(ex), "spec": spec, "stratum": stratum}
        except Exception as ex:
            import traceback
            return {"anomaly": f"building the model raises {ex!r}: " + traceback.format_exc().strip().splitlines()[-3].strip(),
                    "spec": spec, "stratum": stratum}
        real = sim.real
        pg = PG(real.kinds, real.ins, real.fs)
        pre_ops = gen_pre_ops(rnd, pg, stratum, auto_final)
        skip = gen_skip(rnd, sim, stratum)
        seed = rnd.randrange(2 ** 31)
        c = run_case(spec, real.order, pre_ops, skip, seed, oseed, twin=True, rerun=rerun)
        c["stratum"] = stratum
        c["ext0"] = initial_ext(spec, real.order, oseed)[0]
        if is_logprob_class(c) and stratum != "logprob_param":
            continue
        return c
    raise RuntimeError("could not generate a buildable hierarchical model")


def _v(v):
    return {"k": "value", "v": v, "data": False}


CORPUS = [
    # F6: parent x, cached Calc of x, child y ~ D(calc); auto-update off
    {"spec": {"items": [_v(3),
                        {"k": "var", "weak": False, "role": "par", "v": 1,
                         "dist": {"ins": [0], "kw": [], "kwn": [], "fs": ["aff", 1, [2, 3]], "transient": False, "samp": ["aff", 500, [7, 11]]}},
                        {"k": "calc", "ins": [1], "kw": [], "kwn": [], "fs": ["aff", 5, [3]]},
                        {"k": "var", "weak": False, "role": "obs", "v": 2,
                         "dist": {"ins": [2], "kw": [], "kwn": [], "fs": ["aff", 2, [3, 4]], "transient": False, "samp": ["aff", 9, [5, 13]]}}]},
     "pre": [["auto", False]], "skip": [], "seed": 17},
    # 94cdd67: a Calc reads the value node of x directly; x's Dist sits behind a deep parameter chain
    {"spec": {"items": [_v(4),
                        {"k": "calc", "ins": [0], "kw": [], "kwn": [], "fs": ["aff", 1, [1]]},
                        {"k": "calc", "ins": [1], "kw": [], "kwn": [], "fs": ["aff", 2, [1]]},
                        {"k": "calc", "ins": [2], "kw": [], "kwn": [], "fs": ["aff", 3, [1]]},
                        {"k": "var", "weak": False, "role": "par", "v": 1,
                         "dist": {"ins": [3], "kw": [], "kwn": [], "fs": ["aff", 1, [2, 3]], "transient": False, "samp": ["aff", 500, [7, 11]]}},
                        {"k": "calc", "ins": [[4, "vn"]], "kw": [], "kwn": [], "fs": ["aff", 5, [3]]},
                        {"k": "var", "weak": False, "role": "obs", "v": 2,
                         "dist": {"ins": [5], "kw": [], "kwn": [], "fs": ["aff", 2, [3, 4]], "transient": False, "samp": ["aff", 9, [5, 13]]}}]},
     "pre": [], "skip": [], "seed": 5},
    # skipping by the name of the proxy node; three levels
    {"spec": {"items": [_v(3),
                        {"k": "var", "weak": False, "role": "par", "v": 1,
                         "dist": {"ins": [0], "kw": [], "kwn": [], "fs": ["aff", 1, [2, 3]], "transient": False, "samp": ["aff", 1, [2, 3]]}},
                        {"k": "tcalc", "ins": [1], "kw": [], "kwn": [], "fs": ["aff", 5, [3]]},
                        {"k": "var", "weak": False, "role": "", "v": 2,
                         "dist": {"ins": [2], "kw": [0], "kwn": ["b"], "fs": ["aff", 2, [3, 4, 5]], "transient": True, "samp": ["aff", 9, [5, 6, 13]]}},
                        {"k": "calc", "ins": [3, 1], "kw": [], "kwn": [], "fs": ["aff", 5, [3, 2]]},
                        {"k": "var", "weak": False, "role": "obs", "v": 7,
                         "dist": {"ins": [4], "kw": [], "kwn": [], "fs": ["aff", 2, [3, 4]], "transient": False, "samp": ["aff", 4, [5, 3]]}}]},
     "pre": [["auto", False]], "skip": ["v3_var_value"], "seed": 99},
]


CORPUS.append(
    # seeded C17-4: x -> A -> B, C = f(B, A) (descendant listed before its ancestor), y ~ D(C); auto-update off
    {"spec": {"items": [_v(3),
                        {"k": "var", "weak": False, "role": "par", "v": 1,
                         "dist": {"ins": [0], "kw": [], "kwn": [], "fs": ["aff", 1, [2, 3]], "transient": False, "samp": ["aff", 500, [7, 11]]}},
                        {"k": "calc", "ins": [1], "kw": [], "kwn": [], "fs": ["aff", 5, [3]]},
                        {"k": "calc", "ins": [2], "kw": [], "kwn": [], "fs": ["aff", 7, [2]]},
                        {"k": "calc", "ins": [3, 2], "kw": [], "kwn": [], "fs": ["aff", 1, [100, 1]]},
                        {"k": "var", "weak": False, "role": "obs", "v": 2,
                         "dist": {"ins": [4], "kw": [], "kwn": [], "fs": ["aff", 2, [3, 4]], "transient": False, "samp": ["aff", 9, [5, 13]]}}]},
     "pre": [["auto", False]], "skip": [], "seed": 23})


def corpus_cases():
    out = []
    for e in CORPUS:
        c = run_case(e["spec"], None, e["pre"], e["skip"], e["seed"], 0, twin=True, rerun=True)
        c["ext0"] = initial_ext(e["spec"], c["order"], 0)[0]
        c["stratum"] = "corpus"
        out.append(c)
    return out


def features(c):
    f = []
    pg = PG(c["kinds"], c["ins"], c["fs"])
    dists = c["dists"]
    drawn = [dists[j] for j in c["draw_order"]]
    tg = {d["tgt"]: d for d in drawn}
    for d in drawn:
        for p in d["params"]:
            anc = pg.anc[p] | {p}
            ups = [t for t in tg if t in anc and t != d["tgt"]]
            if ups:
                f.append("child_of_drawn_parent")
                between = set()
                for t in ups:
                    between |= {k for k in anc if t in pg.anc[k]}
                if any(pg.kinds[k] == "C" for k in between):
                    f.append("cached_node_between")
                if any(pg.kinds[k] == "T" and not c["order"][k].endswith("_var_value") for k in between):
                    f.append("transient_node_between")
                for k in between:
                    ck = [i for i in pg.ins[k] if i in between and pg.kinds[i] == "C"]
                    for x in range(len(ck)):
                        for y in range(x + 1, len(ck)):
                            if pg.kinds[k] == "C" and ck[y] in pg.anc[ck[x]]:
                                f.append("diamond_descendant_listed_before_ancestor")
                            elif pg.kinds[k] == "C" and ck[x] in pg.anc[ck[y]]:
                                f.append("diamond_ancestor_listed_first")
                for t in ups:
                    # a node on the way reads the value node directly (not through the proxy)
                    if any(t in pg.ins[k] and not c["order"][k].endswith("_var_value") for k in between):
                        f.append("value_node_read_directly")
    return sorted(set(f))


def generate(ctx):
    import logging
    logging.getLogger("liesel").setLevel(logging.ERROR)
    rnd = random.Random(ctx.seed)
    ncases = 240 if ctx.quick else 2400
    cases = corpus_cases()
    i = 0
    while len(cases) < ncases:
        stratum = STRATA[i % len(STRATA)]
        auto_final = (i // len(STRATA)) % 2 == 0 if stratum != "dirty_start" else False
        if stratum in ("chain_cached", "value_node_read", "diamond") and (i // len(STRATA)) % 3 != 2:
            auto_final = False
        cases.append(make_case(rnd, ctx.quick, stratum, auto_final, rerun=(i % 5 == 0)))
        i += 1
    cases += tfd_checks(ctx)
    # real-tfd layer: array-valued models, every node compared with a from-scratch rebuild at the drawn values
    tcases = c17_tfd.corpus_cases()
    ntfd = 66 if ctx.quick else 420
    trnd = random.Random(ctx.seed + 17)
    j = 0
    while len(tcases) < ntfd:
        tcases.append(c17_tfd.make_case(trnd, c17_tfd.STRATA[j % len(c17_tfd.STRATA)]))
        j += 1
    tdist = set()
    for c in tcases:
        ctx.hist("tfd.stratum." + c["stratum"])
        ctx.hist("tfd.entry." + ("some_nodes_outdated" if c.get("entry_outdated") else "coherent"))
        ctx.hist("tfd.auto_update." + ("on" if c.get("auto", True) else "off"))
        if any(v.get("dist") and not v["dist"]["per_obs"] for v in c["spec"]["vars"]):
            ctx.hist("tfd.has_per_obs_false_dist")
        if any(op[0] == "set" and c17_tfd._np_shape(op[2]) != c17_tfd.shapes_of(c["spec"])[op[1]] for op in c["ops"]):
            ctx.hist("tfd.value_shapes_changed_before_simulate")
        ctx.hist("tfd.draws", len(c.get("draws", [])))
        tdist.add(json.dumps([c["spec"], c["ops"], c["skip"], c["seed"]]))
    ctx.count(len(tcases), len(tdist))
    cases += tcases
    distinct = set()
    ndraws = 0
    for c in cases:
        if c.get("tfd"):
            continue
        if c.get("anomaly"):
            ctx.hist("tfd_or_anomaly")
            continue
        ctx.hist("stratum." + c["stratum"])
        ctx.hist("auto_update." + ("on" if c["auto"] else "off"))
        ctx.hist("simulate." + ("raises" if c["err"] else "ok"))
        ctx.hist("start." + ("some_nodes_outdated" if any(c["pre"]["flags"]) else "clean"))
        nsel = sum(1 for d in c["dists"] if d["sel"])
        nd = sum(1 for d in c["dists"] if d["hasvar"])
        ctx.hist("drawn_vars." + (str(nsel) if nsel < 4 else ">=4"))
        if nsel < nd:
            ctx.hist("some_variable_skipped")
        for f in features(c):
            ctx.hist("graph." + f)
        if c["auto"] is False and "cached_node_between" in features(c):
            ctx.hist("F6_stratum.auto_off_cached_between")
        if c["auto"] is False and "diamond_descendant_listed_before_ancestor" in features(c):
            ctx.hist("diamond_stratum.auto_off_descendant_first")
        n = len(c["kinds"])
        ctx.hist("nodes." + ("<=12" if n <= 12 else "13-20" if n <= 20 else ">=21"))
        ndraws += len(c["draw_order"])
        distinct.add(json.dumps([c["kinds"], c["ins"], c["pre_ops"], c["skip_ids"], c["seed"]]))
    ctx.count(len([c for c in cases if not c.get("anomaly") and not c.get("tfd")]), len(distinct))
    ctx.hist("draws_total", ndraws)
    ctx.cov["rule"] = ("one evaluation = one simulate() call on a real model with all node values/flags compared before, after and "
                       "after update(); distinct = distinct (graph, history, skip set, seed); forced strata in round robin")
    for c in cases[:2] + cases[len(CORPUS):len(CORPUS) + 2]:
        if not c.get("anomaly") and not c.get("tfd"):
            ctx.sample({"kinds": "".join(c["kinds"]), "ins": c["ins"], "pre_ops": c["pre_ops"], "skip": c["skip"],
                        "drawn": [c["dists"][j]["names"][-1] for j in c["draw_order"]], "auto": c["auto"]})
    for c in tcases[:1] + tcases[len(c17_tfd.CORPUS):len(c17_tfd.CORPUS) + 1]:
        ctx.sample({"tfd_model": c["spec"], "ops": c["ops"], "skip": c["skip"], "drawn": [d["var"] for d in c.get("draws", [])]})
    ctx.tested_not_proved += [
        "real-tfd layer (generated array-valued models of tfd.Normal / MultivariateNormalDiag variables, per_obs True/False, "
        "keyword / positional parameters, Calc / TransientCalc / weak-Var intermediates, entry states coherent / outdated / "
        "outdated after shape-changing assignments, both auto_update settings): after simulate every node that reports itself up to "
        "date, and after update() EVERY node and model.state entry, is compared (shape and value) with a model rebuilt from scratch "
        "at the drawn values; every drawn value is compared with the from-scratch distribution sampled at split(key, n)[i]; shapes "
        "are compared with the values current at the call.  tfp's sampling law shape(sample(sh)) = sh ++ batch ++ event and the "
        "numerical log-densities are library behaviour (hypothesis draw_shape of C17_shape_preserved_stale); the recorded "
        "sample shapes are checked against the model's sample_shape by Coq (shapes_ok)",
        "jax.random.split(seed, n)[i] reaches the i-th visited distribution: compared by value on every draw",
        "the visiting order (Model._simulation_nodes, networkx) is an input of the model; its validity (order_okb) is "
        "checked by Coq on every case, the theorem C17_sim_graph_order ties it to the simulation graph of the code",
        "tfp's Distribution.sample is an arbitrary function (Section variable) in the theorems; in the correspondence it is "
        "an integer function written by the harness",
    ]
    ctx.assume += [
        "wf g (checked per case by wfb); the descriptions of the Dist nodes fit the graph (dinfo_okb, per case)",
        "the visited variables have a value setter (strong Vars); otherwise simulate raises (C17_error; stratum weak_raises)",
        "the visiting order is valid: no later-drawn (or the same) variable is an ancestor of a parameter of an earlier "
        "distribution, no variable drawn twice (order_okb per case)",
        "node functions and samplers are deterministic functions of their arguments",
    ]
    if not WITH_LOGPROB:
        ctx.assume.append("no parameter of a distribution depends on the log-probability (Dist) node of another variable "
                          "(models of that class are outside the generated stream: C17_logprob_param_refuted, notes/C17.md)")
    return cases


# ---------------------------------------------------------------------------------------------
# real tfd families: shapes, determinism, skipping (tests)
# ---------------------------------------------------------------------------------------------
def tfd_checks(ctx):
    import jax
    import jax.numpy as jnp
    import numpy as np
    import liesel.model as lsl
    import tensorflow_probability.substrates.jax.distributions as tfd
    out = []

    def fail(msg, script):
        out.append({"anomaly": msg, "tfd_script": script, "stratum": "tfd"})

    def build(auto, via):
        mu = lsl.Var(jnp.zeros(()), lsl.Dist(tfd.Normal, loc=1000.0, scale=1.0), name="mu")
        if via == "calc":
            loc = lsl.Calc(lambda m: m + 0.0, mu)
        elif via == "vn":
            loc = lsl.Calc(lambda m: m + 0.0, mu.value_node)
        else:
            loc = mu
        y = lsl.Var(jnp.zeros((5, 3)), lsl.Dist(tfd.Normal, loc=loc, scale=jnp.ones(3)), name="y")       # sample (5,), batch (3,)
        z = lsl.Var(jnp.zeros((4, 2)), lsl.Dist(tfd.MultivariateNormalDiag, loc=jnp.zeros(2), scale_diag=jnp.ones(2)), name="z")
        w = lsl.Var(jnp.zeros((2, 5, 3)), lsl.Dist(tfd.Normal, loc=y, scale=1.0), name="w")              # sample (2,), batch (5, 3)
        s = lsl.Var(jnp.ones(()), lsl.Dist(tfd.Normal, loc=0.0, scale=1.0), name="s")
        gb = lsl.GraphBuilder()
        gb.add(mu, y, z, w, s)
        m = gb.build_model()
        m.auto_update = auto
        return m

    n = 0
    for auto in (True, False):
        for via in ("direct", "calc", "vn"):
            script = f"build(auto_update={auto}, y ~ Normal(loc={via}(mu), ...)); simulate(PRNGKey(3), skip=['s'])"
            m = build(auto, via)
            before = {k: np.asarray(v.value) for k, v in m.vars.items()}
            n += 1
            try:
                m.simulate(jax.random.PRNGKey(3), skip=["s"])
            except Exception as ex:
                fail(f"simulate raises {ex!r:.300} on a model of tfd.Normal / MultivariateNormalDiag variables whose current values "
                     f"have shapes {dict((k, v.shape) for k, v in before.items())} [{script}]", script)
                continue
            after = {k: np.asarray(v.value) for k, v in m.vars.items()}
            bad_shape = [k for k in before if before[k].shape != after[k].shape]
            if bad_shape:
                k = bad_shape[0]
                fail(f"simulate changed the shape of {k}: {before[k].shape} -> {after[k].shape} [{script}]", script)
                continue
            if float(after["s"]) != float(before["s"]):
                fail(f"skipped variable s changed [{script}]", script)
            for k in ("mu", "y", "z", "w"):
                if np.array_equal(before[k], after[k]):
                    fail(f"variable {k} was not drawn [{script}]", script)
            if abs(float(after["y"].mean()) - float(after["mu"])) > 5.0:
                fail(f"child y (mean {float(after['y'].mean()):.2f}) is not drawn around its freshly drawn parent mu = "
                     f"{float(after['mu']):.2f} [{script}]", script)
            m2 = build(auto, via)
            m2.simulate(jax.random.PRNGKey(3), skip=["s"])
            for k in after:
                if not np.array_equal(after[k], np.asarray(m2.vars[k].value)):
                    fail(f"two runs with the same seed differ in {k} [{script}]", script)
            m3 = build(not auto, via)
            m3.simulate(jax.random.PRNGKey(3), skip=["s"])
            for k in after:
                if not np.allclose(after[k], np.asarray(m3.vars[k].value), rtol=1e-6, atol=1e-6):
                    fail(f"the drawn {k} depends on the auto_update setting [{script}]", script)
            m.update()
            lp = float(m.log_prob)
            m4 = build(True, via)
            for k in after:
                m4.vars[k].value = jnp.asarray(after[k])
            if abs(lp - float(m4.log_prob)) > 1e-3 * max(1.0, abs(lp)):
                fail(f"after simulate + update() log_prob = {lp}, a fresh model with the same values gives {float(m4.log_prob)} [{script}]", script)
    ctx.hist("tfd_models_checked", n)
    return out


# ---------------------------------------------------------------------------------------------
# emission
# ---------------------------------------------------------------------------------------------
def fs_lit(fs):
    if fs[0] == "aff":
        return f"(FAff {zlit(fs[1])} {lst(zlit(x) for x in fs[2])})"
    return {"id": "FId", "sum": "FSum"}[fs[0]]


def dinfo_lit(d):
    return (f"(mkD {natlit(d['node'])} {lst(natlit(p) for p in d['params'])} {natlit(d['at'])} {natlit(d['tgt'])} "
            f"{blit(d['hasvar'])} {lst(natlit(x) for x in d['name_ids'])} {fs_lit(d['samp'])})")


def case_lit(c):
    g = lst(node_lit(k, i, f) for k, i, f in zip(c["kinds"], c["ins"], c["fs"]))
    pre_ops = lst(op_lit(op) for op in c["pre_ops"])
    z = lambda l: lst(zlit(v) for v in l)
    b = lambda l: lst(blit(v) for v in l)
    return (f"(mkC17 {g}\n   {z(c['ext0'])}\n   {pre_ops}\n   {lst(dinfo_lit(d) for d in c['dists'])}\n   "
            f"{lst(natlit(j) for j in c['draw_order'])} {lst(natlit(s) for s in c['skip_ids'])} {z(c['seeds'])}\n   "
            f"{z(c['pre']['vals'])} {b(c['pre']['flags'])}\n   {blit(c['err'])}\n   "
            f"{z(c['post']['vals'])} {b(c['post']['flags'])}\n   {z(c['upd']['vals'])} {b(c['upd']['flags'])})")


def emit(ctx, cases):
    shards = []
    per = 60
    good = [i for i, c in enumerate(cases) if not c.get("anomaly") and not c.get("tfd")]
    rows, owners, lrows, lowners = [], [], [], []
    for i, c in enumerate(cases):
        if c.get("tfd"):
            for r in c.get("shape_rows") or []:
                rows.append(r)
                owners.append(i)
            for r in c.get("lp_rows") or []:
                lrows.append(r)
                lowners.append(i)
    nl = lambda l: lst(natlit(x) for x in l)
    if lrows:
        txt = (HEADER + "Definition rows : list lprow := "
               + lst(f"(mkLp {blit(r['per_obs'])} {nl(r['vs'])} {nl(r['e'])} {nl(r['obs'])})" for r in lrows)
               + ".\nLemma logprob_shapes_ok : forallb lprow_ok rows = true.\nProof. vm_compute. reflexivity. Qed.\n")
        shards.append((ctx.new_shard(txt, "logprob_shapes_tfd"), lowners))
    if rows:
        txt = (HEADER + "Definition rows : list shrow := "
               + lst(f"(mkSh {nl(r['vs'])} {nl(r['b'])} {nl(r['e'])} {nl(r['obs'])} {nl(r['final'])})" for r in rows)
               + ".\nLemma shapes_ok : forallb shrow_ok rows = true.\nProof. vm_compute. reflexivity. Qed.\n")
        shards.append((ctx.new_shard(txt, "shapes_tfd"), owners))
    for k in range(0, len(good), per):
        idxs = good[k:k + per]
        defs = [f"Definition c{j} : c17case :=\n  {case_lit(cases[i])}." for j, i in enumerate(idxs)]
        small = [j for j, i in enumerate(idxs) if len(cases[i]["kinds"]) <= LIT_MAX_NODES]
        txt = HEADER + "\n".join(defs) + f"""
Definition cases : list c17case := {lst(f'c{j}' for j in range(len(idxs)))}.
Definition small_cases : list c17case := {lst(f'c{j}' for j in small)}.
Lemma shard_ok : forallb agrees cases = true.
Proof. vm_compute. reflexivity. Qed.
Lemma shard_lit_ok : forallb agrees_lit small_cases = true.
Proof. vm_compute. reflexivity. Qed.
"""
        shards.append((ctx.new_shard(txt), idxs))
    return shards


VERDICTS = {1: "graph not well-formed", 2: "description of a Dist node does not fit the graph",
            3: "state before simulate differs (C01 operations)", 4: "the set of drawn distributions is not the selected set",
            5: "raised / not raised differs", 6: "values of Value nodes after simulate differ from the model (RefreshInputs)",
            7: "a node reports itself up to date but does not show the from-scratch value",
            8: "state after update() differs", 9: "the visiting order is not valid (order_okb)",
            10: "the drawn values are not a joint ancestral sample (jointb)"}


def diagnose(ctx, path, idxs, cases):
    if "Lemma logprob_shapes_ok" in open(path).read():
        txt = open(path).read().split("Lemma logprob_shapes_ok")[0].replace("From LV Require Import", "From LV Require Import Base.ListAux", 1)
        ok, out = ctx.coq_eval(txt + "Eval vm_compute in (failing lprow_ok rows).\n")
        bad = sorted({idxs[j] for j in common.parse_nat_list(out) if j < len(idxs)})
        for i in bad:
            cases[i]["model_disagreement"] = ("the value cached by a Dist node does not have the shape of its function "
                                              "(per-observation log-probability, summed when per_obs is False): lprow_ok")
        return bad
    if "Lemma shapes_ok" in open(path).read():
        txt = open(path).read().split("Lemma shapes_ok")[0].replace("From LV Require Import", "From LV Require Import Base.ListAux", 1)
        ok, out = ctx.coq_eval(txt + "Eval vm_compute in (failing shrow_ok rows).\n")
        bad = sorted({idxs[j] for j in common.parse_nat_list(out) if j < len(idxs)})
        for i in bad:
            cases[i]["model_disagreement"] = "a recorded sample shape / final shape does not fit sample_shape of the model (shrow_ok)"
        return bad
    txt = open(path).read().split("Lemma shard_ok")[0]
    txt += "Eval vm_compute in (map verdict cases).\nEval vm_compute in (map (fun c => if fits_norefresh c then 1%nat else 0%nat) cases).\n"
    ok, out = ctx.coq_eval(txt)
    parts = out.split("\n     = ")
    vs = common.parse_nat_list(out)
    nr = []
    if out.count("= [") >= 2:
        nr = common.parse_nat_list(out[out.index("= [", out.index("= [") + 1) - 1:])
    bad = []
    for j, v in enumerate(vs):
        if v != 0 and j < len(idxs):
            c = cases[idxs[j]]
            c["model_verdict"] = v
            c["model_disagreement"] = VERDICTS.get(v, str(v))
            if v == 6 and j < len(nr) and nr[j] == 1:
                c["model_disagreement"] += "; they are the values of the NoRefresh variant (C17_stale_refuted, defect F6)"
            bad.append(idxs[j])
    return bad


def search(ctx, disagreeing):
    rnd = random.Random(ctx.seed + 1)
    found = []
    import time
    t0 = time.time()
    k = 0
    while not found and time.time() - t0 < (90 if ctx.quick else 300):
        c = make_case(rnd, True, STRATA[k % len(STRATA)], k % 2 == 0)
        k += 1
        r = oracle(c)
        if r:
            c["why"] = r
            found.append(c)
    return found


def replay(rp) -> int:
    import logging
    logging.getLogger("liesel").setLevel(logging.ERROR)
    body = rp["replay"]
    c = body.get("case", body)
    if isinstance(c, dict) and c.get("tfd") and "spec" in c:
        cc = c17_tfd.run(c["spec"], c["ops"], c["skip"], c["seed"])
        r = c17_tfd.check(cc)
        print("model:", json.dumps(c["spec"]))
        print("operations before simulate:", json.dumps(c["ops"]))
        print(f"simulate(PRNGKey({c['seed']}), skip={c['skip']}); draws:", [(d["var"], d["sample_shape"]) for d in cc["draws"]])
        print("shapes at the call:", {n: list(__import__("numpy").shape(v)) for n, v in cc["entry"].items()},
              "after:", {n: list(__import__("numpy").shape(v)) for n, v in cc["post_vars"].items()})
        if r:
            print("REPLAY FAILS:", r)
            return 1
        print("replay passes on the current tree")
        return 0
    if isinstance(c, dict) and c.get("tfd_script"):
        class _C:
            def hist(self, *a, **k):
                pass
        res = tfd_checks(_C())
        for r in res:
            print("REPLAY FAILS:", r["anomaly"])
        return 1 if res else 0
    if not isinstance(c, dict) or "spec" not in c or "pre_ops" not in c:
        ds = body.get("disagreeing_cases") or []
        if not ds:
            print("replay file names no concrete input (broken lemma only):", body.get("broken"))
            return 0
        c = ds[0]
    try:
        cc = run_case(c["spec"], c["order"], c["pre_ops"], c["skip"], c["seed"], 0, twin=True, rerun=True)
    except Exception as ex:
        print("REPLAY FAILS: building / driving the model raises", repr(ex))
        return 1
    print("nodes (position: name kind inputs):")
    for k, nme in enumerate(cc["order"]):
        print(f"  {k}: {nme} {cc['kinds'][k]} {cc['ins'][k]}")
    print("history before simulate:", cc["pre_ops"])
    print(f"simulate(PRNGKey({cc['seed']}), skip={cc['skip']})  raised={cc['err']} {cc['errtxt']}")
    print("draws (dist, seed int, parameter values seen, sample_shape):")
    for d in cc["draws"]:
        print("  ", cc["dists"][d[0]]["names"][-1], d[1:])
    print("before:", cc["pre"])
    print("after: ", cc["post"])
    print("after update():", cc["upd"])
    r = oracle(cc)
    if r:
        print("REPLAY FAILS:", r)
        return 1
    print("replay passes on the current tree")
    return 0
