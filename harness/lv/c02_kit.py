"""C02 kit: generated model programs, the real lsl.Model built from them, observations through the public
API, and an independent (numpy / scipy) evaluation of the joint log-density of a program."""
from __future__ import annotations

import math
import random
from fractions import Fraction

_jax_ready = False


def setup_jax():
    global _jax_ready
    if _jax_ready:
        return
    import jax
    jax.config.update("jax_enable_x64", True)
    _jax_ready = True


# ---------------------------------------------------------------------------------------------
# program descriptions (plain JSON)
# ---------------------------------------------------------------------------------------------
CONC = [1.0, 2.0, 3.0, 0.5, 1.5, 2.5]           # concentrations with a closed-form ln Gamma
PEN_DIMS = [3, 4, 5]


def dy(rnd, lo, hi, den=8):
    """dyadic rational in [lo, hi] as float"""
    return rnd.randint(int(lo * den), int(hi * den)) / den


def real_val(rnd):
    return dy(rnd, -3, 3)


def pos_val(rnd):
    return dy(rnd, 0.25, 4)


def gen_hier(rnd: random.Random, nvars: int, force: str | None = None) -> dict:
    """a hierarchy of scalar / vector / degenerate-multivariate distributions with weak intermediate
    variables, transformed variables, free distribution nodes, user-supplied total nodes"""
    vs: list[dict] = []
    reals: list[str] = []      # names of scalar real-valued vars usable as parameters
    poss: list[str] = []       # names of scalar positive vars
    vecs: dict[str, int] = {}  # vector vars usable as loc of a same-length observation

    def pref(kind):
        """a parameter: reference to an earlier var or a constant"""
        pool = poss if kind == "pos" else reals + poss
        if pool and rnd.random() < 0.65:
            return {"ref": rnd.choice(pool)}
        return {"const": pos_val(rnd) if kind == "pos" else real_val(rnd)}

    def conc():
        if poss and rnd.random() < 0.25:
            return {"ref": rnd.choice(poss)}
        return {"const": rnd.choice(CONC)}

    def dist_for(fam):
        if fam == "normal":
            # which object evaluates the density: tfp JAX substrate, a harness class returning NumPy arrays,
            # one returning Python floats / a list subclass with .sum, or the tfp NumPy substrate
            p = 0.7 if force == "npdist" else 0.12
            impl = rnd.choice(["np", "np", "pylike", "npsub"]) if rnd.random() < p else "jax"
            return {"fam": fam, "impl": impl, "params": {"loc": pref("real"), "scale": pref("pos")}}
        if fam == "gamma":
            return {"fam": fam, "params": {"concentration": conc(), "rate": pref("pos")}}
        if fam == "invgamma":
            return {"fam": fam, "params": {"concentration": conc(), "scale": pref("pos")}}
        if fam == "poisson":
            return {"fam": fam, "params": {"rate": pref("pos")}}
        raise ValueError(fam)

    def flags(d):
        d["per_obs"] = rnd.random() < 0.6
        d["transient"] = rnd.random() < (0.5 if force == "transient" else 0.15)
        return d

    want_mvnd = force == "mvnd" or rnd.random() < 0.25
    for i in range(nvars):
        name = f"v{i}"
        last = i == nvars - 1
        r = rnd.random()
        v: dict = {"name": name, "calc": None, "dist": None, "role": "none", "transform": None, "shape": 0}
        if force == "auto" and i == 0:
            r = 0.99            # first variable: a positive parameter with auto_transform
        if (last and not (force == "auto" and i == 0)) or (i >= 2 and r < 0.25):
            # observed variable (vector or scalar)
            fam = rnd.choice(["normal", "normal", "normal", "poisson", "gamma"])
            n = rnd.choice([0, 1, 2, 3, 4, 6])
            d = flags(dist_for(fam))
            if fam == "normal" and vecs and rnd.random() < 0.6:
                vn = rnd.choice(sorted(vecs))
                d["params"]["loc"] = {"ref": vn}
                n = vecs[vn]
            v["shape"] = n
            one = (lambda: float(rnd.randint(0, 6))) if fam == "poisson" else ((lambda: pos_val(rnd)) if fam == "gamma" else (lambda: real_val(rnd)))
            v["value"] = one() if n == 0 else [one() for _ in range(n)]
            if fam != "poisson" and "ref" not in d["params"].get("loc", {}) and rnd.random() < (0.5 if force == "matrix" else 0.12):
                # matrix-valued observation: log_prob is a 2-d array
                v["shape"] = [2, 3]
                v["value"] = [[one() for _ in range(3)] for _ in range(2)]
            elif fam == "normal" and "ref" in d["params"]["loc"] and d["params"]["loc"]["ref"] not in vecs and rnd.random() < 0.12:
                v["shape"] = [2, 3]
                v["value"] = [[one() for _ in range(3)] for _ in range(2)]
            v["dist"] = d
            v["role"] = "obs"
        elif r < 0.45 and (reals or poss):
            # weak intermediate variable
            fn = rnd.choice(["exp", "sqrt", "affine", "add", "sqp"])
            if fn == "sqrt" and not poss:
                fn = "exp"
            if rnd.random() < (0.5 if force == "reject" else 0.06):
                fn = "guard"
            if fn == "guard":
                a = rnd.choice(reals + poss)
                v["calc"] = {"fn": "guard", "args": [a], "consts": [7.0]}
                v["positive"] = a in poss
            elif fn == "exp":
                v["calc"] = {"fn": "exp", "args": [rnd.choice(reals + poss)], "consts": []}
                v["positive"] = True
            elif fn == "sqrt":
                v["calc"] = {"fn": "sqrt", "args": [rnd.choice(poss)], "consts": []}
                v["positive"] = True
            elif fn == "affine":
                v["calc"] = {"fn": "affine", "args": [rnd.choice(reals + poss)], "consts": [real_val(rnd), dy(rnd, -2, 2, 4)]}
                v["positive"] = False
            elif fn == "add":
                pool = reals + poss
                v["calc"] = {"fn": "add", "args": [rnd.choice(pool), rnd.choice(pool)], "consts": []}
                v["positive"] = False
            else:
                v["calc"] = {"fn": "sqp", "args": [rnd.choice(reals + poss)], "consts": [pos_val(rnd)]}
                v["positive"] = True
            if rnd.random() < (0.6 if force == "weakdist" else 0.15):
                v["dist"] = flags(dist_for("gamma" if v["positive"] else "normal"))
                v["role"] = rnd.choice(["param", "none", "obs"])
            (poss if v["positive"] else reals).append(name)
        elif r < 0.55:
            # strong variable without distribution (hyperparameter / data)
            v["positive"] = rnd.random() < 0.5
            v["value"] = pos_val(rnd) if v["positive"] else real_val(rnd)
            (poss if v["positive"] else reals).append(name)
        elif want_mvnd and not vecs and r < 0.75:
            k = rnd.choice(PEN_DIMS)
            v["shape"] = k
            v["value"] = [real_val(rnd) for _ in range(k)]
            v["dist"] = flags({"fam": "mvnd", "params": {"var": pref("pos")}, "pen_order": rnd.choice([1, 2])})
            v["role"] = "param"
            vecs[name] = k
        else:
            # strong parameter with a prior
            fam = rnd.choice(["normal", "normal", "gamma", "invgamma"])
            if force == "auto" and not any(w["transform"] == "auto" for w in vs):
                fam = rnd.choice(["gamma", "invgamma"])
            v["positive"] = fam != "normal"
            v["value"] = pos_val(rnd) if v["positive"] else real_val(rnd)
            v["dist"] = flags(dist_for(fam))
            v["role"] = "param"
            if v["positive"] and force == "auto":
                # Var.auto_transform = True: the variable is transformed inside build_model
                v["transform"] = "auto"
                v["role"] = rnd.choice(["param", "param", "none"])
            elif v["positive"] and rnd.random() < (0.7 if force == "transform" else 0.3):
                v["transform"] = rnd.choice(["exp", "default", "auto"])
            (poss if v["positive"] else reals).append(name)
        vs.append(v)

    # role strata: both flags / no flag on a variable with a distribution
    withdist = [v for v in vs if v["dist"] and not v["transform"]]
    if withdist and (force == "both" or rnd.random() < 0.12):
        rnd.choice(withdist)["role"] = "both"
    if withdist and (force == "norole" or rnd.random() < 0.12):
        rnd.choice(withdist)["role"] = "none"

    free = []
    nfree = rnd.choice([0, 0, 0, 1, 2]) if force != "free" else rnd.choice([1, 2])
    for j in range(nfree):
        fam = rnd.choice(["normal", "gamma", "invgamma"])
        n = rnd.choice([0, 0, 2, 3])
        one = (lambda: real_val(rnd)) if fam == "normal" else (lambda: pos_val(rnd))
        free.append({"name": f"fd{j}", "dist": flags(dist_for(fam)),
                     "at": one() if n == 0 else [one() for _ in range(n)],
                     "at_is_var": rnd.random() < 0.3})
    user = {}
    for which in ("lik", "prior", "prob"):
        p = 0.5 if force in ("user", "rebuild") else 0.08
        if rnd.random() < p:
            kind = rnd.choice(["calc", "calc_vec", "value", "value_vec", "tcalc"])
            pool = reals + poss
            if not pool and kind in ("calc", "calc_vec", "tcalc"):
                kind = "value"
            args = [rnd.choice(pool) for _ in range(rnd.choice([1, 2]))] if pool else []
            user[which] = {"kind": kind, "args": args,
                           "value": real_val(rnd) if kind == "value" else [real_val(rnd) for _ in range(3)]}
    if force in ("user", "rebuild") and not user:
        user["prob"] = {"kind": "value", "args": [], "value": real_val(rnd)}
    # assignments that make the auto-update RAISE in a downstream node: (a) the designated value of a guard
    # Calc, (b) a negative value for a variable that is the scale of a Normal with validate_args=True
    byname = {v["name"]: v for v in vs}
    strong = lambda nm: (byname[nm]["calc"] is None and not byname[nm]["transform"] and byname[nm]["shape"] == 0)
    reject = []
    for v in vs:
        if v["calc"] and v["calc"]["fn"] == "guard" and strong(v["calc"]["args"][0]):
            reject.append({"key": v["calc"]["args"][0], "bad": v["calc"]["consts"][0]})
    for holder in vs + free:
        d = holder["dist"]
        if d and d["fam"] == "normal" and d.get("impl", "jax") == "jax" and "ref" in d["params"]["scale"] \
                and strong(d["params"]["scale"]["ref"]) and rnd.random() < (0.8 if force == "reject" else 0.15):
            d["validate"] = True
            reject.append({"key": d["params"]["scale"]["ref"], "bad": -1.0})
    builds = ["nocopy"]
    if force == "rebuild" or rnd.random() < 0.08:
        builds = rnd.choice([["copy", "copy"], ["copy", "copy", "copy"], ["copy", "nocopy"], ["copy", "copy", "nocopy"]])
    builder_add = None
    if user and rnd.random() < (0.6 if force in ("user", "rebuild") else 0.3):
        builder_add = {"order": rnd.choice(["set_then_add", "set_then_add", "add_then_set"]), "other": rnd.choice(["none", "none", "own"])}
    return {"kind": "hier", "f32": rnd.random() < 0.25, "vars": vs, "free": free, "user": user,
            "reject": reject, "builds": builds, "builder_add": builder_add,
            "nodist_node": force == "nodist" or rnd.random() < 0.05, "force": force,
            # "roots": only variables that no other variable reads are added to the GraphBuilder, the others are
            # reached as recursive inputs
            "add_mode": rnd.choice(["all", "roots"])}


def gen_distreg(rnd: random.Random, force: str | None = None) -> dict:
    n = rnd.choice([4, 6, 9])

    def mat(rows, cols):
        return [[dy(rnd, -2, 2, 4) for _ in range(cols)] for _ in range(rows)]

    smooths = []
    for pred in ("loc", "scale"):
        for _ in range(rnd.choice([1, 1, 2]) if pred == "loc" else rnd.choice([0, 1, 1])):
            if rnd.random() < 0.5:
                k = rnd.choice([1, 2, 3])
                smooths.append({"type": "p", "pred": pred, "X": mat(n, k), "m": real_val(rnd), "s": pos_val(rnd) * 4,
                                "beta": [dy(rnd, -1, 1) for _ in range(k)]})
            else:
                k = rnd.choice(PEN_DIMS)
                smooths.append({"type": "np", "pred": pred, "X": mat(n, k), "order": rnd.choice([1, 2]),
                                "a": rnd.choice([1.0, 2.0, 0.5]), "b": pos_val(rnd),
                                "beta": [dy(rnd, -1, 1) for _ in range(k)], "tau2": pos_val(rnd)})
    y = [real_val(rnd) for _ in range(n)]
    nd = 1 + sum(1 if s["type"] == "p" else 2 for s in smooths)
    # DistRegBuilder is used the way its documentation does: float32 throughout (with float64 inputs an empty
    # predictor is a float32 constant and tfp rejects the mixed dtypes - not C02's concern)
    return {"kind": "distreg", "f32": True, "n": n, "y": y, "smooths": smooths,
            "per_obs": [rnd.random() < 0.6 for _ in range(nd)], "user": {}, "force": force}


def gen_positions(rnd: random.Random, prog: dict, nsteps: int, force: str | None = None) -> list[dict]:
    steps = []
    cur = {}        # values a "fresh" step can assign again (equal value, new object)
    if prog["kind"] == "hier":
        for v in prog["vars"]:
            if v["calc"] is None and not v["transform"]:
                cur[v["name"]] = v["value"]
        for fd in prog["free"]:
            cur["@" + fd["name"]] = fd["at"]
    else:
        for j, s in enumerate(prog["smooths"]):
            cur[f"s{j}_beta"] = s["beta"]
            if s["type"] == "np":
                cur[f"s{j}_tau2"] = s["tau2"]
    for _ in range(nsteps):
        pos = {}
        if prog["kind"] == "hier":
            cands = []
            for v in prog["vars"]:
                if v["calc"] is None:
                    cands.append(v)
            rnd.shuffle(cands)
            for v in cands[:rnd.randint(1, max(1, min(3, len(cands))))]:
                fam = v["dist"]["fam"] if v["dist"] else None
                if v["transform"]:
                    pos[v["name"] + "_transformed"] = dy(rnd, -1.5, 1.5)
                    continue
                if fam == "poisson":
                    one = lambda: float(rnd.randint(0, 6))
                elif v.get("positive") or fam == "gamma":
                    one = lambda: pos_val(rnd)
                else:
                    one = lambda: real_val(rnd)
                if isinstance(v["shape"], list):
                    pos[v["name"]] = [[one() for _ in range(v["shape"][1])] for _ in range(v["shape"][0])]
                else:
                    pos[v["name"]] = one() if v["shape"] == 0 else [one() for _ in range(v["shape"])]
            for fd in prog["free"]:
                if rnd.random() < 0.4:
                    fam = fd["dist"]["fam"]
                    one = (lambda: real_val(rnd)) if fam == "normal" else (lambda: pos_val(rnd))
                    pos["@" + fd["name"]] = one() if not isinstance(fd["at"], list) else [one() for _ in fd["at"]]
        else:
            for j, s in enumerate(prog["smooths"]):
                if rnd.random() < 0.7:
                    pos[f"s{j}_beta"] = [dy(rnd, -1, 1) for _ in s["beta"]]
                if s["type"] == "np" and rnd.random() < 0.6:
                    pos[f"s{j}_tau2"] = pos_val(rnd)
            if not pos:
                pos["s0_beta"] = [dy(rnd, -1, 1) for _ in prog["smooths"][0]["beta"]]
        extra = {}
        if force == "simfail" or rnd.random() < 0.03:
            # a simulate() call (it FAILS when the model has a weak variable with a distribution or a distribution
            # object without .sample), caught; then all values are assigned back plus this position
            steps.append({"mode": "simfail", "pos": pos})
            cur.update({k: v for k, v in pos.items() if not k.endswith("_transformed")})
            continue
        if prog.get("reject") and (force == "reject" or rnd.random() < 0.12):
            # a rejected assignment followed by continued use: assign the bad value (the auto-update raises),
            # assign the other variables of this position, then an admissible value for the rejected variable
            t = rnd.choice(prog["reject"])
            byname = {v["name"]: v for v in prog["vars"]}
            window = {k: v for k, v in pos.items() if k != t["key"]}
            # the admissible value of the rejected variable is assigned FIRST (the others would raise again)
            pos = {t["key"]: pos_val(rnd) if byname[t["key"]].get("positive") else real_val(rnd)}
            pos.update(window)
            extra = {"bad": {t["key"]: t["bad"]}, "window": window}
            mode = "reject"
        elif force == "inplace":
            mode = rnd.choice(["inplace", "inplace", "fresh"])
        else:
            mode = rnd.choice(["direct", "direct", "manual", "iface", "inplace", "fresh"])
        if mode == "fresh" and cur:
            ks = sorted(cur)
            rnd.shuffle(ks)
            pos = {k: cur[k] for k in ks[:rnd.randint(1, min(3, len(ks)))]}
        cur.update({k: v for k, v in pos.items() if not k.endswith("_transformed")})
        steps.append(dict({"mode": mode, "pos": pos}, **extra))
    return steps


# ---------------------------------------------------------------------------------------------
# penalty matrices
# ---------------------------------------------------------------------------------------------
def penalty(k, order):
    import numpy as np
    D = np.diff(np.eye(k), order, axis=0)
    return D.T @ D


# ---------------------------------------------------------------------------------------------
# building the real model
# ---------------------------------------------------------------------------------------------
class Built:
    pass


def build(prog: dict, flip_per_obs: bool = False) -> Built:
    """the model of the LAST build of the program's build history"""
    return build_all(prog, flip_per_obs)[-1]


def _finish(T: Built, gb, autos) -> list:
    """runs the build history  prog["builds"]  (default: one build_model()) on the SAME graph builder:
    "copy" = gb.build_model(copy=True) (the builder stays usable), "nocopy" = gb.build_model() (last).
    Handles of every built model are looked up BY NAME in that model."""
    import liesel.model as lsl
    out = []
    for bi, how in enumerate(T.prog.get("builds") or ["nocopy"]):
        model = gb.build_model(copy=(how == "copy"))
        B = Built()
        B.prog, B.dtype, B.dist_info = T.prog, T.dtype, dict(T.dist_info)
        B.model, B.how, B.build_index = model, how, bi
        B.assign = {}
        for k, o in T.assign.items():
            B.assign[k] = model.vars[o.name] if isinstance(o, lsl.Var) else model.nodes[o.name]
        B.user_nodes, B.missing_user = {}, []
        for w, n in T.user_nodes.items():
            if n.name in model.nodes:
                B.user_nodes[w] = model.nodes[n.name]
            else:
                B.missing_user.append(w)
        for v in autos:
            tname = v["name"] + "_transformed"
            if tname in model.vars:
                tv = model.vars[tname]
                B.assign[tname] = tv
                if tv.dist_node is not None:
                    B.dist_info[tv.dist_node.name] = {"fam": v["dist"]["fam"], "transform": "auto", "owner": v["name"], "impl": "jax"}
        out.append(B)
    return out


def build_all(prog: dict, flip_per_obs: bool = False) -> list:
    """builds the REAL lsl.Model(s); returns handles (all through public API)"""
    setup_jax()
    import numpy as np
    import jax.numpy as jnp
    import liesel.model as lsl
    import tensorflow_probability.substrates.jax.distributions as tfd
    import tensorflow_probability.substrates.jax.bijectors as tfb
    from liesel.distributions import MultivariateNormalDegenerate as MVND

    dt = np.float32 if prog["f32"] else np.float64
    f = lambda x: np.asarray(x, dtype=dt)
    B = Built()
    B.prog = prog
    B.dtype = dt
    B.assign = {}          # position key -> object with a .value setter
    B.dist_info = {}       # dist node name -> {"fam", "transform", "owner"}
    B.user_nodes = {}
    po = lambda d: (not d["per_obs"]) if flip_per_obs else d["per_obs"]

    if prog["kind"] == "distreg":
        gb = lsl.DistRegBuilder()
        gb.to_float32 = prog["f32"]
        gb.add_response(f(prog["y"]), tfd.Normal)
        gb.add_predictor("loc", tfb.Identity)
        gb.add_predictor("scale", tfb.Exp)
        dists = [gb.response.dist_node]
        B.dist_info["response_log_prob"] = {"fam": "normal", "transform": None, "owner": "response"}
        for j, s in enumerate(prog["smooths"]):
            nm = f"s{j}"
            if s["type"] == "p":
                gb.add_p_smooth(f(s["X"]), f(s["m"]), f(s["s"]), s["pred"], name=nm)
            else:
                gb.add_np_smooth(f(s["X"]), f(penalty(len(s["beta"]), s["order"])), f(s["a"]), f(s["b"]), s["pred"], name=nm)
            grp = gb.groups()[nm]
            grp["beta"].value = f(s["beta"])
            dists.append(grp["beta"].dist_node)
            B.assign[f"{nm}_beta"] = grp["beta"]
            if s["type"] == "np":
                grp["tau2"].value = f(s["tau2"])
                dists.append(grp["tau2"].dist_node)
                B.assign[f"{nm}_tau2"] = grp["tau2"]
        for d, p in zip(dists, prog["per_obs"]):
            d.per_obs = (not p) if flip_per_obs else p
        return _finish(B, gb, [])

    objs: dict[str, object] = {}

    def arg(p):
        return objs[p["ref"]] if "ref" in p else f(p["const"])

    def mkdist(d, name=""):
        cls = lsl.TransientDist if d["transient"] else lsl.Dist
        fam = d["fam"]
        kw = {k: arg(p) for k, p in d["params"].items()}
        if fam == "normal":
            if d.get("validate"):
                # tfd.Normal(..., validate_args=True): a non-positive scale makes the node's update raise
                node = cls(lambda loc, scale: tfd.Normal(loc, scale, validate_args=True), **kw, _name=name)
            else:
                node = cls(normal_impl(d.get("impl", "jax")), **kw, _name=name)
        elif fam == "gamma":
            node = cls(tfd.Gamma, **kw, _name=name)
        elif fam == "invgamma":
            node = cls(tfd.InverseGamma, **kw, _name=name)
        elif fam == "poisson":
            node = cls(tfd.Poisson, **kw, _name=name)
        elif fam == "mvnd":
            node = cls(MVND.from_penalty, loc=f(0.0), pen=f(penalty(d["k"], d["pen_order"])), **kw, _name=name)
        else:
            raise ValueError(fam)
        node.per_obs = po(d)
        return node

    CALC = {
        "exp": lambda c: (lambda a: jnp.exp(a)),
        "sqrt": lambda c: (lambda a: jnp.sqrt(a)),
        "affine": lambda c: (lambda a: c[0] + c[1] * jnp.asarray(a)),
        "add": lambda c: (lambda a, b: jnp.asarray(a) + jnp.asarray(b)),
        "sqp": lambda c: (lambda a: jnp.asarray(a) * jnp.asarray(a) + c[0]),
        "guard": lambda c: (lambda a: _guard(a, c[0])),
    }
    added = []
    autos = []
    for v in prog["vars"]:
        d = v["dist"]
        if d is not None and d["fam"] == "mvnd":
            d = dict(d, k=v["shape"])
        dist = mkdist(d) if d is not None else None
        if v["calc"] is not None:
            c = v["calc"]
            value = lsl.Calc(CALC[c["fn"]](c["consts"]), *[objs[a] for a in c["args"]])
        else:
            value = f(v["value"])
        var = lsl.Var(value, dist, name=v["name"])
        if v["role"] in ("obs", "both"):
            var.observed = True
        if v["role"] in ("param", "both"):
            var.parameter = True
        objs[v["name"]] = var
        owner = var
        if v["transform"] == "auto":
            var.auto_transform = True
            autos.append(v)
            added.append(var)
            continue
        if v["transform"]:
            owner = var.transform(tfb.Exp() if v["transform"] == "exp" else None)
            B.assign[v["name"] + "_transformed"] = owner
            added.append(owner)
        elif v["calc"] is None:
            B.assign[v["name"]] = var
        if d is not None:
            B.dist_info[owner.dist_node.name] = {"fam": d["fam"], "transform": v["transform"], "owner": v["name"],
                                                 "impl": d.get("impl", "jax")}
        added.append(var)
    for fd in prog["free"]:
        node = mkdist(fd["dist"], name=fd["name"])
        if fd["at_is_var"]:
            atv = lsl.Var(f(fd["at"]), name=fd["name"] + "_at")
            node.at = atv.value_node
            B.assign["@" + fd["name"]] = atv
            added.append(atv)
        else:
            atn = lsl.Value(f(fd["at"]), _name=fd["name"] + "_at")
            node.at = atn
            B.assign["@" + fd["name"]] = atn
        B.dist_info[fd["name"]] = {"fam": fd["dist"]["fam"], "transform": None, "owner": None}
        added.append(node)
    if prog.get("nodist_node"):
        from liesel.model.nodes import NoDist
        added.append(NoDist())
    gb = lsl.GraphBuilder(to_float32=prog["f32"])
    if prog.get("add_mode") == "roots":
        read = set()
        for v in prog["vars"]:
            if v["calc"]:
                read.update(v["calc"]["args"])
            if v["dist"]:
                read.update(q["ref"] for q in v["dist"]["params"].values() if "ref" in q)
        for fd in prog["free"]:
            read.update(q["ref"] for q in fd["dist"]["params"].values() if "ref" in q)
        for u in prog["user"].values():
            if u["kind"] in ("calc", "tcalc", "calc_vec"):
                read.update(u["args"])
        inner = {id(objs[nm]) for nm in read}
        added = [a for a in added if id(a) not in inner]
    # builder history: part of the graph may arrive through ANOTHER GraphBuilder that is added to gb, before or
    # after gb's user-defined total nodes are set; the other builder holds no user nodes or its own (distinct) ones
    ba = prog.get("builder_add")
    other = None
    if ba:
        half = len(added) // 2
        other = lsl.GraphBuilder(to_float32=prog["f32"])
        other.add(*added[half:])
        added = added[:half]
        if ba["other"] == "own":
            for which in prog["user"]:
                setattr(other, f"log_{which}_node", lsl.Value(f(-99.0), _name=f"other_user_{which}"))
    gb.add(*added)
    if other is not None and ba["order"] == "add_then_set":
        gb.add(other)
    for which, u in prog["user"].items():
        args = [objs[a] for a in u["args"]]
        if u["kind"] == "calc":
            node = lsl.Calc(lambda *a: -sum(jnp.asarray(x) * jnp.asarray(x) for x in a), *args, _name=f"user_{which}")
        elif u["kind"] == "tcalc":
            node = lsl.TransientCalc(lambda *a: -sum(jnp.asarray(x) * jnp.asarray(x) for x in a), *args, _name=f"user_{which}")
        elif u["kind"] == "calc_vec":
            node = lsl.Calc(lambda *a: jnp.stack([-jnp.asarray(x) * jnp.asarray(x) for x in a] + [jnp.asarray(a[0]) * 0.5]), *args, _name=f"user_{which}")
        else:
            node = lsl.Value(f(u["value"]), _name=f"user_{which}")
        B.user_nodes[which] = node
        setattr(gb, f"log_{which}_node", node)
    if other is not None and ba["order"] == "set_then_add":
        gb.add(other)
    return _finish(B, gb, autos)


def _guard(a, bad):
    """identity, except that the designated value makes the Calc raise"""
    import numpy as np
    if np.ndim(a) == 0 and float(a) == bad:
        raise ValueError(f"designated value {bad} rejected by the harness Calc")
    import jax.numpy as jnp
    return jnp.asarray(a) * 1.0


def normal_impl(impl):
    """the callable wrapped by the Dist node of a Normal(loc, scale)"""
    import numpy as np
    if impl == "jax":
        import tensorflow_probability.substrates.jax.distributions as tfd
        return tfd.Normal
    if impl == "npsub":
        try:
            import tensorflow_probability.substrates.numpy.distributions as nd
            return nd.Normal
        except Exception:       # substrate not importable: fall back to the harness class
            impl = "np"

    class SumList(list):
        """a list with a .sum method (duck-typed array)"""
        def sum(self):
            return sum(self)

    class NpNormal:
        """log_prob returns NumPy arrays (np.ndarray / np.float64), never a jax.Array"""
        def __init__(self, loc, scale):
            self.loc, self.scale = np.asarray(loc), np.asarray(scale)

        def log_prob(self, x):
            x = np.asarray(x)
            z = (x - self.loc) / self.scale
            return -0.5 * z * z - np.log(self.scale) - 0.5 * np.log(2 * np.pi)

    class PyNormal(NpNormal):
        """log_prob returns a Python float for a scalar value and a list with .sum for a vector"""
        def log_prob(self, x):
            lp = NpNormal.log_prob(self, x)
            if np.ndim(lp) == 0:
                return float(lp)
            if np.ndim(lp) == 1:
                return SumList(float(t) for t in lp)
            return lp
    return PyNormal if impl == "pylike" else NpNormal


def apply_position(B: Built, pos: dict, manual: bool, inplace: bool = False):
    """inplace: the NumPy buffer the variable holds is modified in place and the SAME object is assigned back
    (b = var.value; b[...] = new; var.value = b); otherwise a fresh array is assigned"""
    import numpy as np
    f = lambda x: np.asarray(x, dtype=B.dtype)
    if manual:
        B.model.auto_update = False
    for k, val in pos.items():
        obj = B.assign[k]
        b = obj.value
        if inplace and isinstance(b, np.ndarray) and b.flags.writeable and b.shape == np.shape(val):
            b[...] = f(val)
            obj.value = b
        else:
            obj.value = f(val)
    if manual:
        B.model.update()
        B.model.auto_update = True


def simulate_then_restore(B: Built) -> dict:
    """model.simulate(key) - caught if it fails -, then the value of EVERY strong variable of the model (and of every
    assignable node) is put back: simulate may have drawn some variables before failing, observed ones included, and
    in float32 programs its draws can be float64.  The values are put back with auto-update off (half-restored states
    may mix dtypes), followed by update(); auto_update is then left at what simulate() left it at, so that nothing
    the implementation did to the flag is masked.  Returns what happened."""
    import numpy as np
    import jax
    m = B.model
    targets = {}
    for name, var in m.vars.items():
        if var.strong:
            targets["var:" + name] = var
    for k, o in B.assign.items():
        if not any(o is t for t in targets.values()):
            targets["assign:" + k] = o
    snap = {k: (np.array(o.value), getattr(np.asarray(o.value), "dtype", None)) for k, o in targets.items()}
    before = bool(m.auto_update)
    raised = False
    try:
        m.simulate(jax.random.PRNGKey(7))
    except Exception as ex:   # noqa
        raised = type(ex).__name__
    after = bool(m.auto_update)
    m.auto_update = False
    for k, (val, dt) in snap.items():
        targets[k].value = np.asarray(val, dtype=dt)
    m.update()
    m.auto_update = after
    return {"raised": raised, "auto_update_before": before, "auto_update_after": after}


def reject_window(B: Built, st: dict) -> dict:
    """a rejected assignment followed by continued use.  Assign the bad value (expected: the auto-update raises
    somewhere downstream), catch; assign the other variables of the step, catching; call model.update(), catching.
    Then record, for every node that is an instance of Dist: the reported outdated flag, node.value and the
    log-density recomputed now from the node's current inputs; whether any node of the model is outdated; the
    three totals.  Nothing is assumed about what the model does with the rejected value."""
    import numpy as np
    import liesel.model as lsl
    from liesel.model.nodes import NoDist
    f = lambda x: np.asarray(x, dtype=B.dtype)
    raised = []
    for k, val in list(st["bad"].items()) + list(st["window"].items()):
        try:
            B.assign[k].value = f(val)
            raised.append(False)
        except Exception as ex:   # noqa
            raised.append(type(ex).__name__)
    try:
        B.model.update()
        raised.append(False)
    except Exception as ex:   # noqa
        raised.append(type(ex).__name__)
    m = B.model

    def num(fn):
        try:
            a = np.asarray(fn(), dtype=np.float64).reshape(-1)
            return [float(x) for x in a]
        except Exception as ex:   # noqa
            return "raises " + type(ex).__name__
    nodes = []
    for name in sorted(m.nodes):
        n = m.nodes[name]
        if not isinstance(n, lsl.Dist) or isinstance(n, NoDist):
            continue
        try:
            outdated = bool(n.outdated)
        except Exception:   # noqa
            outdated = True
        rec = {"name": name, "outdated": outdated, "per_obs": bool(n.per_obs)}
        if not outdated:
            rec["stored"] = num(lambda: n.value)
            rec["fresh"] = num(lambda: n.init_dist().log_prob(n.at.value))
        nodes.append(rec)
    any_outdated = False
    for n in m.nodes.values():
        try:
            any_outdated = any_outdated or bool(n.outdated)
        except Exception:   # noqa
            any_outdated = True
    totals = None
    if not any_outdated:
        totals = {"prob": num(lambda: m.log_prob), "lik": num(lambda: m.log_lik), "prior": num(lambda: m.log_prior)}
    current = {k: num(lambda o=o: o.value) for k, o in B.assign.items()}
    return {"raised": raised, "nodes": nodes, "any_outdated": any_outdated, "totals": totals, "current": current}


def iface_position(B: Built, pos: dict) -> dict:
    """the same assignment as a Goose position (variable / node names of the model)"""
    import numpy as np
    out = {}
    for k, val in pos.items():
        out[B.assign[k].name] = np.asarray(val, dtype=B.dtype)
    return out


# ---------------------------------------------------------------------------------------------
# observation
# ---------------------------------------------------------------------------------------------
def enc(v):
    """value -> ('S', Fraction) | ('A', [Fraction]) | None (None / non-finite / not numeric)"""
    import numpy as np
    if v is None:
        return None
    try:
        a = np.asarray(v)
        if a.dtype == object or a.dtype.kind not in "fiub":
            return None
        a = a.astype(np.float64)
    except Exception:
        return None
    if not np.all(np.isfinite(a)):
        return None
    if a.ndim == 0:
        return ("S", Fraction(float(a)))
    return ("A", [Fraction(float(x)) for x in a.reshape(-1)])


def read_totals(getter):
    out = []
    for nm in ("_model_log_prob", "_model_log_lik", "_model_log_prior"):
        try:
            out.append(enc(getter(nm)))
        except Exception:
            out.append(None)
    return {"prob": out[0], "lik": out[1], "prior": out[2]}


def observe(B: Built, iface=None, prev_state=None, pos=None, want_inputs=False, jit=False) -> dict:
    """everything the correspondence compares, read through the public API of the real model"""
    import numpy as np
    import liesel.model as lsl
    from liesel.model.nodes import NoDist
    m = B.model
    nodes = []
    for name in sorted(m.nodes):
        n = m.nodes[name]
        if not isinstance(n, lsl.Dist):
            continue
        kind = "KNoDist" if isinstance(n, NoDist) else ("KTransientDist" if isinstance(n, lsl.TransientDist) else "KDist")
        var = n.var
        rec = {"name": name, "kind": kind,
               "var": None if var is None else {"name": var.name, "observed": bool(var.observed), "parameter": bool(var.parameter)},
               "per_obs": bool(n.per_obs)}
        if kind == "KNoDist":
            rec["obs"] = ("S", Fraction(0))
        else:
            rec["obs"] = enc(n.init_dist().log_prob(n.at.value))
        rec["stored"] = enc(n.value)
        if var is not None:
            rec["var_log_prob"] = enc(var.log_prob)
        if want_inputs and kind != "KNoDist":
            ins = {}
            for kw, inp in n.kwinputs.items():
                ins[kw] = enc(inp.value)
            rec["inputs"] = ins
            rec["at"] = enc(n.at.value)
        nodes.append(rec)
    user = {w: enc(nd.value) for w, nd in B.user_nodes.items()}
    missing_user = list(getattr(B, "missing_user", []))
    reads = []
    reads.append(dict(read_totals(lambda nm: {"_model_log_prob": m.log_prob, "_model_log_lik": m.log_lik,
                                              "_model_log_prior": m.log_prior}[nm]), how="Model.log_prob/log_lik/log_prior"))
    st = m.state
    reads.append(dict(read_totals(lambda nm: st[nm].value), how="model.state[name].value"))
    if iface is not None:
        def via_iface(nm):
            if nm == "_model_log_prob":
                return iface.log_prob(st)
            return iface.extract_position([nm], st)[nm]
        reads.append(dict(read_totals(via_iface), how="LieselInterface.log_prob / extract_position on model.state"))
        if prev_state is not None and pos is not None:
            st2 = iface.update_state(iface_position(B, pos), prev_state)
            reads.append(dict(read_totals(lambda nm: st2[nm].value), how="LieselInterface.update_state(position, previous state)"))
            if jit:
                import jax
                names = ("_model_log_prob", "_model_log_lik", "_model_log_prior")
                fn = jax.jit(lambda p: {nm: iface.update_state(p, prev_state)[nm].value for nm in names})
                out = fn(iface_position(B, pos))
                reads.append(dict(read_totals(lambda nm: out[nm]), how="jax.jit(LieselInterface.update_state)(position)"))
    novar_lp = {}
    for vn, var in m.vars.items():
        if not var.has_dist:
            novar_lp[vn] = enc(var.log_prob)
    return {"nodes": nodes, "user": user, "reads": reads, "state": st, "nodist_var_log_prob": novar_lp,
            "missing_user": missing_user}


# ---------------------------------------------------------------------------------------------
# independent evaluation of a program (numpy / scipy only)
# ---------------------------------------------------------------------------------------------
def mvnd_logpdf(beta, var, K):
    import numpy as np
    ev = np.linalg.eigvalsh(K)
    tol = 1e-6 * max(1.0, float(ev.max()))
    posv = ev[ev > tol]
    rank = len(posv)
    lpd = float(np.sum(np.log(posv)))
    q = float(beta @ K @ beta)
    return 0.5 * (-q / var - (rank * math.log(2 * math.pi) - (lpd - rank * math.log(var))))


def fam_logpdf(fam, x, p):
    import numpy as np
    from scipy import stats
    if fam == "normal":
        return stats.norm.logpdf(x, p["loc"], p["scale"])
    if fam == "gamma":
        return stats.gamma.logpdf(x, p["concentration"], scale=1.0 / p["rate"])
    if fam == "invgamma":
        return stats.invgamma.logpdf(x, p["concentration"], scale=p["scale"])
    if fam == "poisson":
        return stats.poisson.logpmf(x, p["rate"])
    raise ValueError(fam)


def evaluate(prog: dict, positions: list[dict]) -> dict:
    """joint log-density of the program after applying the positions in order; independent of liesel.
    returns {"nodes": {dist name: summed log-density}, "prob", "lik", "prior", "user": {...},
             "one_role": bool}"""
    import numpy as np
    f = lambda x: np.asarray(x, dtype=np.float64)
    cur = {}
    for st in positions:
        cur.update(st["pos"])
    nodes = {}
    roles = {}
    if prog["kind"] == "distreg":
        y = f(prog["y"])
        eta = {"loc": np.zeros(len(y)), "scale": np.zeros(len(y))}
        for j, s in enumerate(prog["smooths"]):
            beta = f(cur.get(f"s{j}_beta", s["beta"]))
            eta[s["pred"]] = eta[s["pred"]] + f(s["X"]) @ beta
            if s["type"] == "p":
                nodes[f"s{j}_beta_log_prob"] = float(np.sum(fam_logpdf("normal", beta, {"loc": s["m"], "scale": s["s"]})))
            else:
                tau2 = float(cur.get(f"s{j}_tau2", s["tau2"]))
                nodes[f"s{j}_beta_log_prob"] = mvnd_logpdf(beta, tau2, penalty(len(beta), s["order"]))
                nodes[f"s{j}_tau2_log_prob"] = float(fam_logpdf("invgamma", tau2, {"concentration": s["a"], "scale": s["b"]}))
                roles[f"s{j}_tau2_log_prob"] = "param"
            roles[f"s{j}_beta_log_prob"] = "param"
        nodes["response_log_prob"] = float(np.sum(fam_logpdf("normal", y, {"loc": eta["loc"], "scale": np.exp(eta["scale"])})))
        roles["response_log_prob"] = "obs"
        user = {}
    else:
        val = {}
        for v in prog["vars"]:
            nm = v["name"]
            if v["calc"] is not None:
                c = v["calc"]
                a = [val[x] for x in c["args"]]
                k = c["consts"]
                val[nm] = {"exp": lambda: np.exp(a[0]), "sqrt": lambda: np.sqrt(a[0]),
                           "affine": lambda: k[0] + k[1] * a[0], "add": lambda: a[0] + a[1],
                           "sqp": lambda: a[0] * a[0] + k[0], "guard": lambda: a[0] * 1.0}[c["fn"]]()
            elif v["transform"]:
                tkey = nm + "_transformed"
                if tkey in cur:
                    u = float(cur[tkey])
                    if v["transform"] == "exp":
                        val[nm] = math.exp(u)
                    elif v["dist"]["fam"] == "invgamma":       # tfp default: Reciprocal o Softplus
                        val[nm] = 1.0 / math.log1p(math.exp(u))
                    else:                                       # tfp default for Gamma: Softplus
                        val[nm] = math.log1p(math.exp(u))
                else:
                    val[nm] = f(v["value"])
            else:
                val[nm] = f(cur.get(nm, v["value"]))
            d = v["dist"]
            if d is None:
                continue
            p = {k: (val[q["ref"]] if "ref" in q else q["const"]) for k, q in d["params"].items()}
            x = val[nm]
            if d["fam"] == "mvnd":
                lp = mvnd_logpdf(f(x), float(p["var"]), penalty(v["shape"], d["pen_order"]))
            else:
                lp = float(np.sum(fam_logpdf(d["fam"], x, p)))
            dname = nm + "_log_prob"
            if v["transform"] == "exp":
                lp += math.log(float(x))               # ln |d exp(u)/du| = u = ln x
                dname = nm + "_transformed_log_prob"
            elif v["transform"] in ("default", "auto") and d["fam"] == "invgamma":
                # x = 1 / softplus(u):  |dx/du| = sigmoid(u) x^2,  sigmoid(u) = 1 - e^{-1/x}
                lp += math.log(-math.expm1(-1.0 / float(x))) + 2 * math.log(float(x))
                dname = nm + "_transformed_log_prob"
            elif v["transform"] in ("default", "auto"):
                # softplus: x = ln(1 + e^u), dx/du = sigmoid(u) = 1 - e^{-x}
                lp += math.log(-math.expm1(-float(x)))
                dname = nm + "_transformed_log_prob"
            nodes[dname] = lp
            roles[dname] = v["role"]
        for fd in prog["free"]:
            d = fd["dist"]
            p = {k: (val[q["ref"]] if "ref" in q else q["const"]) for k, q in d["params"].items()}
            x = f(cur.get("@" + fd["name"], fd["at"]))
            nodes[fd["name"]] = float(np.sum(fam_logpdf(d["fam"], x, p)))
            roles[fd["name"]] = "free"
        user = {}
        for which, u in prog["user"].items():
            a = [val[x] for x in u["args"]]
            if u["kind"] in ("calc", "tcalc"):
                user[which] = ("S", float(-sum(x * x for x in a)))
            elif u["kind"] == "calc_vec":
                user[which] = ("A", [float(-x * x) for x in a] + [float(a[0]) * 0.5])
            elif u["kind"] == "value":
                user[which] = ("S", float(u["value"]))
            else:
                user[which] = ("A", [float(x) for x in u["value"]])
    tot = lambda sel: float(sum(v for k, v in nodes.items() if roles[k] in sel))
    return {"nodes": nodes, "roles": roles,
            "prob": float(sum(nodes.values())), "lik": tot(("obs", "both")), "prior": tot(("param", "both")),
            "user": user,
            "one_role": all(r in ("obs", "param") for r in roles.values()),
            "abs": float(sum(abs(v) for v in nodes.values()))}
