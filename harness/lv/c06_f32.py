"""C06, float32 stratum: IWLS transitions on larger blocks (10, 20, 40 coefficients) in liesel's default
dtype, and iwls_utils.mvn_log_prob at points where the product of the Cholesky diagonal leaves the float32
range.

Why: the real-number model says  log det = sum of the logs of the diagonal  (Gauss.mvn_log_prob).  A
float implementation that is only *mathematically* equal (e.g. log(prod(diag))) over- or underflows for
moderately large blocks (20 parameters at the default step size 0.01: diag(L/s) = 100 each, product 1e40 >
3.4e38), forward and backward log-densities become +-inf, the correction NaN, and the kernel reports
acceptance 0 / error code 90 although the Metropolis-Hastings ratio is finite and positive.  The float64
runs on blocks of <= 3 coefficients cannot see this.

Everything here runs under `jax.experimental.disable_x64()` (default dtype float32) in the harness process,
with the same forced normal draw / uniform = 0 patches as the float64 forced stream.  The oracle evaluates
the n-dimensional model (closed-form score and information of the family) in float64 numpy at the observed
float32 points and compares the log acceptance ratio at float32 tolerance; error_code must be 0.
"""
from __future__ import annotations

import math
import random
from unittest import mock

DIMS = (10, 20, 40)
KAPPAS = (1.0, 1e2, 1e4)
STEPS = (0.01, 0.1, 1.0)          # 0.01 is IWLSKernel's default initial_step_size
EPS32 = 2.0 ** -23


# ---------------------------------------------------------------------------------------------
# families (parameters are regenerated from a small spec so that a replay file stays small)
# ---------------------------------------------------------------------------------------------
def params(c):
    """numpy float64 arrays of the family of case c"""
    import numpy as np
    n, kappa = c["n"], c["kappa"]
    r = random.Random(c["pseed"])
    if c["fam"] == "g":            # Gaussian, precision kappa * (diag(d) + cc * u u^T), mean m (small: |m| ~ 1/sqrt(kappa))
        d = np.array([r.choice([0.5, 0.75, 1.0, 1.5, 2.0]) for _ in range(n)])
        u = np.array([r.randint(-2, 2) / 4 for _ in range(n)])
        cc = 0.0 if c.get("diag") else 0.5
        A = kappa * (np.diag(d) + cc * np.outer(u, u))
        m = np.array([r.randint(-4, 4) / 8 for _ in range(n)]) / math.sqrt(kappa)
        return {"A": A, "m": m}
    if c["fam"] == "pois":         # Poisson regression, rate = kappa * exp(X b), prior precision pr
        mobs = n + 6
        X = np.array([[r.randint(-2, 2) / 4 for _ in range(n)] for _ in range(mobs)])
        y = np.array([float(round(kappa * r.choice([0.5, 1.0, 1.0, 1.5, 2.0]))) for _ in range(mobs)])
        return {"X": X, "y": y, "logk": math.log(kappa), "pr": 1.0}
    raise KeyError(c["fam"])


def np_fns(c):
    import numpy as np
    P = params(c)
    if c["fam"] == "g":
        A, m = P["A"], P["m"]
        return (lambda x: float(-(x - m) @ A @ (x - m) / 2), lambda x: -A @ (x - m), lambda x: A)
    X, y, logk, pr = P["X"], P["y"], P["logk"], P["pr"]
    eta = lambda b: X @ b + logk
    return (lambda b: float(np.sum(y * eta(b) - np.exp(eta(b))) - pr * (b @ b) / 2),
            lambda b: X.T @ (y - np.exp(eta(b))) - pr * b,
            lambda b: X.T @ (np.exp(eta(b))[:, None] * X) + pr * np.eye(len(b)))


# ---------------------------------------------------------------------------------------------
def gen_cases(rnd, quick):
    cases = []
    reps = 1 if quick else 3
    for fam in ("g", "pois"):
        for n in DIMS:
            for kappa in KAPPAS:
                for s in STEPS:
                    for rep in range(reps):
                        scale = 1.0 / math.sqrt(kappa * (1 if fam == "g" else n))
                        x = [rnd.randint(-8, 8) / 8 * scale for _ in range(n)]
                        z = [rnd.randint(-12, 12) / 8 for _ in range(n)]
                        cases.append(dict(kernel="iwls32", fam=fam, n=n, kappa=kappa, s=s, x=x, z=z,
                                          diag=bool(fam == "g" and rep == 0 and n == 10),
                                          pseed=rnd.randrange(2 ** 31), seed=rnd.randrange(2 ** 31)))
    return cases


def run_cases(cases, jit=True, log=None):
    """run the real IWLSKernel.transition in float32 on every case; fills p, moved, code, xp, forced_ok"""
    import time
    import jax, jax.numpy as jnp, numpy as np
    from jax.experimental import disable_x64
    import liesel.goose as gs
    from liesel.goose.epoch import EpochConfig, EpochType

    groups = {}
    for i, c in enumerate(cases):
        groups.setdefault((c["fam"], c["n"]), []).append(i)
    with disable_x64():
        epoch = EpochConfig(EpochType.POSTERIOR, 10, 1, None).to_state(0, 0)
        for (fam, n), idxs in groups.items():
            t0 = time.time()
            if fam == "g":
                def logp(st):
                    d = st["x"] - st["m"]
                    return -0.5 * d @ st["A"] @ d
                names = ("A", "m")
            else:
                def logp(st):
                    eta = st["X"] @ st["x"] + st["logk"]
                    return jnp.sum(st["y"] * eta - jnp.exp(eta)) - st["pr"] * (st["x"] @ st["x"]) / 2
                names = ("X", "y", "logk", "pr")
            model = gs.DictInterface(logp)

            def f(x, z, s, seed, *par):
                calls = {"normal": 0, "uniform": 0}
                orig_normal = jax.random.normal
                state = {"x": x}
                state.update(dict(zip(names, par)))
                k = gs.IWLSKernel(["x"], initial_step_size=s)
                k.set_model(model)
                key0 = jax.random.PRNGKey(seed)
                ks = k.init_state(key0, state)

                def fake_normal(key, shape=(), dtype=float, *a, **kw):
                    if tuple(shape) != tuple(z.shape):
                        calls["normal"] -= 1000
                        return orig_normal(key, shape, dtype, *a, **kw)
                    calls["normal"] += 1
                    return z

                def fake_uniform(key, shape=(), dtype=float, *a, **kw):
                    calls["uniform"] += 1
                    return jnp.zeros(shape, jnp.float32)
                with mock.patch("jax.random.normal", fake_normal), mock.patch("jax.random.uniform", fake_uniform):
                    out = k.transition(key0, ks, state, epoch)
                return (out.info.acceptance_prob, out.info.position_moved, out.info.error_code,
                        out.model_state["x"], calls["normal"], calls["uniform"])

            Ps = [params(cases[i]) for i in idxs]
            args = [jnp.asarray(np.array([cases[i]["x"] for i in idxs]), dtype=jnp.float32),
                    jnp.asarray(np.array([cases[i]["z"] for i in idxs]), dtype=jnp.float32),
                    jnp.asarray(np.array([cases[i]["s"] for i in idxs]), dtype=jnp.float32),
                    jnp.asarray(np.array([cases[i]["seed"] for i in idxs], dtype=np.uint32))]
            args += [jnp.asarray(np.array([P[nm] for P in Ps]), dtype=jnp.float32) for nm in names]
            if jit:
                out = [np.asarray(o) for o in jax.jit(jax.vmap(f))(*args)]
                rows = [[o[j] for o in out] for j in range(len(idxs))]
            else:
                rows = [[np.asarray(t) for t in f(*[a[j] for a in args])] for j in range(len(idxs))]
            for j, i in enumerate(idxs):
                p, moved, code, xp, nn, nu = rows[j]
                c = cases[i]
                assert np.asarray(xp).dtype == np.float32, np.asarray(xp).dtype
                c["p"] = float(p)
                c["moved"] = bool(moved)
                c["code"] = int(code)
                c["xp"] = [float(t) for t in np.asarray(xp).reshape(-1)]
                c["forced_ok"] = bool(int(nn) >= 1 and int(nu) >= 1)
            if log:
                log(f"  ran {len(idxs):3d} float32 cases of iwls/{fam}{n} in {time.time() - t0:.1f}s")
    return cases


def describe(c):
    return (f"float32 IWLS kernel, family {c['fam']} with {c['n']} coefficients, information scale {c['kappa']:g}, "
            f"step size {c['s']}, parameter seed {c['pseed']}, x[:3]={c['x'][:3]}, z[:3]={c['z'][:3]}: ")


def oracle(c):
    """the property on one float32 transition, n-d model evaluated in float64"""
    import numpy as np
    if c["kernel"] == "utils32":
        L = np.array(c["Lfull"])
        x, m = np.array(c["x"]), np.array(c["m"])
        zz = (x - m) @ L
        want = float(np.sum(-0.5 * zz ** 2 - 0.5 * math.log(2 * math.pi)) + np.sum(np.log(np.diag(L))))
        v = c["val"][0]
        if not math.isfinite(v) or abs(v - want) > 1e-4 * max(1.0, abs(want)):
            return (f"float32 mvn_log_prob on a {len(x)}-dimensional block with Cholesky diagonal {np.diag(L)[:4].tolist()}... "
                    f"(product of the diagonal = 1e{np.sum(np.log10(np.diag(L))):.0f}, outside the float32 range) returned {v!r}; "
                    f"the Gaussian log-density (log det = SUM of the logs of the diagonal) is {want!r}")
        return None
    lp, score, info = np_fns(c)
    x, xp, z = np.array(c["x"]), np.array(c["xp"]), np.array(c["z"])
    s = float(np.float32(c["s"]))
    x = np.array([float(np.float32(t)) for t in x])

    def parts(a):
        F = info(a)
        L = np.linalg.cholesky(F)
        return a + s * s / 2 * np.linalg.solve(F, score(a)), L

    def logq(b, mu, L):
        zz = (b - mu) @ (L / s)
        return float(np.sum(-0.5 * zz ** 2 - 0.5 * math.log(2 * math.pi)) + np.sum(np.log(np.diag(L / s))))
    mu, L = parts(x)
    if c["code"] != 0 or not c["moved"]:
        # the proposal the model predicts for this z, to evaluate the true ratio
        xq = mu + s * np.linalg.solve(L.T, z)
        muq, Lq = parts(xq)
        la = lp(xq) - lp(x) + logq(x, muq, Lq) - logq(xq, mu, L)
        return (describe(c) + f"kernel reported acceptance_prob {c['p']!r}, error code {c['code']}, moved={c['moved']} with the uniform "
                f"draw forced to 0, but the Metropolis-Hastings log ratio of the model's proposal is finite: {la!r} "
                f"(sum of log10 of diag(L/s) = {np.sum(np.log10(np.diag(L / s))):.1f}; float32 range is about +-38)")
    mup, Lp = parts(xp)
    fwd, bwd = logq(xp, mu, L), logq(x, mup, Lp)
    la = lp(xp) - lp(x) + bwd - fwd
    # float32 tolerance: relative 2e-5 (about 170 float32 ulps) on the magnitudes that enter the log ratio
    tol = 2e-5 * (1.0 + abs(lp(xp)) + abs(lp(x)) + abs(fwd) + abs(bwd))
    if not (0.0 <= c["p"] <= 1.0):
        return describe(c) + f"acceptance probability {c['p']!r} outside [0, 1]"
    if c["p"] <= 0.0:
        if la > -80:
            return describe(c) + f"reported acceptance_prob 0 but the log ratio is {la!r}"
        return None
    lo = math.log(c["p"])
    want = min(0.0, la)
    if abs(lo - want) > tol and not (la >= -tol and lo >= -tol):
        return (describe(c) + f"accepted move reports acceptance_prob {c['p']!r} (log {lo!r}) but "
                f"min(0, log pi(x')q(x|x')/(pi(x)q(x'|x))) = {want!r} (float32 tolerance {tol:.3g})")
    if c["forced_ok"]:
        back = L.T @ (xp - mu) / s
        amp = EPS32 * (np.max(np.abs(xp)) + np.max(np.abs(mu))) * np.max(np.abs(L)) / s * len(x)
        tz = 1e-3 * (1 + np.max(np.abs(z))) + 50 * amp
        if np.max(np.abs(back - z)) > tz:
            return (describe(c) + f"new state is not mean + s * chol(F)^-T z of the documented IWLS proposal "
                    f"(largest standardised deviation {np.max(np.abs(back - z))!r}, float32 tolerance {tz:.3g})")
    return None


# ---------------------------------------------------------------------------------------------
# mvn_log_prob alone, float32, where prod(diag) over-/underflows
# ---------------------------------------------------------------------------------------------
def utils_cases(rnd, quick):
    import jax, jax.numpy as jnp, numpy as np
    from jax.experimental import disable_x64
    from liesel.goose import iwls_utils as iu
    out = []
    specs = [(10, 1e4, True), (20, 1e2, True), (10, 2.0 ** -14, True), (10, 1e4, False)]
    if not quick:
        specs += [(20, 1e-3, True), (20, 1e2, False), (10, 2.0 ** 14, False)]
    with disable_x64():
        for (n, scale, diagonal) in specs:
            L = np.zeros((n, n))
            for i in range(n):
                L[i, i] = float(np.float32(scale * rnd.choice([0.5, 1.0, 1.0, 2.0])))
                if not diagonal:
                    for j in range(i):
                        L[i, j] = float(np.float32(scale * rnd.randint(-2, 2) / 8))
            m = [rnd.randint(-8, 8) / 8 for _ in range(n)]
            x = [float(np.float32(mi + rnd.randint(-8, 8) / 8 / scale)) for mi in m]
            v = iu.mvn_log_prob(jnp.asarray(np.array(x), dtype=jnp.float32), jnp.asarray(np.array(m), dtype=jnp.float32),
                                jnp.asarray(L, dtype=jnp.float32))
            assert np.asarray(v).dtype == np.float32
            out.append(dict(kernel="utils32", fn="mvn_log_prob", n=n, diagonal=diagonal, Lfull=L.tolist(), m=m, x=x,
                            val=[float(v)]))
    return out
