"""C06 - proposal corrections of the RW / IWLS / MH kernels: reported acceptance probability is the
Metropolis-Hastings probability for the kernel's actual proposal density.

The real kernels (gs.IWLSKernel, gs.RWKernel, gs.MHKernel; public `transition`) are run under x64 on
DictInterface and liesel models whose log-density, score and information are known in closed form.
Two streams:
  forced : `jax.random.normal` / `jax.random.uniform` are patched in the harness process so that the
           standard-normal draw z is prescribed and the uniform draw is 0 (every proposal with positive
           acceptance probability is accepted, so the proposal is observable as the new state);
  free   : nothing patched, real PRNG keys; only accepted transitions are used.
For every accepted transition Coq certifies with `interval` (Qed-closed R-lemmas over the model
Analytic/IWLS.v instantiated with the family's closed forms from Analytic/CorrC06.v):
  P  the new state equals the model's proposal (mvn_sample composition) at the prescribed z  [forced]
  A  the reported acceptance_prob equals clip(exp(lp x' - lp x + correction), max=1).
The three iwls_utils functions are also tied to Analytic/Gauss.v on random triangular factors.
The direct oracle recomputes the Metropolis-Hastings probability with scipy densities
(covariance parameterisation, independent of the code's precision-Cholesky parameterisation).
"""
from __future__ import annotations

import math
import os
import random
import sys
from fractions import Fraction
from unittest import mock

from . import common
from . import c06_f32
from . import c06_edge
from . import c06_tie
from .common import rlit, lst

HEADER = """From Coq Require Import Reals List Lra.
Import ListNotations.
From Interval Require Import Tactic.
From LV Require Import Analytic.Gauss Analytic.IWLS Analytic.CorrC06.
Open Scope R_scope.
"""

CBV = ("close vclose "
       "mh_log_acc iwls_mu iwls_prec iwls_propose iwls_fwd iwls_bwd iwls_corr iwls_log_acc "
       "rw_propose rw_corr rw_log_acc mhk_log_acc chol_of_info "
       "iwls_mu_n iwls_prec_n iwls_propose_n iwls_fwd_n iwls_bwd_n iwls_corr_n iwls_log_acc_n "
       "rw_propose_n rw_log_acc_n chol_of_info_n "
       "std_normal_logpdf gauss_logpdf_prec gauss_sample solve1 "
       "dot vadd vsub vscale rsum ltmul lmul back_subst fwd_subst diag tri_div solve mvn_log_prob mvn_sample "
       "schur chol "
       "gs_lp gs_score gs_info qt_lp qt_score qt_info lg_lp lg_score lg_info "
       "pois_lik pois_lik_score pois_lik_info pois_lp pois_score pois_info "
       "nn_sq nn_res rlen nn_lp nn_score nn_info user_chol ar_corr "
       "vmul symmul add_diag vg_lp vg_score vg_info vp_lp vp_score vp_info "
       "p2_sum p2_lp p2_score p2_info const_chol vbox tbox rbox mu_of logq_of "
       "map fold_right flat_map app length fst snd")

PREC = 64


# ---------------------------------------------------------------------------------------------
# literals
# ---------------------------------------------------------------------------------------------
def R(x):
    return rlit(float(x))


def V(v):
    return lst(R(t) for t in v)


def T(tri):
    return lst(V(c) for c in tri)


def D(ts, ys):
    return lst(f"({R(t)}, {R(y)})" for t, y in zip(ts, ys))


def tri_of_lower(M):
    n = len(M)
    return [[float(M[i][j]) for i in range(j, n)] for j in range(n)]


def full_of_tri_sym(tri):
    import numpy as np
    n = len(tri)
    A = np.zeros((n, n))
    for j, c in enumerate(tri):
        for k, v in enumerate(c):
            A[j + k, j] = v
            A[j, j + k] = v
    return A


def lower_of_tri(tri):
    import numpy as np
    n = len(tri)
    A = np.zeros((n, n))
    for j, c in enumerate(tri):
        for k, v in enumerate(c):
            A[j + k, j] = v
    return A


# ---------------------------------------------------------------------------------------------
# families: closed forms (numpy, for the oracle), Coq terms, jax log-density
# ---------------------------------------------------------------------------------------------
def np_fns(fam, P):
    """(lp, score, info) of the family as numpy functions of the flat position"""
    import numpy as np
    if fam == "gs":
        m, p = P["m"], P["p"]
        return (lambda x: float(-p * (x[0] - m) ** 2 / 2), lambda x: np.array([-p * (x[0] - m)]),
                lambda x: np.array([[p]]))
    if fam == "qt":
        return (lambda x: float(-x[0] ** 4 / 4 - x[0] ** 2 / 2), lambda x: np.array([-x[0] ** 3 - x[0]]),
                lambda x: np.array([[3 * x[0] ** 2 + 1]]))
    if fam == "lg":
        a, b = P["a"], P["b"]
        return (lambda x: float(a * x[0] - b * math.exp(x[0])), lambda x: np.array([a - b * math.exp(x[0])]),
                lambda x: np.array([[b * math.exp(x[0])]]))
    if fam == "pois":
        t, y, pr = np.array(P["t"]), np.array(P["y"]), P["pr"]
        return (lambda x: float(np.sum(y * t * x[0] - np.exp(t * x[0])) - pr * x[0] ** 2 / 2),
                lambda x: np.array([np.sum(t * (y - np.exp(t * x[0]))) - pr * x[0]]),
                lambda x: np.array([[np.sum(t * t * np.exp(t * x[0])) + pr]]))
    if fam == "nn":
        ys, sig, tau = np.array(P["ys"]), P["sig"], P["tau"]
        return (lambda x: float(-np.sum((ys - x[0]) ** 2) / (2 * sig ** 2) - x[0] ** 2 / (2 * tau ** 2)),
                lambda x: np.array([np.sum(ys - x[0]) / sig ** 2 - x[0] / tau ** 2]),
                lambda x: np.array([[len(ys) / sig ** 2 + 1 / tau ** 2]]))
    if fam == "vg":
        m, A = np.array(P["m"]), full_of_tri_sym(P["A"])
        return (lambda x: float(-(x - m) @ A @ (x - m) / 2), lambda x: -A @ (x - m), lambda x: A)
    if fam == "vp":
        A = full_of_tri_sym(P["A"])
        return (lambda x: float(-np.sum(x ** 4) / 4 - x @ A @ x / 2), lambda x: -x ** 3 - A @ x,
                lambda x: np.diag(3 * x ** 2) + A)
    if fam == "p2":
        t, y, pr = np.array(P["t"]), np.array(P["y"]), P["pr"]

        def eta(x):
            return x[0] + x[1] * t
        return (lambda x: float(np.sum(y * eta(x) - np.exp(eta(x))) - pr * (x @ x) / 2),
                lambda x: np.array([np.sum(y - np.exp(eta(x))) - pr * x[0], np.sum(t * (y - np.exp(eta(x)))) - pr * x[1]]),
                lambda x: np.array([[np.sum(np.exp(eta(x))) + pr, np.sum(t * np.exp(eta(x)))],
                                    [np.sum(t * np.exp(eta(x))), np.sum(t * t * np.exp(eta(x))) + pr]]))
    raise KeyError(fam)


def coq_fns(fam, P):
    """Coq terms (lp, score, info) of the family"""
    if fam == "gs":
        a = f"{R(P['m'])} {R(P['p'])}"
        return f"(gs_lp {a})", f"(gs_score {a})", f"(gs_info {a})"
    if fam == "qt":
        return "qt_lp", "qt_score", "qt_info"
    if fam == "lg":
        a = f"{R(P['a'])} {R(P['b'])}"
        return f"(lg_lp {a})", f"(lg_score {a})", f"(lg_info {a})"
    if fam == "pois":
        a = f"{D(P['t'], P['y'])} {R(P['pr'])}"
        return f"(pois_lp {a})", f"(pois_score {a})", f"(pois_info {a})"
    if fam == "nn":
        a = f"{V(P['ys'])} {R(P['sig'])} {R(P['tau'])}"
        return f"(nn_lp {a})", f"(nn_score {a})", f"(nn_info {a})"
    if fam == "vg":
        a = f"{V(P['m'])} {T(P['A'])}"
        return f"(vg_lp {a})", f"(vg_score {a})", f"(vg_info {a})"
    if fam == "vp":
        a = f"{T(P['A'])}"
        return f"(vp_lp {a})", f"(vp_score {a})", f"(vp_info {a})"
    if fam == "p2":
        a = f"{D(P['t'], P['y'])} {R(P['pr'])}"
        return f"(p2_lp {a})", f"(p2_score {a})", f"(p2_info {a})"
    raise KeyError(fam)


def jax_logp(fam, P, flat_of_state):
    """log-density as a jax function of the model state (closed forms written with jnp)"""
    import jax.numpy as jnp
    if fam == "gs":
        m, p = P["m"], P["p"]
        return lambda st: jnp.sum(-p * (flat_of_state(st) - m) ** 2 / 2)
    if fam == "qt":
        return lambda st: jnp.sum(-flat_of_state(st) ** 4 / 4 - flat_of_state(st) ** 2 / 2)
    if fam == "lg":
        a, b = P["a"], P["b"]
        return lambda st: jnp.sum(a * flat_of_state(st) - b * jnp.exp(flat_of_state(st)))
    if fam == "pois":
        t, y, pr = jnp.array(P["t"]), jnp.array(P["y"]), P["pr"]

        def f(st):
            b = flat_of_state(st)[0]
            return jnp.sum(y * t * b - jnp.exp(t * b)) - pr * b * b / 2
        return f
    if fam == "vg":
        m, A = jnp.array(P["m"]), jnp.array(full_of_tri_sym(P["A"]))

        def f(st):
            d = flat_of_state(st) - m
            return -d @ A @ d / 2
        return f
    if fam == "vp":
        A = jnp.array(full_of_tri_sym(P["A"]))

        def f(st):
            x = flat_of_state(st)
            return -jnp.sum(x ** 4) / 4 - x @ A @ x / 2
        return f
    if fam == "p2":
        t, y, pr = jnp.array(P["t"]), jnp.array(P["y"]), P["pr"]

        def f(st):
            x = flat_of_state(st)
            eta = x[0] + x[1] * t
            return jnp.sum(y * eta - jnp.exp(eta)) - pr * (x @ x) / 2
        return f
    raise KeyError(fam)


def liesel_model(fam, P):
    """the same log-density (up to a constant) as a liesel model; position key 'x'"""
    import jax.numpy as jnp
    import liesel.model as lsl
    import tensorflow_probability.substrates.jax.distributions as tfd
    if fam == "nn":
        x = lsl.param(jnp.array([0.0]), lsl.Dist(tfd.Normal, loc=jnp.float64(0.0), scale=jnp.float64(P["tau"])), name="x")
        y = lsl.obs(jnp.array(P["ys"]), lsl.Dist(tfd.Normal, loc=x, scale=jnp.float64(P["sig"])), name="y")
    elif fam == "pois":
        t = jnp.array(P["t"])
        x = lsl.param(jnp.array([0.0]), lsl.Dist(tfd.Normal, loc=jnp.float64(0.0), scale=jnp.float64(1 / math.sqrt(P["pr"]))), name="x")
        rate = lsl.Var(lsl.Calc(lambda b: jnp.exp(t * b[0]), x), name="rate")
        y = lsl.obs(jnp.array(P["y"]), lsl.Dist(tfd.Poisson, rate=rate), name="y")
    elif fam == "p2":           # two position keys: intercept (shape ()) and slope (shape (1,))
        t = jnp.array(P["t"])
        sd = jnp.float64(1 / math.sqrt(P["pr"]))
        b0 = lsl.param(jnp.float64(0.0), lsl.Dist(tfd.Normal, loc=jnp.float64(0.0), scale=sd), name="intercept")
        b1 = lsl.param(jnp.array([0.0]), lsl.Dist(tfd.Normal, loc=jnp.float64(0.0), scale=sd), name="slope")
        rate = lsl.Var(lsl.Calc(lambda u, v: jnp.exp(u + v[0] * t), b0, b1), name="rate")
        y = lsl.obs(jnp.array(P["y"]), lsl.Dist(tfd.Poisson, rate=rate), name="y")
    else:
        raise KeyError(fam)
    return lsl.GraphBuilder(to_float32=False).add(y).build_model()


# ---------------------------------------------------------------------------------------------
# running the real kernels
# ---------------------------------------------------------------------------------------------
GROUP_KEYS = ("kernel", "fam", "iface", "chol", "mode", "epoch", "keys", "decl")


def group_of(c):
    import json
    return json.dumps({k: c.get(k) for k in GROUP_KEYS} | {"P": c["P"], "n": len(c["x"])}, sort_keys=True)


# multi-key blocks: (order in which the keys are handed to the kernel, shapes).  The flat position of a dict
# block is laid out in SORTED key order (ravel_pytree); every multi-key order below is NOT alphabetical, with
# mixed shapes, an uppercase name (sorts before lowercase) and a name that is a prefix of another.
KEYSPECS = {
    "x": (["x"], lambda n: {"x": (n,)}),
    "ba": (["b", "a"], lambda n: {"a": (), "b": (n - 1,)}),
    "si": (["slope", "intercept"], lambda n: {"intercept": (), "slope": (n - 1,)}),
    "aZ": (["a", "Z"], lambda n: {"Z": (n - 1,), "a": ()}),
    "pre": (["beta_0", "beta"], lambda n: {"beta": (n - 1,), "beta_0": ()}),
    "gAb": (["gamma", "Alpha", "beta"], lambda n: {"Alpha": (), "beta": (n - 2,), "gamma": ()}),
}


def kernel_key_order(keys):
    return list(KEYSPECS[keys][0])


def split_keys(keys, n):
    """layout of the block: list of (key, shape) in flat order = sorted key order (canonical)"""
    return sorted(KEYSPECS[keys][1](n).items())


def key_desc(c):
    if c["keys"] == "x":
        return ""
    lay = split_keys(c["keys"], len(c["x"]))
    return (f"position_keys={kernel_key_order(c['keys'])} (flat coordinates are in sorted key order "
            + ", ".join(f"{k}{list(shp)}" for k, shp in lay) + "), ")


def make_runner(c):
    """returns f(x, z, s, seed) -> (p, moved, code, xp_flat, n_normal_calls, n_uniform_calls) for the group of c"""
    import jax, jax.numpy as jnp
    import liesel.goose as gs
    from liesel.goose.epoch import EpochConfig, EpochType

    n = len(c["x"])
    layout = split_keys(c["keys"], n)
    kernel_keys = kernel_key_order(c["keys"])
    P = c["P"]

    def pos_of_flat(x):
        out, k = {}, 0
        for name, shp in layout:
            sz = 1 if shp == () else shp[0]
            out[name] = x[k] if shp == () else x[k:k + sz]
            k += sz
        return out

    def flat_of_pos(pos):
        return jnp.concatenate([jnp.reshape(pos[name], (-1,)) for name, _ in layout])

    if c["iface"] == "dict":
        model = gs.DictInterface(jax_logp(c["fam"], P, flat_of_pos))
        base = None
    else:
        lm = liesel_model(c["fam"], P)
        model = gs.LieselInterface(lm)
        base = lm.state

    et = EpochType.POSTERIOR if c["epoch"] == "post" else EpochType.FAST_ADAPTATION
    epoch = EpochConfig(et, 10, 1, None).to_state(0, 0)

    chol_fn = None
    if c["chol"] == "user":
        c0, c2 = P["c0"], P["c2"]
        chol_fn = lambda st: jnp.sqrt(c0 + c2 * flat_of_pos(st) ** 2).reshape(1, 1)
    elif c["chol"] == "const":
        Lc = jnp.array(lower_of_tri(P["L"]))
        chol_fn = lambda st: Lc

    def f(x, z, s, seed):
        calls = {"normal": 0, "uniform": 0}
        orig_normal = jax.random.normal
        if base is None:
            state = dict(pos_of_flat(x))
            state["aux"] = jnp.float64(7.0)
        else:
            state = model.update_state(pos_of_flat(x), base)
        if c["kernel"] == "iwls":
            k = gs.IWLSKernel(kernel_keys, chol_info_fn=chol_fn, initial_step_size=s)
        elif c["kernel"] == "rw":
            k = gs.RWKernel(kernel_keys, initial_step_size=s)
        else:
            from liesel.goose.mh_kernel import MHProposal
            decl = c["decl"]

            def proposal_fn(key, model_state, step_size):
                xx = flat_of_pos(model.extract_position(kernel_keys, model_state))
                zz = jax.random.normal(key, xx.shape)
                if decl == "ar":
                    rho = P["rho"]
                    xp = rho * xx + step_size * zz
                    corr = jnp.sum((xp - rho * xx) ** 2 - (xx - rho * xp) ** 2) / (2 * step_size ** 2)
                else:        # symmetric random walk proposal, but the user declares k * (x' - x)
                    xp = xx + step_size * zz
                    corr = P["k"] * jnp.sum(xp - xx)
                return MHProposal(pos_of_flat(xp), corr)
            k = gs.MHKernel(kernel_keys, proposal_fn, initial_step_size=s)
        k.set_model(model)
        key0 = jax.random.PRNGKey(seed)
        ks = k.init_state(key0, state)

        def fake_normal(key, shape=(), dtype=float, *a, **kw):
            if tuple(shape) != tuple(z.shape):
                # a draw this harness does not know about: leave it alone, and do not claim the draw was forced
                calls["normal"] -= 1000
                return orig_normal(key, shape, dtype, *a, **kw)
            calls["normal"] += 1
            return z

        def fake_uniform(key, shape=(), dtype=float, *a, **kw):
            calls["uniform"] += 1
            return jnp.zeros(shape, jnp.float64)

        if c["mode"] == "forced":
            with mock.patch("jax.random.normal", fake_normal), mock.patch("jax.random.uniform", fake_uniform):
                out = k.transition(key0, ks, state, epoch)
        else:
            out = k.transition(key0, ks, state, epoch)
        newpos = model.extract_position(kernel_keys, out.model_state)
        return (out.info.acceptance_prob, out.info.position_moved, out.info.error_code,
                flat_of_pos(newpos), calls["normal"], calls["uniform"])
    return f


def run_cases(cases, jit=True, log=None):
    """fill in the observations (p, moved, code, xp, forced_ok) of every case by running the real kernel"""
    import jax, jax.numpy as jnp, numpy as np
    jax.config.update("jax_enable_x64", True)
    groups = {}
    for i, c in enumerate(cases):
        groups.setdefault(group_of(c), []).append(i)
    import time
    for g, idxs in groups.items():
        t0 = time.time()
        c0 = cases[idxs[0]]
        f = make_runner(c0)
        xs = jnp.array([cases[i]["x"] for i in idxs], dtype=jnp.float64)
        zs = jnp.array([cases[i]["z"] for i in idxs], dtype=jnp.float64)
        ss = jnp.array([cases[i]["s"] for i in idxs], dtype=jnp.float64)
        sd = jnp.array([cases[i]["seed"] for i in idxs], dtype=jnp.uint32)
        if jit:
            out = jax.jit(jax.vmap(f))(xs, zs, ss, sd)
            out = [np.asarray(o) for o in out]
            rows = [[o[j] for o in out] for j in range(len(idxs))]
        else:
            rows = []
            for j in range(len(idxs)):
                o = f(xs[j], zs[j], ss[j], sd[j])
                rows.append([np.asarray(t) for t in o])
        for j, i in enumerate(idxs):
            p, moved, code, xp, nn, nu = rows[j]
            c = cases[i]
            c["p"] = float(p)
            c["moved"] = bool(moved)
            c["code"] = int(code)
            c["xp"] = [float(t) for t in np.asarray(xp).reshape(-1)]
            c["forced_ok"] = bool(c["mode"] == "forced" and int(nn) >= 1 and int(nu) >= 1)
        if log:
            log(f"  ran {len(idxs):3d} cases of {c0['kernel']}/{c0['fam']}{len(c0['x'])}/{c0['iface']}/{c0['chol']}/{c0['mode']}/{c0['epoch']} in {time.time() - t0:.1f}s")
    return cases


# ---------------------------------------------------------------------------------------------
# generator
# ---------------------------------------------------------------------------------------------
STEP_SIZES = [0.1, 0.25, 0.5, 1.0, 1.5, 2.0]


def dy(rnd, lo, hi, den=8):
    return rnd.randint(int(lo * den), int(hi * den)) / den


def spd_tri(rnd, n):
    """dyadic SPD matrix A = L0 L0^T (+ its lower-triangular factor), as trimmed columns"""
    import numpy as np
    L0 = np.zeros((n, n))
    for i in range(n):
        for j in range(i):
            L0[i, j] = dy(rnd, -1, 1, 4)
        L0[i, i] = rnd.choice([0.5, 0.75, 1.0, 1.25, 1.5, 2.0])
    A = L0 @ L0.T
    return tri_of_lower(A), tri_of_lower(L0)


def sample_params(rnd, fam, n):
    if fam == "gs":
        return {"m": dy(rnd, -2, 2), "p": rnd.choice([0.25, 0.5, 1.0, 2.0, 4.0])}
    if fam == "qt":
        return {}
    if fam == "lg":
        return {"a": rnd.choice([0.5, 1.0, 2.0, 3.5]), "b": rnd.choice([0.5, 1.0, 2.0])}
    if fam in ("pois", "p2"):
        m = 4
        return {"t": [dy(rnd, -1, 1, 4) for _ in range(m)], "y": [float(rnd.randint(0, 5)) for _ in range(m)],
                "pr": rnd.choice([0.25, 1.0, 4.0])}
    if fam == "nn":
        return {"ys": [dy(rnd, -2, 2, 4) for _ in range(3)], "sig": rnd.choice([0.5, 1.0, 2.0]), "tau": rnd.choice([1.0, 2.0, 4.0])}
    if fam == "vg":
        A, _ = spd_tri(rnd, n)
        return {"m": [dy(rnd, -1, 1, 4) for _ in range(n)], "A": A}
    if fam == "vp":
        A, _ = spd_tri(rnd, n)
        return {"A": A}
    raise KeyError(fam)


# (kernel, fam, n, iface, chol, mode, epoch, keys, decl, cases in quick tier, cases in thorough tier)
PLAN = [
    ("iwls", "qt", 1, "dict", "default", "forced", "post", "x", None, 8, 60),
    ("iwls", "gs", 1, "dict", "default", "forced", "post", "x", None, 6, 40),
    ("iwls", "lg", 1, "dict", "default", "forced", "post", "x", None, 6, 40),
    ("iwls", "pois", 1, "dict", "default", "forced", "post", "x", None, 6, 40),
    ("iwls", "qt", 1, "dict", "user", "forced", "post", "x", None, 6, 40),
    ("iwls", "qt", 1, "dict", "default", "forced", "adapt", "x", None, 6, 24),
    ("iwls", "qt", 1, "dict", "default", "free", "post", "x", None, 9, 60),
    ("iwls", "nn", 1, "liesel", "default", "forced", "post", "x", None, 6, 40),
    ("iwls", "pois", 1, "liesel", "default", "forced", "post", "x", None, 6, 40),
    ("iwls", "vg", 2, "dict", "default", "forced", "post", "x", None, 2, 18),
    ("iwls", "vp", 2, "dict", "default", "forced", "post", "x", None, 2, 18),
    ("iwls", "p2", 2, "dict", "default", "forced", "post", "x", None, 2, 18),
    ("iwls", "vp", 2, "dict", "const", "forced", "post", "x", None, 2, 18),
    ("iwls", "vg", 3, "dict", "default", "forced", "post", "x", None, 1, 8),
    ("iwls", "vp", 3, "dict", "default", "forced", "post", "x", None, 2, 12),
    ("iwls", "vp", 3, "dict", "default", "free", "post", "ba", None, 6, 30),
    # several keys, handed to the kernel in NON-alphabetical order (forced stream: constant z, see gen_cases)
    ("iwls", "vp", 3, "dict", "default", "forced", "post", "ba", None, 1, 10),
    ("iwls", "p2", 2, "dict", "default", "forced", "post", "si", None, 1, 10),
    ("iwls", "p2", 2, "liesel", "default", "forced", "post", "si", None, 2, 10),
    ("iwls", "p2", 2, "liesel", "default", "free", "post", "si", None, 4, 16),
    ("iwls", "vp", 2, "dict", "default", "forced", "post", "aZ", None, 1, 8),
    ("iwls", "vg", 2, "dict", "default", "forced", "post", "pre", None, 1, 8),
    ("iwls", "vp", 3, "dict", "default", "forced", "post", "gAb", None, 1, 10),
    ("rw", "vp", 3, "dict", "default", "forced", "post", "gAb", None, 2, 12),
    ("rw", "qt", 1, "dict", "default", "forced", "post", "x", None, 6, 40),
    ("rw", "lg", 1, "dict", "default", "forced", "adapt", "x", None, 0, 24),
    ("rw", "vp", 2, "dict", "default", "forced", "post", "x", None, 6, 30),
    ("rw", "vp", 3, "dict", "default", "free", "post", "ba", None, 9, 60),
    ("rw", "nn", 1, "liesel", "default", "forced", "post", "x", None, 0, 30),
    ("mh", "gs", 1, "dict", "default", "forced", "post", "x", "ar", 6, 40),
    ("mh", "qt", 1, "dict", "default", "forced", "post", "x", "lin", 6, 40),
    ("mh", "qt", 1, "dict", "default", "free", "post", "x", "ar", 0, 60),
]
# at most this many accepted free-stream vector IWLS transitions PER KEY LAYOUT get (expensive) R-lemmas
FREE_VEC_CAP = {True: 1, False: 8}

CORPUS = [
    # the Coq witnesses of Properties/C06.v replayed on the code: standard normal target, s = 1, 0 -> 1
    dict(kernel="iwls", fam="gs", iface="dict", chol="default", mode="forced", epoch="post", keys="x", decl=None,
         P={"m": 0.0, "p": 1.0}, x=[0.0], z=[1.0], s=1.0, seed=1),
    dict(kernel="iwls", fam="qt", iface="dict", chol="default", mode="forced", epoch="post", keys="x", decl=None,
         P={}, x=[0.0], z=[1.0], s=1.0, seed=1),
    dict(kernel="iwls", fam="qt", iface="dict", chol="default", mode="forced", epoch="post", keys="x", decl=None,
         P={}, x=[1.0], z=[-0.125], s=1.0, seed=1),
    dict(kernel="mh", fam="gs", iface="dict", chol="default", mode="forced", epoch="post", keys="x", decl="ar",
         P={"m": 0.0, "p": 1.0, "rho": 0.5}, x=[0.0], z=[1.0], s=1.0, seed=1),
]


def gen_cases(rnd, quick, scale=1.0, only_kernels=None):
    cases = [dict(c) for c in CORPUS if not only_kernels or c["kernel"] in only_kernels]
    for (kernel, fam, n, iface, chol, mode, epoch, keys, decl, nq, nt) in PLAN:
        if only_kernels and kernel not in only_kernels:
            continue
        if (nq if quick else nt) == 0:
            continue            # thorough-only group
        cnt = max(1, int(round((nq if quick else nt) * scale)))
        # one parameter set per group in the quick tier (three in the thorough tier) keeps the number of jit
        # compilations small; parameters enter the traced function as constants
        nsets = 1 if quick else 3
        Ps = []
        for _ in range(nsets):
            P = sample_params(rnd, fam, n)
            if quick and fam == "gs":
                P = {"m": 0.0, "p": 1.0}
            if chol == "user":
                P["c0"], P["c2"] = rnd.choice([0.5, 1.0, 2.0]), rnd.choice([0.0, 0.5, 1.0])
            if chol == "const":
                _, L = spd_tri(rnd, n)
                P["L"] = L
            if decl == "ar":
                P["rho"] = 0.5 if (quick and fam == "gs") else rnd.choice([0.5, 0.75, -0.5, 0.25])
            if decl == "lin":
                P["k"] = rnd.choice([0.25, -0.5, 1.0])
            Ps.append(P)
        for j in range(cnt):
            r = (j + 4) % 6 if cnt >= 6 else rnd.randrange(6)
            # forced strata: r=0 z=0 (proposal = proposal mean); r=1 far tail start; r=2 large |z| (small alpha);
            # r=3 x at 0; others random
            x = [dy(rnd, -2, 2) for _ in range(n)]
            z = [dy(rnd, -2, 2) for _ in range(n)]
            # (multi-key groups have few cases: start them at the larger step sizes, where a wrong score / Hessian shows most)
            s = STEP_SIZES[(j + (0 if keys == "x" else 2)) % len(STEP_SIZES)] if j < 6 else rnd.choice(STEP_SIZES)
            if r == 0:
                z = [0.0] * n
            elif r == 1:
                x = [rnd.choice([-1, 1]) * dy(rnd, 2, 3) for _ in range(n)]
            elif r == 2:
                z = [rnd.choice([-1, 1]) * dy(rnd, 2.5, 3.5) for _ in range(n)]
            elif r == 3:
                x = [0.0] * n
            if keys != "x" and mode == "forced":
                # the same normal draw in every coordinate: the check then does not depend on WHICH consistent
                # flattening order an implementation uses for the draw, only on evaluating the model at the true point
                z = [z[0]] * n
            cases.append(dict(kernel=kernel, fam=fam, iface=iface, chol=chol, mode=mode, epoch=epoch, keys=keys,
                              decl=decl, P=Ps[j % nsets], x=x, z=z, s=s, seed=rnd.randrange(2 ** 31)))
    return cases


def stratum(c):
    n = len(c["x"])
    if not c["moved"]:
        a = "not-accepted"
    elif c["p"] >= 1.0:
        a = "alpha=1(clipped)"
    elif c["p"] < 1e-6:
        a = "alpha<1e-6"
    elif c["p"] < 0.1:
        a = "alpha<0.1"
    else:
        a = "0.1<=alpha<1"
    return f"{c['kernel']}.{c['fam']}{n}.{c['iface']}.{c['chol']}.{c['mode']}.{c['epoch']}.{c['keys']}", a


def generate(ctx):
    import numpy as np
    import time
    common.log(f"[C06] build + theorem re-check done at {time.time() - ctx.t0:.0f}s")
    rnd = random.Random(ctx.seed)
    cases = gen_cases(rnd, ctx.quick, scale=1.0 if ctx.quick else 1.6)
    run_cases(cases, jit=True, log=common.log)
    common.log(f"[C06] kernels run (jit+vmap) at {time.time() - ctx.t0:.0f}s")
    # eager re-run of a sub-sample (no jit, no vmap)
    sub = [dict(c) for c in cases[:: max(1, len(cases) // (6 if ctx.quick else 40))]]
    eager = run_cases([dict(c) for c in sub], jit=False)
    ndiff = 0
    for a, b in zip(sub, eager):
        same = (a["moved"] == b["moved"] and a["code"] == b["code"] and abs(a["p"] - b["p"]) <= 1e-9 * max(1.0, a["p"])
                and np.allclose(a["xp"], b["xp"], rtol=1e-9, atol=1e-9))
        if not same:
            ndiff += 1
    ctx.tested_not_proved.append(f"eager vs jit+vmap kernel.transition on {len(sub)} cases: {ndiff} differences (tolerance 1e-9)")
    cases += utils_cases(rnd, ctx.quick)
    common.log(f"[C06] eager re-runs and iwls_utils done at {time.time() - ctx.t0:.0f}s")
    # float32 (liesel's default dtype) stratum: larger blocks, where a float-only slip (overflowing log-determinant) shows
    f32 = c06_f32.gen_cases(rnd, ctx.quick)
    c06_f32.run_cases(f32, jit=True, log=common.log)
    cases += f32 + c06_f32.utils_cases(rnd, ctx.quick)
    common.log(f"[C06] float32 large-block stratum done at {time.time() - ctx.t0:.0f}s")
    # zero-density stratum: transitions from / to points with log pi = -inf (ratio in the extended reals)
    edge = c06_edge.gen_cases(rnd, ctx.quick)
    c06_edge.run_cases(edge, jit=True, log=common.log)
    cases += edge
    common.log(f"[C06] zero-density stratum done at {time.time() - ctx.t0:.0f}s")
    usable = 0
    for c in cases:
        if c["kernel"] == "edge":
            ctx.hist(f"zero-density.{c['k']}.{c['fam']}{c['n']}.{c['iface']}." + ("from pi(x)=0 to pi(x')>0" if c["dir"] == "in" else "from pi(x)>0 to pi(x')=0"))
            continue
        if c["kernel"] == "iwls32":
            import numpy as np
            ctx.hist(f"float32.iwls.{c['fam']}{c['n']}.info_scale={c['kappa']:g}.step={c['s']}")
            ctx.hist("float32: accepted, error code 0" if (c["moved"] and c["code"] == 0) else "float32: NOT accepted / error code")
            continue
        if c["kernel"] == "utils32":
            ctx.hist(f"float32.iwls_utils.mvn_log_prob.n={c['n']}.{'diagonal' if c['diagonal'] else 'dense'} (prod of diag outside float32 range)")
            continue
        if c["kernel"] == "utils":
            ctx.hist("iwls_utils." + c["fn"] + f".n={len(c['m'])}")
            usable += 1
            continue
        g, a = stratum(c)
        ctx.hist(g)
        ctx.hist("acceptance: " + a)
        ctx.hist(f"step_size={c['s']}")
        if c["moved"]:
            usable += 1
        if c["mode"] == "forced" and not c["forced_ok"]:
            ctx.hist("forced draw not intercepted (falls back to accepted-only)")
    distinct = {(group_of(c), tuple(c["x"]), tuple(c["z"]), c["s"], c["seed"] if c["mode"] == "free" else 0)
                for c in cases if c["kernel"] in ("iwls", "rw", "mh") and c["moved"]}
    ctx.count(len(cases), len(distinct) + sum(1 for c in cases if c["kernel"] in ("utils", "utils32"))
              + sum(1 for c in cases if c["kernel"] == "iwls32" and c["moved"]) + sum(1 for c in cases if c["kernel"] == "edge"))
    ctx.cov["rule"] = ("one case = one real kernel.transition (family, block shape, interface, chol variant, epoch type, "
                       "current point, normal draw or PRNG key, step size) whose proposal was accepted, or one iwls_utils call; "
                       "distinct = distinct such tuples; rejected free-stream transitions are run but not counted")
    for c in cases[:3] + [c for c in cases if c["kernel"] == "iwls" and len(c["x"]) == 3][:1]:
        ctx.sample({k: c[k] for k in c if k != "P"} | {"P": str(c["P"])})
    for c in [c for c in cases if c["kernel"] == "iwls32" and c["n"] == 20][:1]:
        ctx.sample({k: (v[:4] if isinstance(v, list) else v) for k, v in c.items()})
    ctx.assume += [
        "theorems: 0 < step size; Cholesky factor of the information positive (scalar blocks); for MHKernel the declared "
        "correction is log q(x|x')/q(x'|x) of a positive proposal density q",
        "score / information used in the R-lemmas are the closed forms of Analytic/CorrC06.v (derivative relations proved for the scalar families)",
        "float64 results are compared with the real-number model within relative tolerances 1e-9 (proposals, iwls_utils), "
        "1e-8..1e-7 (acceptance probability, scalar blocks) and 1e-6..1e-5 (acceptance probability, vector blocks, staged evaluation)",
    ]
    ctx.tested_not_proved += [
        "vector blocks (n = 2, 3, two keys): the n-dimensional model is evaluated in the R-lemmas, its density interpretation "
        "(multivariate change of variables) is not proved",
        "jax autodiff (grad, jacfwd), jnp.linalg.cholesky, triangular_solve, norm.logpdf agree with the closed forms: tested by the R-lemmas on the sampled cases",
        "that jax.random.normal draws standard normal variates and jax.random.uniform uniform ones (library behaviour)",
        "float32 (default dtype) IWLS transitions on blocks of 10, 20, 40 coefficients (information scales 1, 1e2, 1e4; step sizes 0.01 "
        "(the default), 0.1, 1): error code 0, accepted, log acceptance ratio and proposal agree with the n-d model evaluated in float64 "
        "by the oracle (tolerance 2e-5 relative to the magnitudes involved); these large blocks are not evaluated in Coq, only "
        "mvn_log_prob itself is (float32 value vs Gauss.mvn_log_prob at points where prod(diag) leaves the float32 range)",
        "zero-density stratum: the finite log-densities / corrections handed to the special-value model are the harness's closed forms; "
        "that -inf - finite, finite - -inf behave in XLA as in Base/Xnum.v is what the shard checks on the sampled cases",
        "DA step-size adaptation in adaptation epochs leaves the reported acceptance probability unchanged: tested on the adaptation-epoch cases",
    ]
    ctx.extra_tb = ["Interval tactic (verified interval arithmetic over Flocq/Bignums) for the generated R-lemmas",
                    "mock.patch of jax.random.normal / jax.random.uniform inside the harness process (forced stream); "
                    "the free stream runs unpatched",
                    "scipy.stats densities in the direct oracle"]
    return cases


# ---------------------------------------------------------------------------------------------
# iwls_utils alone
# ---------------------------------------------------------------------------------------------
def utils_cases(rnd, quick):
    import jax, jax.numpy as jnp, numpy as np
    from liesel.goose import iwls_utils as iu
    out = []
    reps = 3 if quick else 12
    for n in (1, 2, 3):
        for _ in range(reps if n < 3 else max(1, reps // 2)):
            _, L = spd_tri(rnd, n)
            Lm = jnp.array(lower_of_tri(L))
            m = [dy(rnd, -2, 2) for _ in range(n)]
            x = [dy(rnd, -3, 3) for _ in range(n)]
            r = [dy(rnd, -3, 3) for _ in range(n)]
            z = [dy(rnd, -3, 3) for _ in range(n)]
            lp = float(iu.mvn_log_prob(jnp.array(x), jnp.array(m), Lm))
            out.append(dict(kernel="utils", fn="mvn_log_prob", L=L, m=m, x=x, val=[lp]))
            sv = [float(t) for t in np.asarray(iu.solve(Lm, jnp.array(r)))]
            out.append(dict(kernel="utils", fn="solve", L=L, m=m, x=r, val=sv))
            zz = jnp.array(z)
            calls = []

            def fake_normal(key, shape=(), dtype=float, *a, **kw):
                calls.append(1)
                return zz
            with mock.patch("jax.random.normal", fake_normal):
                smp = iu.mvn_sample(jax.random.PRNGKey(rnd.randrange(2 ** 31)), jnp.array(m), Lm)
            if calls:
                out.append(dict(kernel="utils", fn="mvn_sample", L=L, m=m, x=z, val=[float(t) for t in np.asarray(smp)]))
    return out


# ---------------------------------------------------------------------------------------------
# emission of R-lemmas
# ---------------------------------------------------------------------------------------------
def tol_of(v):
    return Fraction(1, 10 ** 9) * max(Fraction(1), abs(Fraction(float(v))))


def qlitR(fr):
    fr = Fraction(fr)
    return f"({fr.numerator} / {fr.denominator})"


def model_terms(c):
    """(log_acc term, proposal statement or None)"""
    n = len(c["x"])
    lp, sc, info = coq_fns(c["fam"], c["P"])
    s = R(c["s"])
    scalar = (n == 1)
    X, XP, Z = (R(c["x"][0]), R(c["xp"][0]), R(c["z"][0])) if scalar else (V(c["x"]), V(c["xp"]), V(c["z"]))
    tolp = qlitR(max(tol_of(v) for v in c["xp"]))
    prop = None
    if c["kernel"] == "iwls":
        if c["chol"] == "default":
            ch = f"(chol_of_info {info})" if scalar else f"(chol_of_info_n {info})"
        elif c["chol"] == "user":
            ch = f"(user_chol {R(c['P']['c0'])} {R(c['P']['c2'])})"
        else:
            ch = f"(const_chol {T(c['P']['L'])})"
        if scalar:
            l = f"iwls_log_acc {lp} {sc} {ch} {s} {X} {XP}"
            prop = f"close {tolp} (iwls_propose {sc} {ch} {s} {Z} {X}) {XP}"
        else:
            l = f"iwls_log_acc_n {lp} {sc} {ch} {s} {X} {XP}"
            prop = f"vclose {tolp} (iwls_propose_n {sc} {ch} {s} {Z} {X}) {XP}"
    elif c["kernel"] == "rw":
        if scalar:
            l = f"rw_log_acc {lp} {X} {XP}"
            prop = f"close {tolp} (rw_propose {s} {Z} {X}) {XP}"
        else:
            l = f"rw_log_acc_n {lp} {X} {XP}"
            prop = f"vclose {tolp} (rw_propose_n {s} {Z} {X}) {XP}"
    else:
        assert scalar
        if c["decl"] == "ar":
            uc = f"(ar_corr {R(c['P']['rho'])} {s})"
        else:
            uc = f"(fun a b : R => {R(c['P']['k'])} * (b - a))"
        l = f"mhk_log_acc {lp} {uc} {X} {XP}"
    if not (c["mode"] == "forced" and c["forced_ok"]) or c["kernel"] == "mh":
        prop = None
    return l, prop


def box(v, eps):
    f = Fraction(float(v))
    w = Fraction(eps) * max(Fraction(1), abs(f))
    return qlitR(f - w), qlitR(f + w)


def vboxes(vals, eps):
    lo, hi = zip(*[box(v, eps) for v in vals])
    return lst(lo), lst(hi)


def tboxes(tri, eps):
    los, his = [], []
    for col in tri:
        lo, hi = vboxes(col, eps)
        los.append(lo)
        his.append(hi)
    return lst(los), lst(his)


EPS_L, EPS_M, EPS_Q = Fraction(2, 10 ** 14), Fraction(1, 10 ** 11), Fraction(1, 10 ** 8)


def staged_lemmas(i, c):
    """vector IWLS blocks: the model term is certified in stages (see Analytic/CorrC06.v, staged_alpha)"""
    import numpy as np
    from scipy.stats import norm
    n = len(c["x"])
    lp, sc, info = coq_fns(c["fam"], c["P"])
    nlp, nsc, ninfo = np_fns(c["fam"], c["P"])
    s = c["s"]
    x, xp, z = np.array(c["x"]), np.array(c["xp"]), np.array(c["z"])
    if c["chol"] == "default":
        ch = f"(chol_of_info_n {info})"
        chol_at = lambda a: np.linalg.cholesky(ninfo(a))
    else:
        ch = f"(const_chol {T(c['P']['L'])})"
        chol_at = lambda a: lower_of_tri(c["P"]["L"])
    Lx, Lxp = chol_at(x), chol_at(xp)

    def mu(a, L):
        return a + s * s / 2 * np.linalg.solve(L @ L.T, nsc(a))

    def logq(y, m, L):
        return float(np.sum(norm.logpdf((y - m) @ (L / s))) + np.sum(np.log(np.diag(L / s))))
    mx, mxp = mu(x, Lx), mu(xp, Lxp)
    b, f = logq(x, mxp, Lxp), logq(xp, mx, Lx)
    S, X, XP, Z = R(s), V(c["x"]), V(c["xp"]), V(c["z"])

    # half-widths of the stage boxes.  They must contain the interval enclosure of the previous stage's box, so they
    # are derived from first-order perturbation bounds (with generous factors), not fixed: in the tails the
    # standardised residuals and L/s are large and a fixed width would make a stage lemma fail on correct code.
    def wL_of(L):
        return float(EPS_L) * np.maximum(1.0, np.abs(L))

    def wm_of(a, L, m):
        F = L @ L.T
        dF = 2 * n * np.max(np.abs(L)) * np.max(wL_of(L))
        Finv = np.linalg.inv(F)
        bound = s * s / 2 * np.max(np.sum(np.abs(Finv), axis=1)) * dF * np.max(np.abs(Finv @ nsc(a)))
        return np.maximum(float(EPS_M) * np.maximum(1.0, np.abs(m)), 20 * bound)

    def wq_of(y, m, L, wm, v):
        wl = wL_of(L)
        zz = (y - m) @ (L / s)
        dzz = (wm @ np.abs(L) + (np.abs(y - m) + wm) @ wl) / s
        bound = float(np.sum(np.abs(zz) * dzz + dzz ** 2 / 2) + np.sum(np.diag(wl) / np.abs(np.diag(L))))
        return max(float(EPS_Q) * max(1.0, abs(v)), 4 * bound)

    def abox(v, w):
        fv, fw = Fraction(float(v)), Fraction(float(w))
        return qlitR(fv - fw), qlitR(fv + fw)

    def avbox(vals, ws):
        lo, hi = zip(*[abox(v, w) for v, w in zip(vals, ws)])
        return lst(lo), lst(hi)
    wmx, wmxp = wm_of(x, Lx, mx), wm_of(xp, Lxp, mxp)
    wb, wf = wq_of(x, mxp, Lxp, wmxp, b), wq_of(xp, mx, Lx, wmx, f)
    PL = "(tbox %s %s)" % tboxes(tri_of_lower(Lx), EPS_L)
    PLp = "(tbox %s %s)" % tboxes(tri_of_lower(Lxp), EPS_L)
    Pm = "(vbox %s %s)" % avbox(mx, wmx)
    Pmp = "(vbox %s %s)" % avbox(mxp, wmxp)
    Pb = "(rbox %s %s)" % abox(b, wb)
    Pf = "(rbox %s %s)" % abox(f, wf)
    itv = f"interval with (i_prec {PREC})"
    cb = f"cbv [{CBV}]"
    w = {2: 1.0, 3: 2.5}[n]
    out = []
    pre = f"c{i}"
    out.append((f"{pre}_chol_x", f"{PL} ({ch} {X})", f"{cb}. box_goals ltac:({itv}).", w))
    openL = "intros L HL. open_box HL. decompose [and] HL."
    openLm = "intros L m HL Hm. open_box HL. open_box Hm. decompose [and] HL. decompose [and] Hm."
    p = Fraction(c["p"])
    if c["mode"] == "forced" and c["forced_ok"]:
        tolp = qlitR(max(tol_of(v) for v in c["xp"]))
        Q = f"(fun v : vec => vclose {tolp} v {XP})"
        out.append((f"{pre}_draw", f"forall L, {PL} L -> vclose {tolp} (mvn_sample {Z} (mu_of {X} ({sc} {X}) L {S}) (tri_div L {S})) {XP}",
                    f"{openL} {cb}. box_goals ltac:({itv}).", w))
        out.append((f"{pre}_proposal", f"vclose {tolp} (iwls_propose_n {sc} {ch} {S} {Z} {X}) {XP}",
                    f"exact (staged_proposal {sc} {ch} {S} {Z} {X} {PL} {Q} {pre}_chol_x {pre}_draw).", 0.1))
    out.append((f"{pre}_chol_xp", f"{PLp} ({ch} {XP})", f"{cb}. box_goals ltac:({itv}).", w))
    out.append((f"{pre}_mu_x", f"forall L, {PL} L -> {Pm} (mu_of {X} ({sc} {X}) L {S})", f"{openL} {cb}. box_goals ltac:({itv}).", w))
    out.append((f"{pre}_mu_xp", f"forall L, {PLp} L -> {Pmp} (mu_of {XP} ({sc} {XP}) L {S})", f"{openL} {cb}. box_goals ltac:({itv}).", w))
    out.append((f"{pre}_bwd", f"forall L m, {PLp} L -> {Pmp} m -> {Pb} (logq_of {X} m L {S})", f"{openLm} {cb}. box_goals ltac:({itv}).", w))
    out.append((f"{pre}_fwd", f"forall L m, {PL} L -> {Pm} m -> {Pf} (logq_of {XP} m L {S})", f"{openLm} {cb}. box_goals ltac:({itv}).", w))
    # the two log-densities are only known to +-EPS_Q (relative to their size): the final tolerance follows
    rel = max(1e-6, 20 * (wb + wf))
    if p >= 1:
        tol, pl = Fraction(1, 10 ** int(-math.ceil(math.log10(rel)))), "1"
        fin = f"intros b f Hb Hf. cbv [rbox] in Hb, Hf. apply alpha_agrees_one; [ lra | ]. {cb}. {itv}."
    else:
        tol = (Fraction(1, 10 ** min(290, -int(math.ceil(math.log10(rel))) - math.floor(math.log10(c["p"]))))
               if c["p"] > 0 else Fraction(1, 10 ** 290))
        pl = R(c["p"])
        fin = f"intros b f Hb Hf. cbv [rbox] in Hb, Hf. apply alpha_agrees_below; [ lra | ]. {cb}. {itv}."
    out.append((f"{pre}_accept", f"forall b f, {Pb} b -> {Pf} f -> alpha_agrees {qlitR(tol)} (mh_log_acc ({lp} {X}) ({lp} {XP}) (b - f)) {pl}", fin, 0.5))
    out.append((f"{pre}_alpha", f"alpha_agrees {qlitR(tol)} (iwls_log_acc_n {lp} {sc} {ch} {S} {X} {XP}) {pl}",
                f"exact (staged_alpha {lp} {sc} {ch} {S} {X} {XP} {qlitR(tol)} {pl} {PL} {PLp} {Pm} {Pmp} {Pb} {Pf} "
                f"{pre}_chol_x {pre}_chol_xp {pre}_mu_x {pre}_mu_xp {pre}_bwd {pre}_fwd {pre}_accept).", 0.1))
    return out


def lemmas_of(i, c):
    """list of (name, statement, proof, cost)"""
    out = []
    itv = f"interval with (i_prec {PREC})"
    if c["kernel"] in ("iwls32", "edge"):
        return out              # (edge cases go into their own discrete shard, see emit)
    if c["kernel"] == "utils32":
        v = c["val"][0]
        if not math.isfinite(v):
            return out          # nothing to state about inf / nan: the oracle reports it
        tri = tri_of_lower(c["Lfull"])
        tol = Fraction(1, 10 ** 4) * max(Fraction(1), abs(Fraction(float(v))))
        st = f"close {qlitR(tol)} (mvn_log_prob {V(c['x'])} {V(c['m'])} {T(tri)}) {R(v)}"
        out.append((f"c{i}_utils32", st, f"cbv [{CBV}]. box_goals ltac:({itv}).", 3.0))
        return out
    if c["kernel"] == "utils":
        n = len(c["m"])
        cost = {1: 0.4, 2: 0.8, 3: 2.0}[n]
        L, m, x = T(c["L"]), V(c["m"]), V(c["x"])
        if c["fn"] == "mvn_log_prob":
            st = f"close {qlitR(tol_of(c['val'][0]))} (mvn_log_prob {x} {m} {L}) {R(c['val'][0])}"
        elif c["fn"] == "solve":
            st = f"vclose {qlitR(max(tol_of(v) for v in c['val']))} (solve {L} {x}) {V(c['val'])}"
        else:
            st = f"vclose {qlitR(max(tol_of(v) for v in c['val']))} (mvn_sample {x} {m} {L}) {V(c['val'])}"
        out.append((f"c{i}_utils", st, f"cbv [{CBV}]. box_goals ltac:({itv}).", cost))
        return out
    if not c["moved"]:
        return out
    n = len(c["x"])
    if c["kernel"] == "iwls" and n > 1:
        return staged_lemmas(i, c)
    base = {1: 0.4, 2: 2.0, 3: 7.0}[n] * (0.4 if c["kernel"] != "iwls" else 1.0)
    l, prop = model_terms(c)
    if prop:
        out.append((f"c{i}_proposal", prop, f"cbv [{CBV}]. box_goals ltac:({itv}).", base * 0.5))
    p = Fraction(c["p"])
    if p >= 1:
        tol = Fraction(1, 10 ** 7)
        out.append((f"c{i}_alpha", f"alpha_agrees {qlitR(tol)} ({l}) 1",
                    f"apply alpha_agrees_one; [ lra | ]. cbv [{CBV}]. {itv}.", base))
    else:
        tol = Fraction(1, 10 ** min(290, 7 - math.floor(math.log10(c["p"])))) if c["p"] > 0 else Fraction(1, 10 ** 290)
        out.append((f"c{i}_alpha", f"alpha_agrees {qlitR(tol)} ({l}) {R(c['p'])}",
                    f"apply alpha_agrees_below; [ lra | ]. cbv [{CBV}]. {itv}.", base))
    return out


def emit(ctx, cases):
    items = []
    nfree = {}
    for i, c in enumerate(cases):
        if c["kernel"] == "iwls" and c.get("mode") == "free" and len(c["x"]) > 1 and c["moved"]:
            nfree[c["keys"]] = nfree.get(c["keys"], 0) + 1
            if nfree[c["keys"]] > FREE_VEC_CAP[ctx.quick]:
                ctx.hist("accepted free-stream vector IWLS transitions checked by the oracle only (R-lemma budget)")
                continue
        ls = lemmas_of(i, c)
        if ls:
            items.append((sum(l[3] for l in ls), i, ls))
    # greedy packing: expensive goals first, bins of bounded cost and size
    items.sort(key=lambda t: -t[0])
    nb = max(1, min(32, max(16, int(sum(t[0] for t in items) / 12) + 1)))
    bins = [[0.0, []] for _ in range(nb)]
    for it in items:
        b = min(bins, key=lambda b: (b[0], len(b[1])))
        b[0] += it[0]
        b[1].append(it)
    shards = []
    nl = 0
    for cost, its in bins:
        if not its:
            continue
        txt = HEADER
        for (_, i, ls) in its:
            for (nm, st, pf, _) in ls:
                txt += f"\nLemma {nm} : {st}.\nProof. {pf} Qed.\n"
                nl += 1
        idxs = sorted({i for (_, i, _) in its})
        shards.append((ctx.new_shard(txt), idxs))
    ext = [(i, c) for i, c in enumerate(cases) if c["kernel"] == "edge" and c.get("forced_ok")]
    if ext:
        shards.append((ctx.new_shard(c06_edge.ext_shard(ext), "cases_ext"), [i for i, _ in ext]))
        ctx.hist("zero-density cases evaluated on C05's special-value model of mh_step (vm_compute shard)", len(ext))
    ctx.hist("R-lemmas emitted", nl)
    ctx.hist("shards", len(shards))
    source_tie(ctx)
    return shards


# ------------------------------------------------------------------------------------------------
# second tie: the current source translated to Gallina and proved equal to the model (c06_tie.py)
# ------------------------------------------------------------------------------------------------
def source_tie(ctx):
    """Runs after the Coq build (emit is only called when it succeeded).  A broken source tie alone is no
    alarm: it is recorded in coverage.source_tie; run() adds it to ctx.broken only when the behavioural
    correspondence or the oracle report a violation as well."""
    try:
        tie = c06_tie.run(ctx, common.REPO)
    except Exception as ex:      # optional evidence; never let it abort the check
        tie = {"translated": [], "lemmas_ok": False, "lemmas": [], "not_tied": {"all": repr(ex)},
               "detail": f"SOURCE TIE BROKEN: c06_tie aborted: {type(ex).__name__}: {ex}"}
    ctx.cov["source_tie"] = tie
    for sec in tie.get("not_tied", {}):
        ctx.hist("T.source_tie_broken." + sec)
    ctx.hist("T.source_tie_lemmas", len(tie.get("lemmas", [])))
    ctx.extra_tb = getattr(ctx, "extra_tb", []) + [
        "source tie (advisory): tools/py2gallina_c06.py (fail-closed Python-ast -> Gallina translator: numbers are real numbers, 1-d "
        "arrays / lower-triangular factors are the vec / tri of Analytic/Gauss.v, triangular_solve is fwd_subst / back_subst, "
        "v @ L is ltmul, norm.logpdf is std_normal_logpdf, jax.random.normal / split and mh_step are oracle arguments, a model state "
        "is the flat position of the block, _score / _chol_info are the model's score / ch) and the statements of the lemmas in "
        "harness/lv/c06_tie.py; result of this run in coverage.source_tie"]


def run(ctx):
    orig_finish = ctx.finish

    def finish(*a, **k):
        tie = ctx.cov.get("source_tie")
        if tie is None:
            ctx.cov["source_tie"] = {"translated": [], "lemmas_ok": False, "detail": "not attempted: the Coq build failed"}
        elif not tie.get("lemmas_ok") and ctx.violations:
            # the behavioural part / the oracle disagree too: name the broken source tie in the replay files
            for sec, why in tie.get("not_tied", {}).items():
                if not why.startswith("needs "):
                    ctx.broken.append(f"source tie [{sec}]: {why}"[:400])
        return orig_finish(*a, **k)
    ctx.finish = finish
    return common.run_standard(ctx, sys.modules[__name__])


_DIAG = {"coq_runs": 0}


def diagnose(ctx, path, idxs, cases):
    import re
    # cases of this shard that already fail the direct oracle are the disagreeing ones
    bad = [i for i in idxs if oracle(cases[i])]
    if bad:
        if _DIAG.setdefault("named", 0) < 2:
            _DIAG["named"] += 1
            names = [nm for i in bad[:4] for (nm, _, _, _) in lemmas_of(i, cases[i]) if nm.endswith(("_alpha", "_proposal", "_utils"))]
            if os.path.basename(path).startswith("cases_ext"):
                names = ["ext_ok (C05's special-value model of mh_step evaluated on the zero-density cases)"]
            ctx.broken.append(f"R-lemmas of oracle-failing cases in {os.path.basename(path)} (model term vs observed value): " + ", ".join(names[:8]))
        return bad
    # otherwise ask Coq which lemmas fail (bounded: every failing shard would double the run time)
    _DIAG["coq_runs"] += 1
    if _DIAG["coq_runs"] > 3:
        return None
    txt = open(path).read()
    body = txt[len(HEADER):] if txt.startswith(HEADER) else txt
    out = HEADER
    for m in re.finditer(r"Lemma (c(\d+)_\w+) : (.*?)\.\nProof\. (.*?) Qed\.\n", body, re.S):
        nm, st, pf = m.group(1), m.group(3), m.group(4)
        out += (f"\nGoal {st}.\nProof. tryif (solve [ {pf.rstrip('.').replace('. ', '; ')} ]) "
                f"then idtac \"OKLEMMA {nm}\" else idtac \"FAILLEMMA {nm}\". Abort.\n")
    ok, res = ctx.coq_eval(out, timeout=1500)
    bad = sorted({int(m.group(1)) for m in re.finditer(r"FAILLEMMA c(\d+)_(\w+)", res)})
    failed = sorted(set(re.findall(r"FAILLEMMA (c\d+_\w+)", res)))
    if failed:
        ctx.broken.append("R-lemmas that no longer hold: " + ", ".join(failed[:8]))
    return bad


# ---------------------------------------------------------------------------------------------
# direct oracle
# ---------------------------------------------------------------------------------------------
def oracle(c):
    import numpy as np
    from scipy.stats import multivariate_normal as mvn, norm
    if c["kernel"] in ("iwls32", "utils32"):
        return c06_f32.oracle(c)
    if c["kernel"] == "edge":
        return c06_edge.oracle(c)
    if c["kernel"] == "utils":
        L = lower_of_tri(c["L"])
        prec = L @ L.T
        m, x = np.array(c["m"]), np.array(c["x"])
        if c["fn"] == "mvn_log_prob":
            want = mvn(m, np.linalg.inv(prec)).logpdf(x)
            if abs(want - c["val"][0]) > 1e-8 * max(1, abs(want)):
                return f"mvn_log_prob(x={c['x']}, mean={c['m']}, chol_inv_cov={L.tolist()}) = {c['val'][0]}, Gaussian log-density with covariance (L L^T)^-1 is {want}"
        elif c["fn"] == "solve":
            want = np.linalg.solve(prec, x)
            if not np.allclose(want, c["val"], rtol=1e-8, atol=1e-9):
                return f"solve(L={L.tolist()}, rhs={c['x']}) = {c['val']}, (L L^T)^-1 rhs = {want.tolist()}"
        else:
            # the draw must have covariance (L L^T)^-1: L^T (sample - mean) = z
            back = L.T @ (np.array(c["val"]) - m)
            if not np.allclose(back, x, rtol=1e-8, atol=1e-9):
                return f"mvn_sample with normal draw z={c['x']} returned {c['val']}: L^T (sample - mean) = {back.tolist()} is not z"
        return None
    if c["code"] != 0:
        return f"error code {c['code']} on a finite problem"
    if not (0.0 <= c["p"] <= 1.0):
        return f"acceptance probability {c['p']} outside [0, 1]"
    if not c["moved"]:
        if c["mode"] == "forced" and c["forced_ok"] and c["p"] > 0:
            return f"uniform draw 0 < acceptance probability {c['p']} but the proposal was not accepted"
        return None
    lp, score, info = np_fns(c["fam"], c["P"])
    x, xp, s = np.array(c["x"]), np.array(c["xp"]), c["s"]
    z = np.array(c["z"])
    forced = c["mode"] == "forced" and c["forced_ok"]
    where = f"{c['kernel']} kernel, {key_desc(c)}family {c['fam']} {c['P']}, x={c['x']}, z={c['z']}, step={s}: "
    if c["kernel"] == "iwls":
        def F(a):
            if c["chol"] == "default":
                return info(a)
            if c["chol"] == "user":
                return np.array([[c["P"]["c0"] + c["P"]["c2"] * a[0] ** 2]])
            Lc = lower_of_tri(c["P"]["L"])
            return Lc @ Lc.T

        def mean(a):
            return a + s * s / 2 * np.linalg.solve(F(a), score(a))

        def logq(a, b):
            return mvn(mean(a), s * s * np.linalg.inv(F(a))).logpdf(b)
        corr = logq(xp, x) - logq(x, xp)
        if forced:
            back = np.linalg.cholesky(F(x)).T @ (xp - mean(x)) / s
            if not np.allclose(back, z, rtol=1e-7, atol=1e-8):
                return (where + f"new state {c['xp']} is not mean + s * chol(F)^-T z of the documented IWLS proposal "
                        f"(standardised residual {back.tolist()} instead of z)")
    elif c["kernel"] == "rw":
        corr = 0.0
        if forced and not np.allclose(xp, x + s * z, rtol=1e-9, atol=1e-10):
            return where + f"new state {c['xp']} is not x + step_size * z = {(x + s * z).tolist()}"
    else:
        if c["decl"] == "ar":
            rho = c["P"]["rho"]
            corr = float(np.sum(norm(rho * xp, s).logpdf(x)) - np.sum(norm(rho * x, s).logpdf(xp)))
        else:
            corr = c["P"]["k"] * float(np.sum(xp - x))
    la = lp(xp) - lp(x) + corr
    want = 1.0 if la >= 0 else math.exp(la)
    if abs(c["p"] - want) > 1e-7 * max(want, 1e-280):
        return (where + f"accepted move to {c['xp']} reports acceptance_prob {c['p']!r}, but "
                f"min(1, pi(x')q(x|x')/(pi(x)q(x'|x))) = {want!r} (log ratio {la!r}, log correction {corr!r})")
    return None


def klass(c):
    return None


def search(ctx, disagreeing):
    """widened search with the direct oracle when a lemma broke but no sampled case fails the oracle"""
    kernels = sorted({c["kernel"] for c in disagreeing if c.get("kernel") in ("iwls", "rw", "mh")}) or None
    rnd = random.Random(ctx.seed + 1)
    found = []
    for rounds in range(2):
        cases = gen_cases(rnd, True, scale=2.0, only_kernels=kernels)
        run_cases(cases, jit=True)
        cases += c06_edge.run_cases(c06_edge.gen_cases(rnd, True), jit=True)
        if kernels is None or "iwls" in kernels:
            cases += c06_f32.run_cases(c06_f32.gen_cases(rnd, True), jit=True) + c06_f32.utils_cases(rnd, True)
        for c in cases:
            r = oracle(c)
            if r:
                c["why"] = r
                found.append(c)
        if found:
            break
    return found


def replay(rp):
    import jax
    jax.config.update("jax_enable_x64", True)
    body = rp.get("replay", {})
    cs = [body["case"]] if "case" in body else body.get("disagreeing_cases", [])
    rc = 0
    for c in cs:
        if c.get("kernel") in ("utils", "utils32"):
            r = oracle(c)
            print(f"{c['kernel']} {c.get('fn')} value recorded by the failing run: {c.get('val')}")
        elif c.get("kernel") == "edge":
            c2 = {k: v for k, v in c.items() if k not in ("p", "moved", "code", "newx", "lp_cur_impl", "forced_ok", "why")}
            c06_edge.run_cases([c2], jit=False)
            r = oracle(c2)
            print(c06_edge.describe(c2) + f"re-run: acceptance_prob={c2['p']!r} error code={c2['code']} moved={c2['moved']} new state={c2['newx']}")
        elif c.get("kernel") == "iwls32":
            c2 = {k: v for k, v in c.items() if k not in ("p", "moved", "code", "xp", "forced_ok", "why")}
            c06_f32.run_cases([c2], jit=False)
            r = oracle(c2)
            print(c06_f32.describe(c2) + f"re-run: moved={c2['moved']} error code={c2['code']} acceptance_prob={c2['p']!r}")
        else:
            c2 = {k: v for k, v in c.items() if k not in ("p", "moved", "code", "xp", "forced_ok", "why")}
            run_cases([c2], jit=False)
            r = oracle(c2)
            print(f"re-ran {c2['kernel']} kernel {key_desc(c2)}on family {c2['fam']} {c2['P']} x={c2['x']} z={c2['z']} step={c2['s']} mode={c2['mode']}: "
                  f"moved={c2['moved']} new state={c2['xp']} acceptance_prob={c2['p']!r}")
        if r:
            print("FAILS:", r)
            rc = 1
        else:
            print("no property failure on this input")
    return rc
