"""C14 - transforming a variable preserves the model (change of variables).

Three kinds of cases, all driven through liesel's public API:

R  a variable x ~ family(params) (params constants or other Vars), optionally with an observed child
   y ~ Normal(x, s), is transformed through one of the entry points (Var.transform with an instance /
   a class with constant or Var arguments / the default; the deprecated GraphBuilder.transform;
   auto_transform at build time).  Then the new variable is assigned several values, parameters and
   bijector arguments that are Vars are changed.  Observed: the new variable's initial value and
   log_prob, the original variable's value, Model.log_prob.  Coq evaluates the model of Bijector.v
   (the SAME constants the theorems of Properties/C14.v are about) at the same exact dyadic inputs and
   `interval` certifies agreement within a relative tolerance.
C  chained transformations: the new variable is transformed again (2-3 links, any mix of instance / class /
   default), then the innermost new variable is assigned; every variable of the chain and the innermost
   log-density are compared with the model's chain_up / chain_logpdf (composition of the forwards, sum of the
   log-Jacobians).  K: flags along chains (vm_compute).
   R cases with model-dependent bijector arguments are also run in COPIES of the graph (build_model(copy=True),
   copy_nodes_and_vars + rebuild, gs.LieselInterface.update_state) with the argument changed in the copy only.
H  histories: refused transform calls (every refusal reason), then a correct one; flags after every call and
   whether the new variable's log-density is Model.log_prior (vm_compute against history_s / states_s).
S  flags / refusals of Var.transform and GraphBuilder.transform on all argument shapes (vm_compute).
A  auto-transform in build_model on random lists of variables (vm_compute).

The direct oracle reads the property literally with fresh tfp objects (independent of liesel's graph):
log_prob_new(t) = dist.log_prob(b(t)) + ln|b'(t)| with b' by jax.grad, value = b(t), flags.
"""
from __future__ import annotations

import math
import random
import warnings
from fractions import Fraction

from . import common
from .common import blit, lst, rlit, strlit

HEADER_R = """From Coq Require Import Reals List Bool String.
Import ListNotations.
From Interval Require Import Tactic.
From LV Require Import Analytic.Bijector Analytic.CorrC14.
Open Scope R_scope.
"""
HEADER_D = """From Coq Require Import List Bool String.
Import ListNotations.
From LV Require Import Base.ListAux Analytic.Bijector Analytic.CorrC14.
Open Scope string_scope.
"""

F = Fraction

# ----------------------------------------------------------------------------------------------
# families and bijectors
# ----------------------------------------------------------------------------------------------
FAMS = {
    "Normal": dict(coq="dNormal", params=["loc", "scale"], support="real"),
    "HalfNormal": dict(coq="dHalfNormal", params=["scale"], support="pos"),
    "HalfCauchy": dict(coq="dHalfCauchy", params=["loc", "scale"], support="above"),
    "Gamma": dict(coq="dGamma", params=["concentration", "rate"], support="pos"),
    "InverseGamma": dict(coq="dInvGamma", params=["concentration", "scale"], support="pos"),
    "Beta": dict(coq="dBeta", params=["concentration1", "concentration0"], support="unit"),
    "Exponential": dict(coq="dExponential", params=["rate"], support="pos"),
    "LogNormal": dict(coq="dLogNormal", params=["loc", "scale"], support="pos"),
}
DEFAULT_BIJ = {"Normal": "Identity", "HalfNormal": "Softplus", "HalfCauchy": "ShiftExp", "Gamma": "Softplus",
               "InverseGamma": "RecipSoftplus", "Beta": "Sigmoid", "Exponential": "Softplus", "LogNormal": "Exp"}
CONCS = [F(1), F(2), F(3), F(5), F(1, 2), F(3, 2), F(5, 2), F(7, 2), F(9, 4), F(5, 4)]
POS = [F(1, 4), F(1, 2), F(3, 4), F(1), F(5, 4), F(3, 2), F(2), F(3), F(4)]
# bijector name -> number of args, class keyword names (None: no class form)
BIJS = {
    "Identity": (0, None), "Exp": (0, None), "Softplus": (0, None), "Sigmoid": (0, None),
    "Scale": (1, ["scale"]), "Shift": (1, ["shift"]), "SoftplusH": (1, ["hinge_softness"]),
    "SigmoidLH": (2, ["low", "high"]), "RecipSoftplus": (0, None), "ShiftExp": (1, None),
}
CLS_COQ = {"Scale": "clsScale", "Shift": "clsShift", "SoftplusH": "clsSoftplusH", "SigmoidLH": "clsSigmoidLH"}


def lgam_term(c: Fraction) -> str:
    """ln Gamma(c) as a Coq R term: exact for integers and half-integers, math.lgamma (an oracle value) otherwise"""
    if c.denominator == 1 and 1 <= c <= 15:
        return f"(ln {math.factorial(int(c) - 1)})"
    if c.denominator == 2 and c > 0:
        n = int(c - F(1, 2))
        q = F(math.factorial(2 * n), 4 ** n * math.factorial(n))
        return f"(ln ({rlit(q)} * sqrt PI))"
    return rlit(F(math.lgamma(float(c))))


def p_term(fam: str, params: dict) -> str:
    g = lambda k: rlit(F(params[k]))
    if fam in ("Normal", "HalfCauchy", "LogNormal"):
        return f"({g('loc')}, {g('scale')})"
    if fam == "HalfNormal":
        return g("scale")
    if fam == "Exponential":
        return g("rate")
    if fam == "Gamma":
        return f"({g('concentration')}, {g('rate')}, {lgam_term(F(params['concentration']))})"
    if fam == "InverseGamma":
        return f"({g('concentration')}, {g('scale')}, {lgam_term(F(params['concentration']))})"
    if fam == "Beta":
        a, b = F(params["concentration1"]), F(params["concentration0"])
        return f"({rlit(a)}, {rlit(b)}, ({lgam_term(a)} + {lgam_term(b)} - {lgam_term(a + b)}))"
    raise KeyError(fam)


def bij_inst_term(name: str, args) -> str:
    a = [rlit(F(x)) for x in args]
    return {"Identity": "bIdentity", "Exp": "bExp", "Softplus": "bSoftplus", "Sigmoid": "bSigmoid",
            "RecipSoftplus": "bRecipSoftplus"}.get(name) or {
        "Scale": lambda: f"(bScale {a[0]})", "Shift": lambda: f"(bShift {a[0]})",
        "SoftplusH": lambda: f"(bSoftplusH {a[0]})", "SigmoidLH": lambda: f"(bSigmoidLH {a[0]} {a[1]})",
        "ShiftExp": lambda: f"(bShiftExp {a[0]})"}[name]()


def a_term(args) -> str:
    if not args:
        return "tt"
    if len(args) == 1:
        return rlit(F(args[0]))
    return "(" + ", ".join(rlit(F(x)) for x in args) + ")"


def t_term(case) -> str:
    """the Coq term `transform_by path D spec p0 a0 v0` of a case"""
    b = case["bij"]
    pa = "PDeprecated" if case["path"] == "dep" else "PVar"
    if b["kind"] == "inst":
        spec, a0 = f"(@BInst unit {bij_inst_term(b['name'], b['args'])})", "tt"
    elif b["kind"] == "cls":
        spec, a0 = f"(BCls {CLS_COQ[b['name']]})", a_term(b["args"])
    else:
        spec, a0 = "(@BDefault unit)", "tt"
    return (f"(transform_by {pa} {FAMS[case['fam']]['coq']} {spec} {p_term(case['fam'], case['params'])} "
            f"{a0} {rlit(F(case['v0']))})")


def others_term(case) -> str:
    ch = case.get("child")
    return f"(child_normal {rlit(F(ch['s']))} {rlit(F(ch['y']))})" if ch else "no_child"


# ----------------------------------------------------------------------------------------------
# driving the real code
# ----------------------------------------------------------------------------------------------
_JAX = {}


def jx():
    if not _JAX:
        warnings.filterwarnings("ignore")
        import logging
        logging.getLogger("liesel").setLevel(logging.ERROR)
        import jax
        jax.config.update("jax_enable_x64", True)
        import jax.numpy as jnp
        import liesel.model as lsl
        import tensorflow_probability.substrates.jax.bijectors as tfb
        import tensorflow_probability.substrates.jax.distributions as tfd

        class NoDefaultNormal(tfd.Normal):
            """a distribution without a default event-space bijector"""
            def _default_event_space_bijector(self):
                return None

        _JAX.update(jax=jax, jnp=jnp, lsl=lsl, tfb=tfb, tfd=tfd, NoDefaultNormal=NoDefaultNormal)
    return _JAX


def make_inst(name, args, f):
    tfb = jx()["tfb"]
    a = [f(x) for x in args]
    if name in ("Identity", "Exp", "Softplus", "Sigmoid"):
        return getattr(tfb, name)()
    if name == "Scale":
        return tfb.Scale(a[0])
    if name == "Shift":
        return tfb.Shift(a[0])
    if name == "SoftplusH":
        return tfb.Softplus(hinge_softness=a[0])
    if name == "SigmoidLH":
        return tfb.Sigmoid(low=a[0], high=a[1])
    if name == "RecipSoftplus":
        return tfb.Chain([tfb.Reciprocal(), tfb.Softplus()])
    if name == "ShiftExp":
        return tfb.Chain([tfb.Shift(a[0]), tfb.Exp()])
    raise KeyError(name)


def cls_of(name):
    tfb = jx()["tfb"]
    return {"Scale": tfb.Scale, "Shift": tfb.Shift, "SoftplusH": tfb.Softplus, "SigmoidLH": tfb.Sigmoid}[name]


def fr(x):
    x = float(x)
    if math.isnan(x) or math.isinf(x):
        raise NonFinite(repr(x))
    return F(x)


class NonFinite(Exception):
    pass


def flags_of(v):
    return {"name": v.name, "parameter": bool(v.parameter), "observed": bool(v.observed),
            "has_dist": v.dist_node is not None, "weak": bool(v.weak), "auto": bool(v.auto_transform)}


def run_r_case(case) -> dict:
    """drive liesel on an R case; returns the observations (or {'raised': ...})"""
    J = jx()
    jnp, lsl, tfd = J["jnp"], J["lsl"], J["tfd"]
    dt = jnp.float32 if case["path"] == "dep" else jnp.float64
    f = lambda v: jnp.asarray(float(F(v)), dtype=dt)
    obs = {"dtype": "float32" if case["path"] == "dep" else "float64", "steps": []}
    try:
        fam = FAMS[case["fam"]]
        pn = {}
        for k in fam["params"]:
            pn[k] = lsl.Var(f(case["params"][k]), name=k) if k in case["param_vars"] else f(case["params"][k])
        x = lsl.Var(f(case["v0"]), lsl.Dist(getattr(tfd, case["fam"]), **pn), name="x")
        x.parameter = case["parameter"]
        roots = [x]
        if case.get("child"):
            y = lsl.Var(f(case["child"]["y"]), lsl.Dist(tfd.Normal, loc=x, scale=f(case["child"]["s"])), name="y")
            y.observed = True
            roots = [y]
        b = case["bij"]
        targs, tkw = [], {}
        if b["kind"] == "inst":
            bij = make_inst(b["name"], b["args"], f)
        elif b["kind"] == "cls":
            bij = cls_of(b["name"])
            kws = BIJS[b["name"]][1]
            for i, (kw, val) in enumerate(zip(kws, b["args"])):
                node = lsl.Var(f(val), name=f"ba{i}") if b["arg_vars"] else f(val)
                if b.get("positional") and b["name"] != "SoftplusH":
                    targs.append(node)
                else:
                    tkw[kw] = node
        else:
            bij = None
        mode = case.get("mode", "inplace")
        cp = mode == "copy"
        with warnings.catch_warnings():
            warnings.simplefilter("ignore")
            if case["path"] == "var":
                tv = x.transform(bij, *targs, **tkw)
                obs["x_after"] = fr(x.value)
                obs["tv_after"] = fr(tv.value)
                model = (lsl.GraphBuilder(to_float32=False).add(*roots).build_model(copy=True) if cp
                         else lsl.Model(roots, to_float32=False))
            elif case["path"] == "dep":
                gb = lsl.GraphBuilder(to_float32=False)
                tv = gb.transform(x, bij, *targs, **tkw)
                obs["x_after"] = fr(x.value)
                obs["tv_after"] = fr(tv.value)
                gb.add(*roots)
                model = gb.build_model(copy=cp)
            else:
                x.auto_transform = True
                model = lsl.GraphBuilder(to_float32=False).add(*roots).build_model(copy=cp)
            model0 = None
            if mode == "copy_nodes":
                # a second model from deep copies of the first model's nodes; only the copy is modified below
                model0 = model
                _, cvars = model0.copy_nodes_and_vars()
                model = lsl.GraphBuilder(to_float32=False).add(cvars[roots[0].name]).build_model()
        if mode == "interface":
            return run_r_interface(case, obs, model, f)
        mv = model.vars
        if "x_transformed" not in mv or "x" not in mv:
            obs["raised"] = f"the model has no variable x_transformed / x after the transformation (variables: {sorted(mv)})"
            return obs
        X, TV = mv["x"], mv["x_transformed"]
        obs["names"] = sorted(mv.keys())

        def snap():
            return {"lp": fr(TV.log_prob), "x": fr(X.value), "mlp": fr(model.log_prob), "xlp": fr(X.log_prob),
                    "t": fr(TV.value), "dtype_lp": str(jnp.asarray(TV.log_prob).dtype)}

        obs["init"] = snap()
        obs["flags_x"] = flags_of(X)
        obs["flags_tv"] = flags_of(TV)
        for st in case["steps"]:
            for k, v in st.get("params", {}).items():
                if k in case["param_vars"]:
                    mv[k].value = f(v)
            if b["kind"] == "cls" and b["arg_vars"]:
                for i, v in enumerate(st.get("args", [])):
                    mv[f"ba{i}"].value = f(v)
            TV.value = f(st["t"])
            obs["steps"].append(snap())
        obs["flags_x_end"] = flags_of(X)
        if model0 is not None:
            # the first model must not have been touched by the assignments in the copy
            obs["first_model"] = {"x": fr(model0.vars["x"].value), "t": fr(model0.vars["x_transformed"].value),
                                  "lp": fr(model0.vars["x_transformed"].log_prob)}
    except NonFinite as ex:
        obs["raised"] = f"non-finite value / log_prob observed ({ex}) after {len(obs['steps'])} assignments"
    except Exception as ex:  # the model never raises on R cases: reported by the oracle
        obs["raised"] = f"{type(ex).__name__}: {str(ex)[:200]}"
    return obs


def run_r_interface(case, obs, model, f):
    """the Goose interface works on its own copy of the model: update_state / extract_position / log_prob"""
    import liesel.goose as gs
    mv = model.vars
    if "x_transformed" not in mv or "x" not in mv:
        obs["raised"] = f"the model has no variable x_transformed / x after the transformation (variables: {sorted(mv)})"
        return obs
    X, TV = mv["x"], mv["x_transformed"]
    obs["names"] = sorted(mv.keys())
    obs["init"] = {"lp": fr(TV.log_prob), "x": fr(X.value), "mlp": fr(model.log_prob), "xlp": fr(X.log_prob), "t": fr(TV.value)}
    obs["flags_x"] = flags_of(X)
    obs["flags_tv"] = flags_of(TV)
    obs["flags_x_end"] = flags_of(X)
    itf = gs.LieselInterface(model)
    state = model.state
    b = case["bij"]
    for st in case["steps"]:
        pos = {}
        for k, v in st.get("params", {}).items():
            if k in case["param_vars"]:
                pos[k] = f(v)
        if b["kind"] == "cls" and b["arg_vars"]:
            for i, v in enumerate(st.get("args", [])):
                pos[f"ba{i}"] = f(v)
        pos["x_transformed"] = f(st["t"])
        state = itf.update_state(pos, state)
        got = itf.extract_position(["x", "x_transformed", "x_transformed_log_prob"], state)
        xlp = state["x_log_prob"].value if "x_log_prob" in state else 0.0
        obs["steps"].append({"lp": fr(got["x_transformed_log_prob"]), "x": fr(got["x"]), "mlp": fr(itf.log_prob(state)),
                             "xlp": fr(xlp), "t": fr(got["x_transformed"])})
    # the model the interface was created from is not modified by update_state
    obs["first_model"] = {"x": fr(X.value), "t": fr(TV.value), "lp": fr(TV.log_prob)}
    return obs


def cur_params(case, k):
    """distribution parameters / bijector args in force at step k (-1: initial)"""
    p = dict(case["params"])
    a = list(case["bij"].get("args", []))
    for st in case["steps"][: k + 1]:
        for kk, v in st.get("params", {}).items():
            if kk in case["param_vars"]:
                p[kk] = v
        if case["bij"]["kind"] == "cls" and case["bij"].get("arg_vars") and st.get("args"):
            a = list(st["args"])
    return p, a


def tol_of(v, dtype) -> Fraction:
    rel = F(1, 10 ** 9) if dtype == "float64" else F(1, 10 ** 4)
    return rel * max(1, math.ceil(abs(float(v))))


# ----------------------------------------------------------------------------------------------
# direct oracle: the property read literally, with fresh tfp objects
# ----------------------------------------------------------------------------------------------
def oracle_r(case):
    obs = case["obs"]
    if "raised" in obs:
        return f"transforming / assigning failed: {obs['raised']}"
    J = jx()
    jax, jnp, tfd = J["jax"], J["jnp"], J["tfd"]
    f64 = lambda v: jnp.asarray(float(F(v)), dtype=jnp.float64)
    rel = 1e-7 if obs["dtype"] == "float64" else 2e-4
    close = lambda a, b: abs(float(a) - float(b)) <= rel * max(1.0, abs(float(b)))
    fx, ft = obs["flags_x"], obs["flags_tv"]
    if ft["parameter"] != case["parameter"] or fx["parameter"]:
        return f"parameter flag not moved: original {fx['parameter']}, new {ft['parameter']}, was {case['parameter']}"
    if fx["has_dist"] or obs["flags_x_end"]["has_dist"]:
        return "the original variable keeps a distribution of its own"
    if not fx["weak"] or ft["weak"] or not ft["has_dist"]:
        return f"weak/dist flags wrong: original {fx}, new {ft}"
    if ft["name"] != "x_transformed" or "x" not in obs["names"]:
        return f"names wrong: {obs['names']}"
    if fx["auto"] or ft["auto"]:
        return "auto_transform flag not cleared"
    if "x_after" in obs and not close(obs["x_after"], F(case["v0"])):
        return f"original value changed by the transformation: {float(obs['x_after'])} instead of {float(F(case['v0']))}"
    if "first_model" in obs:
        fm, s0 = obs["first_model"], obs["init"]
        if not (close(fm["x"], s0["x"]) and close(fm["t"], s0["t"]) and close(fm["lp"], s0["lp"])):
            return (f"assignments in the copy ({case.get('mode')}) changed the model it was copied from: "
                    f"x {float(s0['x'])} -> {float(fm['x'])}, new variable {float(s0['t'])} -> {float(fm['t'])}")
    snaps = [(-1, obs["init"])] + list(enumerate(obs["steps"]))
    mode_txt = "" if case.get("mode", "inplace") == "inplace" else f" [in the copy: {case['mode']}]"
    for k, s in snaps:
        p, a = cur_params(case, k)
        dist = getattr(tfd, case["fam"])(**{kk: f64(v) for kk, v in p.items()})
        b = case["bij"]
        if b["kind"] == "default":
            bij = dist.experimental_default_event_space_bijector()
        else:
            bij = make_inst(b["name"], a, f64)
        if k == -1:
            t = bij.inverse(f64(case["v0"]))
            if not close(s["t"], t):
                return f"initial value of the new variable {float(s['t'])} is not b^-1(value) = {float(t)}"
            if not close(s["x"], F(case["v0"])):
                return f"original value not preserved: {float(s['x'])} instead of {float(F(case['v0']))}"
        else:
            t = f64(case["steps"][k]["t"])
        xx = bij.forward(t)
        jac = jnp.log(jnp.abs(jax.grad(lambda u: bij.forward(u))(t)))
        want = dist.log_prob(xx) + jac
        if not close(s["x"], xx):
            return (f"step {k}: original value {float(s['x'])} is not b(t) = {float(xx)} at t = {float(t)} with the current "
                    f"bijector arguments {[str(v) for v in a]} / parameters { {kk: str(v) for kk, v in p.items()} }" + mode_txt)
        if not close(s["lp"], want):
            return (f"step {k}: new log-density {float(s['lp'])} is not log p(b(t)) + ln|b'(t)| = {float(want)} "
                    f"at t = {float(t)}")
        if float(s["xlp"]) != 0.0:
            return f"step {k}: the original variable still has log_prob {float(s['xlp'])}"
        oth = 0.0
        if case.get("child"):
            oth = float(tfd.Normal(xx, f64(case["child"]["s"])).log_prob(f64(case["child"]["y"])))
        if not close(s["mlp"], float(want) + oth):
            return f"step {k}: Model.log_prob {float(s['mlp'])} is not {float(want) + oth}"
    return None


def oracle_s(case):
    o, v = case["obs"], case["var"]
    doc_err = v["weak"] or not v["has_dist"]
    if doc_err:
        if o.get("err") != "RuntimeError":
            return f"transform of a weak / distribution-less variable did not raise RuntimeError: {o}"
        return None
    if case["kind"] in ("inst", "cls_args") or (case["kind"] == "default" and v["default"]):
        if "err" in o:
            return f"valid transform request raised {o['err']}"
        x, t = o["x"], o["tv"]
        if t["parameter"] != v["parameter"] or x["parameter"] or x["has_dist"] or not x["weak"] \
                or not t["has_dist"] or t["weak"] or t["name"] != v["name"] + "_transformed" \
                or x["observed"] != v["observed"] or x["auto"]:
            return f"flags after transform wrong: original {x}, new {t}"
    return None


def oracle_a(case):
    o = case["obs"]
    need_fail = any(v["auto"] and (v["weak"] or not v["has_dist"] or not v["default"]) for v in case["vars"])
    names = [v["name"] for v in case["vars"]] + [v["name"] + "_transformed" for v in case["vars"] if v["auto"]]
    need_fail = need_fail or len(set(names)) != len(names)
    if need_fail:
        return None if o is None else "build_model succeeded although an auto-transform is impossible"
    if o is None:
        return "build_model raised although every auto-transform is possible"
    by = {w["name"]: w for w in o}
    for v in case["vars"]:
        x = by.get(v["name"])
        if x is None:
            return f"variable {v['name']} missing from the model"
        if v["auto"]:
            t = by.get(v["name"] + "_transformed")
            if t is None:
                return f"{v['name']} has auto_transform but no transformed variable was created"
            if t["parameter"] != v["parameter"] or x["parameter"] or x["has_dist"] or not x["weak"] or x["auto"] or t["auto"]:
                return f"auto-transform flags wrong: {x} / {t}"
        else:
            if v["name"] + "_transformed" in by and v["name"] + "_transformed" not in [w["name"] for w in case["vars"]]:
                return f"{v['name']} transformed although auto_transform is off"
            if {k: x[k] for k in ("parameter", "observed", "has_dist", "weak")} != \
                    {k: v[k] for k in ("parameter", "observed", "has_dist", "weak")}:
                return f"untouched variable changed: {v} -> {x}"
    return None


# ----------------------------------------------------------------------------------------------
# chained transformations (type "C"): x -> t1 = x.transform(l1) -> t2 = t1.transform(l2) [-> t3]
# ----------------------------------------------------------------------------------------------
C_CLS_COQ = {"Scale": "cScale", "Shift": "cShift", "SoftplusH": "cSoftplusH", "SigmoidLH": "cSigmoidLH"}
# chained transformations through the deprecated GraphBuilder.transform: part of the default check since the
# repair of _transform_back (/repo commit b548a17); LV_C14_DEP_CHAIN=0 switches the stratum off
DEP_CHAIN = __import__("os").environ.get("LV_C14_DEP_CHAIN", "1") != "0"


def chain_names(k):
    return ["x" + "_transformed" * i for i in range(k + 1)]


def pair_term(args) -> str:
    a = [rlit(F(x)) for x in args] + ["0", "0"]
    return f"({a[0]}, {a[1]})"


def link_term(case, ln) -> str:
    pa = "PDeprecated" if case["path"] == "dep" else "PVar"
    if ln["kind"] == "inst":
        spec = f"(@BInst (R * R) {bij_inst_term(ln['name'], ln['args'])})"
    elif ln["kind"] == "cls":
        spec = f"(BCls {C_CLS_COQ[ln['name']]})"
    else:
        spec = "(@BDefault (R * R))"
    return f"(mkLink {pa} {spec})"


def cur_chain(case, k):
    """distribution parameters and per-link bijector args in force at step k (-1: initial)"""
    p = dict(case["params"])
    la = [list(ln.get("args", [])) for ln in case["links"]]
    for st in case["steps"][: k + 1]:
        for kk, v in st.get("params", {}).items():
            if kk in case["param_vars"]:
                p[kk] = v
        for i, a in enumerate(st.get("largs", [])):
            if a is not None and case["links"][i]["kind"] == "cls" and case["links"][i].get("arg_vars"):
                la[i] = list(a)
    return p, la


def chain_terms(case, k):
    """(ls, P, args) Coq terms at step k; lists NEWEST first"""
    p, la = cur_chain(case, k)
    ls = "[" + "; ".join(link_term(case, ln) for ln in reversed(case["links"])) + "]"
    args = "[" + "; ".join(pair_term(a if ln["kind"] == "cls" else []) for ln, a in
                           reversed(list(zip(case["links"], la)))) + "]"
    return ls, p_term(case["fam"], p), args


def run_c_case(case) -> dict:
    J = jx()
    jnp, lsl, tfd = J["jnp"], J["lsl"], J["tfd"]
    dep = case["path"] == "dep"
    dt = jnp.float32 if dep else jnp.float64
    f = lambda v: jnp.asarray(float(F(v)), dtype=dt)
    obs = {"dtype": "float32" if dep else "float64", "steps": []}
    names = chain_names(len(case["links"]))
    try:
        fam = FAMS[case["fam"]]
        pn = {}
        for k in fam["params"]:
            pn[k] = lsl.Var(f(case["params"][k]), name=k) if k in case["param_vars"] else f(case["params"][k])
        x = lsl.Var(f(case["v0"]), lsl.Dist(getattr(tfd, case["fam"]), **pn), name="x")
        x.parameter = case["parameter"]
        roots = [x]
        if case.get("child"):
            y = lsl.Var(f(case["child"]["y"]), lsl.Dist(tfd.Normal, loc=x, scale=f(case["child"]["s"])), name="y")
            y.observed = True
            roots = [y]
        gb = lsl.GraphBuilder(to_float32=False) if dep else None
        cur = x
        chain_vars = [x]
        with warnings.catch_warnings():
            warnings.simplefilter("ignore")
            for i, ln in enumerate(case["links"]):
                targs, tkw = [], {}
                if ln["kind"] == "inst":
                    bij = make_inst(ln["name"], ln["args"], f)
                elif ln["kind"] == "cls":
                    bij = cls_of(ln["name"])
                    for j, (kw, val) in enumerate(zip(BIJS[ln["name"]][1], ln["args"])):
                        node = lsl.Var(f(val), name=f"l{i}a{j}") if ln["arg_vars"] else f(val)
                        if ln.get("positional") and ln["name"] != "SoftplusH":
                            targs.append(node)
                        else:
                            tkw[kw] = node
                else:
                    bij = None
                cur = gb.transform(cur, bij, *targs, **tkw) if dep else cur.transform(bij, *targs, **tkw)
                chain_vars.append(cur)
            obs["x_after"] = fr(x.value)
            # outside of a model: assign the newest variable, update the chain in input order, then restore
            old = cur.value
            cur.value = f(case["steps"][0]["t"])
            for v in reversed(chain_vars):
                v.update()
            obs["pre"] = [fr(v.value) for v in chain_vars]
            cur.value = old
            for v in reversed(chain_vars):
                v.update()
            if dep:
                gb.add(*roots)
                model = gb.build_model()
            else:
                model = lsl.Model(roots, to_float32=False)
        mv = model.vars
        if any(n not in mv for n in names):
            obs["raised"] = f"variables {names} expected after the chained transformation, model has {sorted(mv)}"
            return obs
        VS = [mv[n] for n in names]

        def snap():
            return {"vals": [fr(v.value) for v in VS], "lp": fr(VS[-1].log_prob), "mlp": fr(model.log_prob),
                    "older_lp": [float(v.log_prob) for v in VS[:-1]]}

        obs["init"] = snap()
        obs["flags"] = [flags_of(v) for v in VS]
        for st in case["steps"]:
            for k, v in st.get("params", {}).items():
                if k in case["param_vars"]:
                    mv[k].value = f(v)
            for i, a in enumerate(st.get("largs", [])):
                ln = case["links"][i]
                if a is not None and ln["kind"] == "cls" and ln.get("arg_vars"):
                    for j, v in enumerate(a):
                        mv[f"l{i}a{j}"].value = f(v)
            VS[-1].value = f(st["t"])
            obs["steps"].append(snap())
    except NonFinite as ex:
        obs["raised"] = f"non-finite value / log_prob observed ({ex}) after {len(obs['steps'])} assignments"
    except Exception as ex:
        obs["raised"] = f"{type(ex).__name__}: {str(ex)[:200]}"
    return obs


def oracle_c(case):
    obs = case["obs"]
    J = jx()
    jax, jnp, tfd, tfb = J["jax"], J["jnp"], J["tfd"], J["tfb"]
    f64 = lambda v: jnp.asarray(float(F(v)), dtype=jnp.float64)
    rel = 1e-7 if obs["dtype"] == "float64" else 2e-4
    close = lambda a, b: abs(float(a) - float(b)) <= rel * max(1.0, abs(float(b)))
    names = chain_names(len(case["links"]))
    if "pre" in obs:
        p, la = cur_chain(case, -1)
        cur_dist = getattr(tfd, case["fam"])(**{kk: f64(v) for kk, v in p.items()})
        want = [f64(case["steps"][0]["t"])]
        bl = []
        for ln, a in zip(case["links"], la):
            b = cur_dist.experimental_default_event_space_bijector() if ln["kind"] == "default" else make_inst(ln["name"], a, f64)
            bl.append(b)
            cur_dist = tfd.TransformedDistribution(cur_dist, tfb.Invert(b))
        for b in reversed(bl):
            want.append(b.forward(want[-1]))
        for nm, got, w in zip(names, obs["pre"], reversed(want)):
            if not close(got, w):
                hint = ""
                if case["path"] == "dep":
                    hint = (" [deprecated path: if the variable is frozen at its old value this is the as-found RawNode variant of "
                            "_transform_back, theorem C14_dep_chain_rawnode_refuted]")
                return (f"outside a model: after assigning {names[-1]} = {float(want[0])} and updating the chain, the variable {nm} = "
                        f"{float(got)} is not the image {float(w)} of the new variable under the composed forwards" + hint)
    if "raised" in obs:
        return f"chained transformation / assigning failed: {obs['raised']}"
    fl = obs["flags"]
    if [w["name"] for w in fl] != names:
        return f"names of the chain wrong: {[w['name'] for w in fl]}"
    if fl[-1]["parameter"] != case["parameter"] or any(w["parameter"] for w in fl[:-1]):
        return f"parameter flag is not on the newest variable only: {[(w['name'], w['parameter']) for w in fl]}"
    if any(w["has_dist"] or not w["weak"] for w in fl[:-1]) or not fl[-1]["has_dist"] or fl[-1]["weak"]:
        return f"only the newest variable may keep a distribution / be strong: {fl}"
    if not close(obs["x_after"], F(case["v0"])):
        return f"original value changed by the chained transformation: {float(obs['x_after'])} instead of {float(F(case['v0']))}"
    for k, s in [(-1, obs["init"])] + list(enumerate(obs["steps"])):
        p, la = cur_chain(case, k)
        dist = getattr(tfd, case["fam"])(**{kk: f64(v) for kk, v in p.items()})
        cur_dist, bijs = dist, []
        for ln, a in zip(case["links"], la):
            b = cur_dist.experimental_default_event_space_bijector() if ln["kind"] == "default" else make_inst(ln["name"], a, f64)
            bijs.append(b)
            cur_dist = tfd.TransformedDistribution(cur_dist, tfb.Invert(b))

        def images(t):
            out = [t]
            for b in reversed(bijs):
                out.append(b.forward(out[-1]))
            return out          # newest ... original

        if k == -1:
            t = f64(case["v0"])
            for b in bijs:
                t = b.inverse(t)
            if not close(s["vals"][-1], t):
                return f"initial value of the newest variable {float(s['vals'][-1])} is not the composed inverse image {float(t)}"
            if not close(s["vals"][0], F(case["v0"])):
                return f"original value not preserved by the chain: {float(s['vals'][0])} instead of {float(F(case['v0']))}"
        else:
            t = f64(case["steps"][k]["t"])
        im = images(t)
        want_vals = list(reversed(im))      # original ... newest
        for nm, got, want in zip(names, s["vals"], want_vals):
            if not close(got, want):
                return (f"step {k}: after assigning {names[-1]} = {float(t)} the variable {nm} = {float(got)} is not the image "
                        f"{float(want)} of the new variable under the composed forwards")
        jac = jnp.log(jnp.abs(jax.grad(lambda u: images(u)[-1])(t)))
        want = dist.log_prob(im[-1]) + jac
        if not close(s["lp"], want):
            return (f"step {k}: log-density of {names[-1]} {float(s['lp'])} is not log p(image) + sum of log-Jacobians = "
                    f"{float(want)} at t = {float(t)}")
        if any(v != 0.0 for v in s["older_lp"]):
            return f"step {k}: an older variable of the chain still has a log_prob: {s['older_lp']}"
        oth = 0.0
        if case.get("child"):
            oth = float(tfd.Normal(im[-1], f64(case["child"]["s"])).log_prob(f64(case["child"]["y"])))
        if not close(s["mlp"], float(want) + oth):
            return f"step {k}: Model.log_prob {float(s['mlp'])} is not {float(want) + oth}"
    return None


SMALL = [F(1, 4), F(1, 2), F(3, 4), F(1), F(3, 2), F(2)]     # keeps the composed image moderate


def later_links(dom):
    """bijectors that map onto `dom` (the set the previous new variable lives on) + their own domain"""
    if dom == "real":
        return ["Scale", "Shift", "Scale", "default"]
    return ["Exp", "Softplus", "SoftplusH", "Scale", "RecipSoftplus", "default"]


FIRST_ONTO = {"real": ["Identity", "Scale", "Shift"], "pos": ["Exp", "Softplus", "SoftplusH", "Scale", "RecipSoftplus"],
              "above": [], "unit": ["Sigmoid"]}


def gen_c_case(rnd, fam, nlinks, nsteps, first=None, kinds=None, path="var"):
    """a chained case; links oldest first.  Later links are onto the set of the variable they transform."""
    sup = FAMS[fam]["support"]
    params = gen_params(rnd, fam, nonpos_loc=True)
    links = []
    # first link
    k0 = (kinds or [None])[0] or rnd.choice(["inst", "inst", "cls", "default"])
    if k0 == "default":
        name = DEFAULT_BIJ[fam]
        if fam == "HalfCauchy":
            params["loc"] = dy(rnd, -2, 2, 4)
        links.append({"kind": "default", "name": name, "args": []})
        dom, onto, v_args = "real", True, ([params["loc"]] if name == "ShiftExp" else [])
    else:
        cand = [b for b in compatible_bijs(fam) if (k0 != "cls" or BIJS[b][1] is not None)]
        name = first or rnd.choice(cand)
        args = gen_bij_args(rnd, fam, name)
        links.append({"kind": k0, "name": name, "args": args, "arg_vars": rnd.random() < 0.5 if k0 == "cls" else False,
                      "positional": rnd.random() < 0.4})
        dom, onto, v_args = t_domain(fam, name), name in FIRST_ONTO[sup], args
    v0 = gen_v0(rnd, name, v_args, dom, False)
    for i in range(1, nlinks):
        ki = (kinds[i] if kinds and i < len(kinds) and kinds[i] else rnd.choice(["inst", "inst", "cls", "default"]))
        if ki == "default" and not (onto and all(l["kind"] != "cls" or not l.get("arg_vars") for l in links)
                                    and all(l["name"] != "TDdefault" for l in links)):
            # the default of a transformed distribution needs the previous links onto; at most one per chain
            # (the default of a default nests the whole chain twice: interval terms explode)
            ki = "inst"
        if ki == "default":
            links.append({"kind": "default", "name": "TDdefault", "args": []})
            dom = "real"
            continue
        cand = [b for b in later_links(dom) if b != "default" and (ki != "cls" or BIJS[b][1] is not None)]
        nm = rnd.choice(cand)
        if nm == "Scale":
            c = rnd.choice(SMALL)
            args = [-c] if (dom == "real" and rnd.random() < 0.4) else [c]
        elif nm == "Shift":
            args = [dy(rnd, -2, 2, 4)]
        elif nm == "SoftplusH":
            args = [rnd.choice([F(1, 2), F(1), F(2)])]
        else:
            args = []
        links.append({"kind": ki, "name": nm, "args": args, "arg_vars": rnd.random() < 0.5 if ki == "cls" else False,
                      "positional": rnd.random() < 0.4})
        dom = "pos" if (nm == "Scale" and dom == "pos") else "real"
    param_vars = [k for k in FAMS[fam]["params"] if rnd.random() < 0.4]
    if any(l["kind"] == "default" and l["name"] == "TDdefault" for l in links) and fam == "HalfCauchy":
        param_vars = [k for k in param_vars if k != "loc"]
    steps = []
    for j in range(nsteps):
        st = {"t": gen_t(rnd, dom, False) if dom == "pos" else (dy(rnd, -1, 1, 8) if path == "dep" else dy(rnd, -2, 2, 8))}
        if j >= 1:
            newp = gen_params(rnd, fam, nonpos_loc=True)
            chg = {k: newp[k] for k in param_vars}
            if fam == "HalfCauchy" and links[0]["kind"] == "default" and "loc" in chg:
                chg["loc"] = dy(rnd, -2, 2, 4)
            st["params"] = chg
            la = []
            for i, l in enumerate(links):
                if l["kind"] == "cls" and l.get("arg_vars"):
                    if l["name"] == "Scale":
                        c = rnd.choice(SMALL if i > 0 else POS)
                        la.append([c if F(l["args"][0]) > 0 else -c])    # keep the sign (the domains depend on it)
                    elif i == 0:
                        la.append(gen_bij_args(rnd, fam, l["name"]))
                    elif l["name"] == "Shift":
                        la.append([dy(rnd, -2, 2, 4)])
                    else:
                        la.append([rnd.choice([F(1, 2), F(1), F(2)])])
                else:
                    la.append(None)
            st["largs"] = la
        steps.append(st)
    return {"type": "C", "fam": fam, "params": params, "param_vars": param_vars, "path": path,
            "parameter": rnd.random() < 0.7, "links": links, "v0": v0,
            "child": {"s": rnd.choice(POS), "y": dy(rnd, -2, 3, 4)} if rnd.random() < 0.5 else None, "steps": steps}


def gen_c_cases(ctx, rnd):
    nsteps = 2 if ctx.quick else 3
    cases = []
    frnd = random.Random(414)
    # corpus: instance first, then a second transformation that replaces the new variable's value node
    fixed = [("Gamma", 2, "Exp", ["inst", "inst"]), ("Gamma", 2, "Exp", ["inst", "cls"]), ("HalfNormal", 2, "Softplus", ["inst", "default"]),
             ("InverseGamma", 3, "Exp", ["inst", "inst", "cls"]), ("Normal", 2, "Shift", ["cls", "inst"]),
             ("Beta", 2, None, ["default", "inst"]), ("LogNormal", 3, None, ["default", "cls", "inst"]),
             ("Exponential", 3, "Scale", ["inst", "inst", "default"])]
    for fam, n, first, kinds in fixed:
        c = gen_c_case(frnd, fam, n, nsteps, first=first, kinds=kinds)
        c["corpus"] = True
        cases.append(c)
    n_rand = 2 if ctx.quick else 12
    for fam in FAMS:
        for _ in range(n_rand):
            cases.append(gen_c_case(rnd, fam, rnd.choice([2, 2, 3]), nsteps))
    if DEP_CHAIN:
        # deprecated GraphBuilder.transform applied repeatedly (float32 inside: moderate values, no Beta)
        dfixed = [("Gamma", 2, "Exp", ["inst", "inst"]), ("Normal", 2, "Shift", ["cls", "inst"]),
                  ("HalfNormal", 2, None, ["default", "inst"]), ("InverseGamma", 3, "Softplus", ["inst", "cls", "inst"])]
        for fam, n, first, kinds in dfixed:
            c = gen_c_case(frnd, fam, n, nsteps, first=first, kinds=kinds, path="dep")
            c["corpus"] = True
            cases.append(c)
        dfams = [f for f in FAMS if f != "Beta"]
        for i in range(3 if ctx.quick else 28):
            cases.append(gen_c_case(rnd, dfams[i % len(dfams)], rnd.choice([2, 2, 3]), nsteps, path="dep"))
    return cases


def c_goals(case) -> list[str]:
    obs = case["obs"]
    dt = obs["dtype"]
    oth = others_term(case)
    D = FAMS[case["fam"]]["coq"]
    k = len(case["links"])
    goals = []

    def g(term, v):
        goals.append(f"obs_close {term} {rlit(v)} {rlit(tol_of(v, dt))}")

    ls, P0, A0 = chain_terms(case, -1)
    init = f"(chain_init {D} {ls} {P0} {A0} {rlit(F(case['v0']))})"
    s = obs["init"]
    g(init, s["vals"][-1])
    # the remaining initial observations are taken at the value the implementation's newest variable
    # actually holds (an exact float literal, certified close to chain_init by the goal above)
    t0 = rlit(s["vals"][-1])
    g(f"(chain_logpdf {D} {ls} {P0} {A0} {t0})", s["lp"])
    for j in range(k):      # older variable j (0 = nearest to the newest) is vals[k-1-j]
        g(f"(nth_val (chain_up {D} {ls} {P0} {A0} {t0}) {j})", s["vals"][k - 1 - j])
    if case.get("child"):
        g(f"(chain_model_lp {oth} {D} {ls} {P0} {A0} {t0})", s["mlp"])
    if case["path"] == "dep" and "pre" in obs:
        # outside a model, right after the second GraphBuilder.transform: pins the Proxy variant of _transform_back
        tp = rlit(F(case["steps"][0]["t"]))
        for j in range(k):
            g(f"(nth_val (chain_up_v {D} Proxy true {ls} {P0} {A0} {rlit(F(case['v0']))} {P0} {A0} {tp}) {j})", obs["pre"][k - 1 - j])
    for i, s in enumerate(obs["steps"]):
        ls, Pk, Ak = chain_terms(case, i)
        t = rlit(F(case["steps"][i]["t"]))
        g(f"(chain_logpdf {D} {ls} {Pk} {Ak} {t})", s["lp"])
        for j in range(k):
            g(f"(nth_val (chain_up {D} {ls} {Pk} {Ak} {t}) {j})", s["vals"][k - 1 - j])
        if case.get("child"):
            g(f"(chain_model_lp {oth} {D} {ls} {Pk} {Ak} {t})", s["mlp"])
    return goals


# structural chains (type "K")
def gen_k_cases(ctx, rnd):
    cases = []
    kinds_ok = ["inst", "cls_args", "default"]
    for n in (2, 3):
        for _ in range(6 if ctx.quick else 30):
            ks = [(rnd.random() < 0.8, rnd.choice(kinds_ok if rnd.random() < 0.85 else S_KINDS)) for _ in range(n)]
            if not all(vp for vp, _ in ks):
                ks = [(False, k) for _, k in ks] if rnd.random() < 0.5 else [(True, k) for _, k in ks]
            cases.append({"type": "K", "kinds": ks,
                          "var": {"name": rnd.choice(["x", "tau2"]), "parameter": rnd.random() < 0.6, "observed": rnd.random() < 0.2,
                                  "has_dist": True, "weak": False, "auto": rnd.random() < 0.2, "default": rnd.random() < 0.8}})
    return cases


def run_k_case(case):
    J = jx()
    jnp, lsl, tfb = J["jnp"], J["lsl"], J["tfb"]
    f = lambda v: jnp.asarray(float(F(v)), dtype=jnp.float32)
    x = make_var(case["var"], f)
    allv = [x]
    gb = lsl.GraphBuilder()
    try:
        with warnings.catch_warnings():
            warnings.simplefilter("ignore")
            for vp, kind in case["kinds"]:
                bij, args = {"inst": (tfb.Scale(f(2)), ()), "inst_args": (tfb.Scale(f(2)), (f(1),)), "cls": (tfb.Scale, ()),
                             "cls_args": (tfb.Scale, (f(2),)), "default": (None, ()), "other": ("scale", ())}[kind]
                allv.append(allv[-1].transform(bij, *args) if vp else gb.transform(allv[-1], bij, *args))
        return [flags_of(v) for v in allv]
    except Exception as ex:
        case["err"] = f"{type(ex).__name__}: {str(ex)[:120]}"
        return None


def oracle_k(case):
    o = case["obs"]
    if o is None:
        return None         # refusals are judged by the model (agrees_c); the property speaks about successful chains
    if o[-1]["parameter"] != case["var"]["parameter"] or any(w["parameter"] or w["has_dist"] or not w["weak"] for w in o[:-1]) \
            or not o[-1]["has_dist"] or o[-1]["weak"]:
        return f"flags along the chain wrong: {o}"
    return None


def k_row(c) -> str:
    ks = lst(f"({blit(vp)}, {S_KIND_COQ[k]})" for vp, k in c["kinds"])
    ob = "None" if c["obs"] is None else f"(Some {lst(var_lit(w) for w in c['obs'])})"
    return f"(mkC {ks} {var_lit(c['var'])} {ob})"


def oracle(case):
    return {"R": oracle_r, "S": oracle_s, "A": oracle_a, "C": oracle_c, "K": oracle_k, "H": oracle_h}[case["type"]](case)


# ----------------------------------------------------------------------------------------------
# generators
# ----------------------------------------------------------------------------------------------
def dy(rnd, lo, hi, den=8):
    """a dyadic in [lo, hi] with denominator den"""
    return F(rnd.randint(int(lo * den), int(hi * den)), den)


def gen_params(rnd, fam, nonpos_loc=False):
    p = {}
    for k in FAMS[fam]["params"]:
        if k == "loc":
            p[k] = rnd.choice([F(-1), F(-1, 2), F(0)]) if (fam == "HalfCauchy" and nonpos_loc) else dy(rnd, -2, 2, 4)
        elif k in ("scale", "rate"):
            p[k] = rnd.choice(POS)
        else:
            p[k] = rnd.choice(CONCS)
    return p


def compatible_bijs(fam):
    s = FAMS[fam]["support"]
    if s == "real":
        return ["Identity", "Scale", "Shift", "Exp", "Softplus", "Sigmoid", "SoftplusH"]
    if s in ("pos", "above"):
        return ["Exp", "Softplus", "SoftplusH", "Scale", "RecipSoftplus", "ShiftExp", "SigmoidLH"]
    return ["Sigmoid", "SigmoidLH"]


def gen_bij_args(rnd, fam, name):
    s = FAMS[fam]["support"]
    if name == "Scale":
        c = rnd.choice(POS)
        return [-c] if (s == "real" and rnd.random() < 0.5) else [c]
    if name == "Shift":
        return [dy(rnd, -2, 2, 4)]
    if name == "SoftplusH":
        return [rnd.choice([F(1, 2), F(1), F(2), F(3, 2), F(1, 4)])]
    if name == "SigmoidLH":
        if s == "unit":
            lo = rnd.choice([F(0), F(1, 8), F(1, 4)])
            return [lo, rnd.choice([F(1), F(7, 8), F(3, 4)])]
        lo = rnd.choice([F(0), F(1, 2), F(1)])
        return [lo, lo + rnd.choice([F(1), F(2), F(5, 2)])]
    if name == "ShiftExp":
        return [rnd.choice([F(0), F(1, 2), F(1)])]
    return []


def t_domain(fam, name):
    """values the new variable may take: Scale with a positive factor on a positive family needs t > 0"""
    if name == "Scale" and FAMS[fam]["support"] in ("pos", "above"):
        return "pos"
    return "real"


def gen_t(rnd, dom, big):
    if dom == "pos":
        return rnd.choice([F(1, 16), F(1, 4), F(1, 2), F(1), F(3, 2), F(5, 2), F(4)] + ([F(8)] if big else []))
    lim = 5 if big else 3
    return dy(rnd, -lim, lim, 8)


def fwd_py(name, args, t):
    t = float(t)
    a = [float(x) for x in args]
    sp = lambda u: math.log1p(math.exp(u))
    return {"Identity": lambda: t, "Exp": lambda: math.exp(t), "Softplus": lambda: sp(t),
            "Sigmoid": lambda: 1 / (1 + math.exp(-t)), "Scale": lambda: a[0] * t, "Shift": lambda: t + a[0],
            "SoftplusH": lambda: a[0] * sp(t / a[0]), "SigmoidLH": lambda: a[0] + (a[1] - a[0]) / (1 + math.exp(-t)),
            "RecipSoftplus": lambda: 1 / sp(t), "ShiftExp": lambda: a[0] + math.exp(t)}[name]()


def gen_v0(rnd, name, args, dom, boundary):
    """initial value of the original variable: an exact dyadic in the range of the bijector"""
    if name in ("Identity", "Shift") or (name == "Scale" and dom == "real"):
        return dy(rnd, -3, 3, 8)
    if name == "Sigmoid":
        return rnd.choice([F(1, 64), F(63, 64)]) if boundary else F(rnd.randint(1, 15), 16)
    if name == "SigmoidLH":
        lo, hi = F(args[0]), F(args[1])
        k = rnd.choice([1, 63]) if boundary else rnd.randint(4, 60)
        return lo + (hi - lo) * F(k, 64)
    if name == "ShiftExp":
        return F(args[0]) + (F(1, 64) if boundary else rnd.choice(POS))
    return F(1, 64) if boundary else rnd.choice(POS + [F(1, 8), F(6)])


def gen_r_case(rnd, fam, bname, kind, path, tier_steps, boundary=False, big=False, force_var_args=None):
    nonpos = bname != "default" and bname not in ("ShiftExp",)
    params = gen_params(rnd, fam, nonpos_loc=True)
    if kind == "default":
        name = DEFAULT_BIJ[fam]
        if fam == "HalfCauchy":
            params["loc"] = dy(rnd, -2, 2, 4)
        args = [params["loc"]] if name == "ShiftExp" else []
    else:
        name = bname
        args = gen_bij_args(rnd, fam, name)
    dom = t_domain(fam, name) if kind != "default" else "real"
    float32 = path == "dep"
    param_vars = [k for k in FAMS[fam]["params"] if rnd.random() < 0.5]
    case = {"type": "R", "fam": fam, "params": params, "param_vars": param_vars, "path": path,
            "parameter": rnd.random() < 0.7,
            "bij": {"kind": kind, "name": name, "args": args if kind != "default" else [],
                    "arg_vars": (rnd.random() < 0.6 if force_var_args is None else force_var_args) if kind == "cls" else False,
                    "positional": rnd.random() < 0.4},
            "child": {"s": rnd.choice(POS), "y": dy(rnd, -2, 3, 4)} if rnd.random() < 0.5 else None}
    v_args = [params["loc"]] if (kind == "default" and name == "ShiftExp") else args
    case["v0"] = gen_v0(rnd, name, v_args, dom, boundary and not float32)
    if fam == "HalfCauchy" and kind != "default":
        # the support is x > loc: keep the image of the bijector inside it
        lo_img = {"SigmoidLH": lambda: F(args[0]), "ShiftExp": lambda: F(args[0])}.get(name, lambda: F(0))()
        if params["loc"] > lo_img:
            params["loc"] = rnd.choice([F(-1), F(-1, 2), F(0)])
    steps = []
    for j in range(tier_steps):
        st = {"t": gen_t(rnd, dom, big and not float32)}
        if j >= 1:
            newp = gen_params(rnd, fam, nonpos_loc=True)
            chg = {k: newp[k] for k in param_vars}
            if fam == "HalfCauchy" and kind == "default" and "loc" in chg:
                chg["loc"] = dy(rnd, -2, 2, 4)
            st["params"] = chg
            if case["bij"]["arg_vars"]:
                na = gen_bij_args(rnd, fam, name)
                # keep the sign / ordering constraints of the case
                if name == "Scale" and dom == "pos":
                    na = [abs(na[0])]
                st["args"] = na
        steps.append(st)
    case["steps"] = steps
    return case


MODES = ["copy", "copy_nodes", "interface", "inplace"]


def set_mode(rnd, case, mode):
    """run the assignments in a copy of the graph; make sure a model-dependent argument exists and is changed"""
    case["mode"] = mode
    if mode == "inplace":
        return case
    fam, b = case["fam"], case["bij"]
    if b["kind"] == "default" and fam == "HalfCauchy" and "loc" not in case["param_vars"]:
        case["param_vars"].append("loc")
    for j, st in enumerate(case["steps"]):
        if j >= 1:
            st.setdefault("params", {})
            if b["kind"] == "default" and fam == "HalfCauchy":
                st["params"]["loc"] = dy(rnd, -2, 2, 4)
    return case


def stratum(case):
    b = case["bij"]
    k = b["kind"] + ("+VarArgs" if b.get("arg_vars") else "")
    return f"R path={case['path']} spec={k}"


def gen_r_cases(ctx, rnd):
    cases = []
    nsteps = 2 if ctx.quick else 3
    # corpus of fixed cases that always run first
    fixed = [
        ("HalfCauchy", "Exp", "inst", "var"), ("HalfCauchy", "default", "default", "var"),
        ("InverseGamma", "default", "default", "dep"), ("InverseGamma", "default", "default", "auto"),
        ("Gamma", "Scale", "cls", "var"), ("Gamma", "SoftplusH", "cls", "dep"), ("Beta", "SigmoidLH", "cls", "var"),
        ("Normal", "Scale", "inst", "var"), ("Normal", "Shift", "cls", "dep"), ("Beta", "default", "default", "auto"),
        ("Exponential", "Softplus", "inst", "dep"), ("LogNormal", "default", "default", "var"),
        ("HalfNormal", "RecipSoftplus", "inst", "var"), ("HalfCauchy", "default", "default", "auto"),
    ]
    frnd = random.Random(14)
    for fam, bn, kind, path in fixed:
        cases.append(gen_r_case(frnd, fam, bn, kind, path, nsteps, force_var_args=True if kind == "cls" else None))
        cases[-1]["corpus"] = True
    per = 1 if ctx.quick else 3
    for fam in FAMS:
        bijs = compatible_bijs(fam)
        for bn in bijs:
            # quick: one entry point per combination, chosen at random; thorough: both, several times
            for path in ([rnd.choice(["var", "dep"])] if ctx.quick else ["var", "dep"]):
                for _ in range(per):
                    cases.append(gen_r_case(rnd, fam, bn, "inst", path, nsteps, boundary=rnd.random() < 0.3, big=rnd.random() < 0.3))
            if BIJS[bn][1] is not None:
                for va in (True, False):
                    for path in ([rnd.choice(["var", "dep"])] if ctx.quick else ["var", "dep"]):
                        for _ in range(per):
                            cases.append(gen_r_case(rnd, fam, bn, "cls", path, nsteps, big=rnd.random() < 0.3, force_var_args=va))
        for path in ("var", "dep", "auto"):
            for _ in range(per):
                cases.append(gen_r_case(rnd, fam, "default", "default", path, nsteps, boundary=rnd.random() < 0.3, big=rnd.random() < 0.3))
    # copies of the graph: class with Var arguments / parameters that are Vars / parameter-dependent default
    # (HalfCauchy: Shift(loc) o Exp) are cycled through build_model(copy=True), copy_nodes_and_vars + rebuild and
    # gs.LieselInterface.update_state; the argument is changed in the copy only
    k = 0
    for c in cases:
        dep_default = c["bij"]["kind"] == "default" and c["fam"] == "HalfCauchy"
        if c["bij"].get("arg_vars") or dep_default or (c["param_vars"] and rnd.random() < 0.35):
            set_mode(rnd, c, MODES[k % len(MODES)])
            k += 1
    return cases


S_KINDS = ["inst", "inst_args", "cls", "cls_args", "default", "other", "cls_bad"]
S_KIND_COQ = {"inst": "(KInst false)", "inst_args": "(KInst true)", "cls": "(KCls false)", "cls_args": "(KCls true)",
              "default": "KDefault", "other": "KOther", "cls_bad": "KClsBad"}


def call_of(kind, f):
    """(bijector argument, positional args, keyword args) of a transform call of the given shape"""
    tfb = jx()["tfb"]
    return {"inst": (tfb.Softplus(), (), {}), "inst_args": (tfb.Softplus(), (f(1),), {}), "cls": (tfb.Softplus, (), {}),
            "cls_args": (tfb.Softplus, (f(1),), {}), "default": (None, (), {}), "other": ("softplus", (), {}),
            "cls_bad": (tfb.Softplus, (), {"hinge_softnes": f(1)})}[kind]


def gen_h_cases(ctx, rnd):
    """a refused transform (every refusal reason of the model), possibly several, then a correct one"""
    cases = []
    for vp in (True, False):
        refusals = ["inst_args", "cls", "other", "cls_bad"] if vp else ["inst_args", "other", "cls_bad"]
        accepted = ["inst", "cls_args", "default"] + ([] if vp else ["cls"])
        seqs = [[r] for r in refusals] + [["default"]]          # "default" is refused when the distribution has none
        for _ in range(3 if ctx.quick else 25):
            seqs.append([rnd.choice(refusals) for _ in range(rnd.randint(2, 3))])
        for seq in seqs:
            for ok in (accepted if len(seq) == 1 else [rnd.choice(accepted)]):
                nodef = "default" in seq
                if nodef and ok == "default":
                    ok = "inst"
                cases.append({"type": "H", "var_path": vp, "calls": seq + [ok],
                              "var": {"name": rnd.choice(["x", "tau2"]), "parameter": rnd.random() < 0.8, "observed": False,
                                      "has_dist": True, "weak": False, "auto": rnd.random() < 0.4, "default": not nodef}})
    return cases


def run_h_case(case):
    J = jx()
    jnp, lsl = J["jnp"], J["lsl"]
    f = lambda v: jnp.asarray(float(F(v)), dtype=jnp.float32)
    x = make_var(case["var"], f)
    gb = lsl.GraphBuilder()
    obs = {"after": [], "errs": []}
    tv = None
    with warnings.catch_warnings():
        warnings.simplefilter("ignore")
        for kind in case["calls"]:
            bij, args, kw = call_of(kind, f)
            try:
                tv = x.transform(bij, *args, **kw) if case["var_path"] else gb.transform(x, bij, *args, **kw)
                obs["errs"].append(None)
            except Exception as ex:
                obs["errs"].append(type(ex).__name__)
            obs["after"].append(flags_of(x))
            if tv is not None:
                break
        if tv is not None:
            try:
                obs["new"] = flags_of(tv)
                model = lsl.Model([x]) if case["var_path"] else gb.build_model()
                lp_new = float(model.vars[tv.name].log_prob)
                obs["log_prior"], obs["lp_new"], obs["log_prob"] = float(model.log_prior), lp_new, float(model.log_prob)
                obs["in_prior"] = abs(obs["log_prior"] - lp_new) <= 1e-5 * max(1.0, abs(lp_new))
            except Exception as ex:
                obs["raised"] = f"{type(ex).__name__}: {str(ex)[:160]}"
    return obs


def oracle_h(case):
    o, v = case["obs"], case["var"]
    if "raised" in o:
        return f"building the model after the history {case['calls']} failed: {o['raised']}"
    n = len(case["calls"])
    if o["errs"][: n - 1] != [e for e in o["errs"][: n - 1] if e] or len(o["errs"]) < n:
        return None if "new" not in o else f"a call expected to be refused was accepted: {list(zip(case['calls'], o['errs']))}"
    keep = ("name", "parameter", "observed", "has_dist", "weak")
    for kind, fl in zip(case["calls"][:-1], o["after"]):
        if any(fl[k] != v[k] for k in keep):
            return (f"the refused call transform({kind}) modified the variable: "
                    f"{ {k: fl[k] for k in keep} } instead of { {k: v[k] for k in keep} }")
    if "new" not in o:
        return f"the final call transform({case['calls'][-1]}) was refused: {o['errs'][-1]}"
    x, t = o["after"][-1], o["new"]
    if t["parameter"] != v["parameter"] or x["parameter"]:
        return (f"after the refused call(s) {case['calls'][:-1]} and a correct transform({case['calls'][-1]}) the parameter flag "
                f"did not move: original {x['parameter']}, new variable {t['parameter']}, was {v['parameter']}")
    want = o["lp_new"] if v["parameter"] else 0.0
    if abs(o["log_prior"] - want) > 1e-5 * max(1.0, abs(want)):
        return (f"after the history {case['calls']} Model.log_prior = {o['log_prior']} but the new variable's log-density "
                f"{o['lp_new']} {'must' if v['parameter'] else 'must not'} be part of it")
    if x["has_dist"] or not x["weak"] or not t["has_dist"] or t["weak"]:
        return f"flags after the history {case['calls']} wrong: {x} / {t}"
    return None


def h_row(c) -> str:
    o = c["obs"]
    calls = lst(f"({blit(c['var_path'])}, {S_KIND_COQ[k]})" for k in c["calls"][: len(o["after"])])
    new = f"(Some {var_lit(o['new'])})" if "new" in o else "None"
    return (f"(mkH {calls} {var_lit(c['var'])} {lst(var_lit(w) for w in o['after'])} {new} "
            f"{blit(o.get('in_prior', False))})")


def gen_s_cases(ctx, rnd):
    cases = []
    for var_path in (True, False):
        for kind in S_KINDS:
            for weak, has_dist, default in [(False, True, True), (False, True, False), (True, True, True),
                                            (False, False, True), (True, False, True)]:
                for _ in range(1 if ctx.quick else 3):
                    cases.append({"type": "S", "var_path": var_path, "kind": kind,
                                  "var": {"name": rnd.choice(["x", "sigma", "tau2", "b_0"]), "parameter": rnd.random() < 0.5,
                                          "observed": rnd.random() < 0.3, "has_dist": has_dist, "weak": weak,
                                          "auto": rnd.random() < 0.3, "default": default}})
    return cases


def make_var(v, f):
    J = jx()
    lsl, tfd = J["lsl"], J["tfd"]
    dist = None
    if v["has_dist"]:
        dist = lsl.Dist(tfd.HalfNormal, scale=f(2)) if v["default"] else lsl.Dist(J["NoDefaultNormal"], loc=f(0), scale=f(1))
    if v["weak"]:
        val = lsl.Calc(lambda u: u * 1.0, lsl.Var(f(F(1, 2)), name=v["name"] + "_src"))
    else:
        val = f(F(1, 2))
    x = lsl.Var(val, dist, name=v["name"])
    x.parameter = v["parameter"]
    x.observed = v["observed"]
    x.auto_transform = v["auto"]
    return x


def run_s_case(case):
    J = jx()
    jnp, lsl, tfb = J["jnp"], J["lsl"], J["tfb"]
    f = lambda v: jnp.asarray(float(F(v)), dtype=jnp.float32)
    x = make_var(case["var"], f)
    bij, args, kw = call_of(case["kind"], f)
    try:
        with warnings.catch_warnings():
            warnings.simplefilter("ignore")
            if case["var_path"]:
                tv = x.transform(bij, *args, **kw)
            else:
                tv = lsl.GraphBuilder().transform(x, bij, *args, **kw)
        return {"x": flags_of(x), "tv": flags_of(tv)}
    except Exception as ex:
        nm = type(ex).__name__
        return {"err": nm if nm in ("RuntimeError", "ValueError", "TypeError") else "other", "msg": str(ex)[:120]}


def gen_a_cases(ctx, rnd):
    cases = []
    n = 40 if ctx.quick else 300
    names = ["a", "b", "c", "d", "e"]
    for i in range(n):
        k = rnd.randint(1, 4)
        nm = rnd.sample(names, k)
        vs = []
        for j, name in enumerate(nm):
            bad = rnd.random() < 0.12
            vs.append({"name": name, "parameter": rnd.random() < 0.5, "observed": rnd.random() < 0.2,
                       "has_dist": not (bad and rnd.random() < 0.4), "weak": bad and rnd.random() < 0.3,
                       "auto": rnd.random() < 0.6, "default": not (bad and rnd.random() < 0.5)})
        if i % 9 == 4:   # forced: a name clash with the would-be transformed variable
            v0 = vs[0]
            v0.update(auto=True, has_dist=True, weak=False, default=True)
            vs.append({"name": v0["name"] + "_transformed", "parameter": False, "observed": False, "has_dist": False,
                       "weak": False, "auto": False, "default": True})
        if i % 9 == 0:   # forced: everything valid, at least one auto
            for v in vs:
                v.update(has_dist=True, weak=False, default=True)
            vs[0]["auto"] = True
        cases.append({"type": "A", "vars": vs})
    return cases


def run_a_case(case):
    J = jx()
    jnp, lsl = J["jnp"], J["lsl"]
    f = lambda v: jnp.asarray(float(F(v)), dtype=jnp.float32)
    vs = [make_var(v, f) for v in case["vars"]]
    try:
        with warnings.catch_warnings():
            warnings.simplefilter("ignore")
            model = lsl.GraphBuilder().add(*vs).build_model()
    except Exception as ex:
        case["err"] = f"{type(ex).__name__}: {str(ex)[:120]}"
        return None
    return [flags_of(v) for k, v in sorted(model.vars.items()) if not k.endswith("_src")]


def generate(ctx):
    rnd = random.Random(ctx.seed)
    jx()
    cases = gen_r_cases(ctx, rnd) + gen_c_cases(ctx, rnd) + gen_s_cases(ctx, rnd) + gen_a_cases(ctx, rnd) + gen_k_cases(ctx, rnd) + gen_h_cases(ctx, rnd)
    distinct = set()
    n_eval = 0
    for c in cases:
        if c["type"] == "R":
            c["obs"] = run_r_case(c)
            ctx.hist(stratum(c))
            ctx.hist(f"R graph mode={c.get('mode', 'inplace')}")
            if c.get("mode", "inplace") != "inplace" and (c["bij"].get("arg_vars") or (c["bij"]["kind"] == "default" and c["fam"] == "HalfCauchy")):
                ctx.hist(f"R model-dependent bijector argument changed in a copy ({c['mode']})")
            ctx.hist(f"R family={c['fam']}")
            ctx.hist(f"R bijector={c['bij']['name']}")
            if c["child"]:
                ctx.hist("R with observed child")
            if c["param_vars"]:
                ctx.hist("R distribution parameter is a Var (changed after build)")
            if any(abs(float(F(s["t"]))) >= 3 for s in c["steps"]):
                ctx.hist("R |t| >= 3 (forward and inverse differ strongly)")
            if F(c["v0"]).denominator == 64:
                ctx.hist("R initial value next to the boundary of the support")
            if c["bij"]["name"] == "Scale" and F(c["bij"]["args"][0]) < 0 if c["bij"]["args"] else False:
                ctx.hist("R negative scale (|det|)")
            n_eval += 1 + len(c["steps"])
            distinct.add((c["fam"], c["bij"]["kind"], c["bij"]["name"], c["path"], str(c["params"]), str(c["v0"]),
                          str(c["steps"])))
        elif c["type"] == "C":
            c["obs"] = run_c_case(c)
            kinds = "+".join(l["kind"] + ("VarArgs" if l.get("arg_vars") else "") for l in c["links"])
            ctx.hist(f"C chain of {len(c['links'])} links")
            ctx.hist("C chain through " + ("GraphBuilder.transform (deprecated)" if c["path"] == "dep" else "Var.transform"))
            ctx.hist(f"C chain kinds (oldest first) {kinds}")
            ctx.hist(f"C family={c['fam']}")
            if c["links"][0]["kind"] == "inst":
                ctx.hist("C first link by instance, value node of the new variable replaced by a later link")
            n_eval += 1 + len(c["steps"])
            distinct.add(("C", c["fam"], str(c["links"]), str(c["params"]), str(c["v0"]), str(c["steps"])))
        elif c["type"] == "H":
            c["obs"] = run_h_case(c)
            ctx.hist(f"H {'Var.transform' if c['var_path'] else 'GraphBuilder.transform'}: {len(c['calls']) - 1} refused call(s), then a correct one")
            for kd in set(c["calls"][:-1]):
                ctx.hist(f"H refusal reason {kd}")
            n_eval += len(c["calls"])
            distinct.add(("H", c["var_path"], str(c["calls"]), str(sorted(c["var"].items()))))
        elif c["type"] == "K":
            c["obs"] = run_k_case(c)
            ctx.hist(f"K chained flags {'ok' if c['obs'] is not None else 'raises'}")
            n_eval += 1
            distinct.add(("K", str(c["kinds"]), str(sorted(c["var"].items()))))
        elif c["type"] == "S":
            c["obs"] = run_s_case(c)
            ctx.hist(f"S {'Var.transform' if c['var_path'] else 'GraphBuilder.transform'} {'ok' if 'x' in c['obs'] else 'raises'}")
            n_eval += 1
            distinct.add(("S", c["var_path"], c["kind"], str(sorted(c["var"].items()))))
        else:
            c["obs"] = run_a_case(c)
            ctx.hist(f"A build {'ok' if c['obs'] is not None else 'raises'}")
            n_eval += 1
            distinct.add(("A", str(c["vars"])))
    ctx.count(n_eval, len(distinct))
    ctx.cov["rule"] = ("R: one evaluation per (case, assignment to the new variable); distinct = distinct (family, bijector spec, "
                       "entry point, parameters, initial value, assignment list); C: chained transformations (2-3 links), "
                       "same counting; S/A/K: distinct (entry point(s), argument shape(s), flags)")
    for c in [c for c in cases if c["type"] == "R"][:3]:
        ctx.sample(jsonable({k: c[k] for k in ("fam", "params", "path", "bij", "v0", "steps")}))
    ctx.tested_not_proved += [
        "tfp's closed-form log_prob of the eight families and the forward/inverse/log-det formulas of its bijectors "
        "(Identity, Exp, Softplus(+hinge), Sigmoid(+low/high), Scale, Shift, Reciprocal, Chain) are compared with the "
        "model's formulas numerically on every run, not derived from tfp's source",
        "ln Gamma at non-(half-)integer concentrations is taken from math.lgamma",
        "exception classes of refused transformations (only compared as RuntimeError / ValueError / TypeError / other)",
        "deep copies of the graph (build_model(copy=True), copy_nodes_and_vars, gs.LieselInterface): that the copy evaluates "
        "the transformed variable at ITS OWN current arguments, and that the model copied from stays untouched",
    ]
    ctx.assume += [
        "lawful b T X: b maps T one-to-one onto X, fldj = ln|fwd'| (Coquelicot is_derive), ildj x = -fldj (inv x); "
        "proved for the ten bijector forms listed in C14_lawful_instances",
        "tfd.TransformedDistribution(d, bij).log_prob(y) = d.log_prob(bij.inverse(y)) + bij.inverse_log_det_jacobian(y) "
        "and tfb.Invert swaps forward/inverse (tfp, modelled)",
        "scalar variables (event shape ())",
    ]
    ctx.extra_tb = ["Coquelicot (is_derive), coq-interval (interval tactic) for the R-lemmas",
                    "tensorflow_probability distributions / bijectors (modelled by closed forms, compared numerically on each run)"]
    return cases


def jsonable(o):
    if isinstance(o, Fraction):
        return str(o)
    if isinstance(o, dict):
        return {k: jsonable(v) for k, v in o.items()}
    if isinstance(o, (list, tuple)):
        return [jsonable(v) for v in o]
    return o


# ----------------------------------------------------------------------------------------------
# emission
# ----------------------------------------------------------------------------------------------
def r_goals(case) -> list[str]:
    obs = case["obs"]
    T = t_term(case)
    oth = others_term(case)
    dt = obs["dtype"]
    goals = []

    def g(term, v):
        goals.append(f"obs_close {term} {rlit(v)} {rlit(tol_of(v, dt))}")

    p0, a0 = cur_params(case, -1)
    P0, A0 = p_term(case["fam"], p0), (a_term(a0) if case["bij"]["kind"] == "cls" else "tt")
    s = obs["init"]
    g(f"(r_init {T})", s["t"])
    g(f"(at_init {T} (r_value {T} {P0} {A0}))", s["x"])
    g(f"(at_init {T} (r_logpdf {T} {P0} {A0}))", s["lp"])
    if case.get("child"):
        g(f"(at_init {T} (model_lp_after {oth} {T} {P0} {A0}))", s["mlp"])
    for k, s in enumerate(obs["steps"]):
        p, a = cur_params(case, k)
        Pk, Ak = p_term(case["fam"], p), (a_term(a) if case["bij"]["kind"] == "cls" else "tt")
        t = rlit(F(case["steps"][k]["t"]))
        g(f"(r_logpdf {T} {Pk} {Ak} {t})", s["lp"])
        g(f"(r_value {T} {Pk} {Ak} {t})", s["x"])
        if case.get("child"):   # without a child Model.log_prob is the same number (checked by the oracle)
            g(f"(model_lp_after {oth} {T} {Pk} {Ak} {t})", s["mlp"])
    return goals


def var_lit(v) -> str:
    return (f"(mkVar {strlit(v['name'])} {blit(v['parameter'])} {blit(v['observed'])} {blit(v['has_dist'])} "
            f"{blit(v['weak'])} {blit(v['auto'])} {blit(v.get('default', True))})")


def s_row(c) -> str:
    o = c["obs"]
    if "err" in o:
        ob = f"(OErr {({'RuntimeError': 1, 'ValueError': 2, 'TypeError': 3}.get(o['err'], 9))})"
    else:
        ob = f"(OOk {var_lit(o['x'])} {var_lit(o['tv'])})"
    return f"(mkS {blit(c['var_path'])} {S_KIND_COQ[c['kind']]} {var_lit(c['var'])} {ob})"


def a_row(c) -> str:
    o = c["obs"]
    ob = "None" if o is None else f"(Some {lst(var_lit(w) for w in o)})"
    return f"(mkA {lst(var_lit(v) for v in c['vars'])} {ob})"


R_PER_SHARD = 8


def goals_of(case):
    return c_goals(case) if case["type"] == "C" else r_goals(case)


def emit(ctx, cases):
    shards = []
    ridx = [i for i, c in enumerate(cases) if c["type"] in ("R", "C") and "raised" not in c["obs"]]
    for k in range(0, len(ridx), R_PER_SHARD):
        idxs = ridx[k:k + R_PER_SHARD]
        txt = HEADER_R
        for i in idxs:
            goals = goals_of(cases[i])
            txt += f"\nLemma case_{i} :\n  " + "\n  /\\ ".join(goals) + ".\nProof. c14_close. Qed.\n"
        shards.append((ctx.new_shard(txt), idxs))
    sidx = [i for i, c in enumerate(cases) if c["type"] == "S"]
    for k in range(0, len(sidx), 400):
        idxs = sidx[k:k + 400]
        txt = HEADER_D + f"\nDefinition cases : list scase := {lst(s_row(cases[i]) for i in idxs)}.\n" \
            "Lemma shard_ok : forallb agrees_s cases = true.\nProof. vm_compute. reflexivity. Qed.\n"
        shards.append((ctx.new_shard(txt), idxs))
    hidx = [i for i, c in enumerate(cases) if c["type"] == "H"]
    for k in range(0, len(hidx), 400):
        idxs = hidx[k:k + 400]
        txt = HEADER_D + f"\nDefinition cases : list hcase := {lst(h_row(cases[i]) for i in idxs)}.\n" \
            "Lemma shard_ok : forallb agrees_h cases = true.\nProof. vm_compute. reflexivity. Qed.\n"
        shards.append((ctx.new_shard(txt), idxs))
    kidx = [i for i, c in enumerate(cases) if c["type"] == "K"]
    for k in range(0, len(kidx), 400):
        idxs = kidx[k:k + 400]
        txt = HEADER_D + f"\nDefinition cases : list ccase := {lst(k_row(cases[i]) for i in idxs)}.\n" \
            "Lemma shard_ok : forallb agrees_c cases = true.\nProof. vm_compute. reflexivity. Qed.\n"
        shards.append((ctx.new_shard(txt), idxs))
    aidx = [i for i, c in enumerate(cases) if c["type"] == "A"]
    for k in range(0, len(aidx), 400):
        idxs = aidx[k:k + 400]
        txt = HEADER_D + f"\nDefinition cases : list acase := {lst(a_row(cases[i]) for i in idxs)}.\n" \
            "Lemma shard_ok : forallb agrees_a cases = true.\nProof. vm_compute. reflexivity. Qed.\n"
        shards.append((ctx.new_shard(txt), idxs))
    return shards


def diagnose(ctx, path, idxs, cases):
    txt = open(path).read()
    if "Lemma shard_ok" in txt:
        fn = next(n for n in ("agrees_s", "agrees_c", "agrees_h", "agrees_a") if n in txt)
        txt = txt.split("Lemma shard_ok")[0] + f"Eval vm_compute in (failing {fn} cases).\n"
        ok, out = ctx.coq_eval(txt)
        return [idxs[j] for j in common.parse_nat_list(out) if j < len(idxs)]
    # cases of this shard that already fail the direct oracle explain the failure: no Coq re-run needed
    obad = [i for i in idxs if oracle(cases[i])]
    if obad:
        return obad
    out_txt = HEADER_R
    for i in idxs:
        goals = goals_of(cases[i])
        for j, gl in enumerate(goals):
            out_txt += (f"\nGoal {gl}.\nProof. tryif (solve [c14_close]) then idtac else idtac \"C14BAD {i} {j}\". Abort.\n")
    ok, out = ctx.coq_eval(out_txt)
    bad = {}
    import re
    for m in re.finditer(r"C14BAD (\d+) (\d+)", out):
        bad.setdefault(int(m.group(1)), []).append(int(m.group(2)))
    for i, js in bad.items():
        cases[i]["bad_goals"] = js
    return sorted(bad)


def klass(c):
    return None


def search(ctx, disagreeing):
    """widened search: judge the disagreeing cases with a tighter oracle, then fresh random cases"""
    out = []
    for c in disagreeing:
        r = oracle(c)
        if r:
            out.append({"why": r, **jsonable(c)})
    if out:
        return out
    rnd = random.Random(ctx.seed + 1)
    for _ in range(150):
        fam = rnd.choice(list(FAMS))
        bn = rnd.choice(compatible_bijs(fam))
        kind = rnd.choice(["inst", "default"] + (["cls"] if BIJS[bn][1] else []))
        path = rnd.choice(["var", "dep"] + (["auto"] if kind == "default" else []))
        c = gen_r_case(rnd, fam, bn, kind, path, 3, big=True)
        c["obs"] = run_r_case(c)
        r = oracle(c)
        if r:
            out.append({"why": r, **jsonable(c)})
            break
    for _ in range(0 if out else 100):
        c = gen_c_case(rnd, rnd.choice(list(FAMS)), rnd.choice([2, 3]), 3)
        c["obs"] = run_c_case(c)
        r = oracle(c)
        if r:
            out.append({"why": r, **jsonable(c)})
            break
    return out


def unjson(c):
    """Fractions come back from JSON as strings"""
    return c


def replay(rp) -> int:
    c = rp["replay"].get("case")
    if not c or "type" not in c:
        print("replay file names no concrete input (broken lemma only):", rp["replay"].get("broken"))
        return 0
    jx()
    c = dict(c)
    c.pop("obs", None)
    c.pop("why", None)
    if c["type"] == "R":
        c["obs"] = run_r_case(c)
    elif c["type"] == "C":
        c["obs"] = run_c_case(c)
    elif c["type"] == "K":
        c["kinds"] = [tuple(k) for k in c["kinds"]]
        c["obs"] = run_k_case(c)
    elif c["type"] == "H":
        c["obs"] = run_h_case(c)
    elif c["type"] == "S":
        c["obs"] = run_s_case(c)
    else:
        c["obs"] = run_a_case(c)
    r = oracle(c)
    print(jsonable({k: v for k, v in c.items() if k != "obs"}))
    if r:
        print("REPLAY FAILS:", r)
        return 1
    print("replay passes on the current tree")
    return 0
