"""C05 source tie: Gallina definitions translated on this run from the current Python source of mh_step and of the
_standard_transition bodies of RWKernel / MHKernel / IWLSKernel (tools/py2gallina_c05.py) + Qed-closed lemmas that they
are extensionally equal to the hand-written model (Goose/MH.v mh_decide / mh_select, Goose/MHKernel.v kernel_transition)
+ the C05 theorems re-stated for the translated functions.  Never raises an alarm by itself: the caller (c05.run) records
the outcome in the evidence (coverage.source_tie) and keeps the behavioural correspondence for the verdict.
"""
from __future__ import annotations

import importlib.util
import os
import re

from . import common

TOOL = os.path.join(common.VERIF, "tools", "py2gallina_c05.py")

HEADER = """(* GENERATED on this run by tools/py2gallina_c05.py from the Python source under {root} - do not edit *)
From Coq Require Import QArith Bool.
From LV Require Import Base.Xnum Goose.MH Goose.MHProofs Goose.MHKernel Goose.MHKernelProofs Goose.GenC05Tie.
Open Scope Q_scope.
"""

ORDER = ["mh_step", "rw", "mhk", "iwls"]
DEPS = {"mh_step": [], "rw": ["mh_step"], "mhk": ["mh_step"], "iwls": ["mh_step"]}
# kernel sections use the equality lemma of mh_step, not only its definition
NEEDS_LEMMA = {"rw": ["mh_step"], "mhk": ["mh_step"], "iwls": ["mh_step"]}


def mh_proofs(info):
    """lemmas for mh_step; the generated function takes its parameters in the order of the Python signature, the
    statements name them by role (one parameter each of type key / model / position / state / float)"""
    role = {"K": "key", "M": "m", "P": "p", "S": "st", "X": "corr"}
    args = " ".join(role[t] for _, t in info["params"])
    G = f"gen_mh_step exp_o uniform_o {args}"
    Q = "forall (K S P : Type) (exp_o : xnum -> xnum) (uniform_o : K -> xnum) (key : K) (m : gmodel S P) (p : P) (st : S) (corr : xnum)"
    # the transfer theorems take the function in the model's argument order
    perm = f"(fun key m p st corr => {G})"
    txt = f"""
Lemma gen_mh_step_is_model : {Q},
  {G} = mh_step_model exp_o uniform_o key m p st corr.
Proof. intros. unfold gen_mh_step. tie_c05_crush. Qed.
"""
    if info.get("default"):
        txt += f"""
Lemma gen_mh_step_default_is_zero : gen_mh_step_default_{info['default'][0]} = XFin 0.
Proof. reflexivity. Qed.
"""
    H = f"(fun key m p st corr => gen_mh_step_is_model K S P exp_o uniform_o key m p st corr)"
    txt += f"""
(* the mh_step level theorems of Properties/C05.v for the function translated from the source *)
Theorem gen_accept_iff : {Q} qu qp,
  uniform_o key = XFin qu -> prob (fst ({G})) = XFin qp ->
  (accept (fst ({G})) = true <-> qu < qp).
Proof. intros K S P exp_o uniform_o key m p st corr. exact (tie_accept_iff exp_o uniform_o {perm} {H} key m p st corr). Qed.

Theorem gen_prob_range : {Q}, exp_ok exp_o ->
  exists q, prob (fst ({G})) = XFin q /\\ 0 <= q /\\ q <= 1.
Proof. intros K S P exp_o uniform_o key m p st corr. exact (tie_prob_range exp_o uniform_o {perm} {H} key m p st corr). Qed.

Theorem gen_zero_never : {Q},
  unit_interval (uniform_o key) -> prob (fst ({G})) = XFin 0 ->
  accept (fst ({G})) = false /\\ snd ({G}) = st.
Proof. intros K S P exp_o uniform_o key m p st corr. exact (tie_zero_never exp_o uniform_o {perm} {H} key m p st corr). Qed.

Theorem gen_zero_density_never : {Q} qc qk, exp_ok exp_o ->
  unit_interval (uniform_o key) ->
  m_log_prob m st = XFin qc -> corr = XFin qk -> m_log_prob m (m_update_state m p st) = XNegInf ->
  accept (fst ({G})) = false /\\ snd ({G}) = st.
Proof. intros K S P exp_o uniform_o key m p st corr. exact (tie_zero_density_never exp_o uniform_o {perm} {H} key m p st corr). Qed.

Theorem gen_one_always : {Q},
  unit_interval (uniform_o key) -> prob (fst ({G})) = XFin 1 ->
  accept (fst ({G})) = true /\\ snd ({G}) = m_update_state m p st.
Proof. intros K S P exp_o uniform_o key m p st corr. exact (tie_one_always exp_o uniform_o {perm} {H} key m p st corr). Qed.

Theorem gen_nan_is_rejection : {Q}, exp_ok exp_o ->
  unit_interval (uniform_o key) ->
  xisnan (xadd (xsub (m_log_prob m (m_update_state m p st)) (m_log_prob m st)) corr) = true ->
  code (fst ({G})) = 90%nat /\\ prob (fst ({G})) = XFin 0
  /\\ accept (fst ({G})) = false /\\ snd ({G}) = st.
Proof. intros K S P exp_o uniform_o key m p st corr. exact (tie_nan_is_rejection exp_o uniform_o {perm} {H} key m p st corr). Qed.

Theorem gen_error_code : {Q},
  code (fst ({G})) =
  if xisnan (xadd (xsub (m_log_prob m (m_update_state m p st)) (m_log_prob m st)) corr) then 90%nat else 0%nat.
Proof. intros K S P exp_o uniform_o key m p st corr. exact (tie_error_code exp_o uniform_o {perm} {H} key m p st corr). Qed.

Theorem gen_state_select : {Q},
  (accept (fst ({G})) = false -> snd ({G}) = st)
  /\\ (accept (fst ({G})) = true -> snd ({G}) = m_update_state m p st).
Proof. intros K S P exp_o uniform_o key m p st corr. exact (tie_state_select exp_o uniform_o {perm} {H} key m p st corr). Qed.
Print Assumptions gen_accept_iff.
Print Assumptions gen_nan_is_rejection.
"""
    return txt


KQ = ("forall (K S P U KS MHP E : Type) (exp_o : xnum -> xnum) (uniform_o : K -> xnum) (o : koracles K S P U KS MHP)\n"
      "    (m : gmodel S P) (key : K) (ks : KS) (st : S) (ep : E)")

# per kernel: existentially bound names, the proposal term, the (user, fwd, bwd) ingredients, the model's kernel kind.
# The ingredients the kernel's own correction is made of are pinned to the oracle that produced them: the MH correction IS
# the log_correction of the MHProposal whose position is proposed, the IWLS correction IS mvn_log_prob(..) - mvn_log_prob(..)
KSHAPE = {
    "rw": ("proposal subkey", 2, "", "proposal", "(XFin 0) (XFin 0) (XFin 0)", "KRW"),
    "mhk": ("prop_obj subkey", 2, "", "(o_mhp_position o prop_obj)", "(o_mhp_log_correction o prop_obj) (XFin 0) (XFin 0)", "KMH"),
    # IWLS: the forward density is mvn_log_prob evaluated AT the flat proposal (the position proposed is its unravelling), the
    # backward density is mvn_log_prob evaluated AT the flat current position; their other arguments are not looked into (C06)
    "iwls": ("flat_prop subkey f2 f3 b2 b3", 6,
             "let rv := o_ravel o (o_position o st) in\n    let proposal := snd rv flat_prop in\n    ", "proposal",
             "(XFin 0) (o_mvn_log_prob o flat_prop f2 f3) (o_mvn_log_prob o (fst rv) b2 b3)", "KIWLS"),
}


def kernel_proofs(sec, info):
    ex, n, pre, prop, ingr, kind = KSHAPE[sec]
    role = {"K": "key", "KS": "ks", "S": "st", "E": "ep"}
    args = " ".join(role[t] for _, t in info["params"])
    G = f"gen_{sec}_standard_transition exp_o uniform_o o m {args}"
    g = f"(kingr_of uniform_o m st {prop} {ingr} subkey)"
    return f"""
(* {info['function']}: its outcome is the model's transition of kind {kind} on the ingredients
   current = model.log_prob(state), proposed = model.log_prob(update_state(proposal, state)), the kernel's own correction
   (unsanitised) and the uniform draw of the key handed to mh_step; kernel state returned as given *)
Lemma gen_{sec}_is_model : {KQ},
  exists {ex},
    {pre}{G} =
    kernel_transition exp_o Forward Lt {kind} {g}
      ks (m_update_state m {prop} st) st.
Proof. intros. do {n} eexists. unfold gen_{sec}_standard_transition. tie_c05_kernel gen_mh_step_is_model. Qed.

(* the kernel level theorems of Properties/C05.v (kernel_facts, Goose/GenC05Tie.v) for the function translated from the source *)
Theorem gen_{sec}_kernel_facts : {KQ},
  exp_ok exp_o -> (forall k, unit_interval (uniform_o k)) ->
  exists {ex},
    {pre}kernel_facts exp_o ({G}) {kind} {g}
      ks (m_update_state m {prop} st) st.
Proof.
  intros K S P U KS MHP E exp_o uniform_o o m key ks st ep He Hu.
  destruct (gen_{sec}_is_model K S P U KS MHP E exp_o uniform_o o m key ks st ep) as ({' & '.join('x%d' % i for i in range(n))} & Heq).
  {' '.join('exists x%d.' % i for i in range(n))} cbv zeta in Heq |- *.
  apply tie_kernel_facts; [exact Heq | exact He | apply Hu].
Qed.
Print Assumptions gen_{sec}_kernel_facts.
"""


def load_tool():
    spec = importlib.util.spec_from_file_location("py2gallina_c05", TOOL)
    mod = importlib.util.module_from_spec(spec)
    spec.loader.exec_module(mod)
    return mod


def lemma_names(txt):
    return re.findall(r"^(?:Lemma|Theorem|Corollary)\s+([A-Za-z0-9_']+)", txt, re.M)


def sections(root):
    tool = load_tool()
    res = tool.translate(root, tuple(ORDER))
    ok, bad = {}, {}
    for sec in ORDER:
        d = res.get(sec, {"error": "not translated"})
        if "error" in d:
            bad[sec] = "translator failed closed: " + d["error"]
            continue
        info = d["info"][0]
        proofs = mh_proofs(info) if sec == "mh_step" else kernel_proofs(sec, info)
        ok[sec] = {"defs": d["text"], "proofs": proofs, "info": d["info"]}
    for sec in ORDER:
        if sec in ok:
            missing = [x for x in DEPS[sec] if x not in ok]
            if missing:
                bad[sec] = f"needs the translation of {missing}, which failed"
                del ok[sec]
    return ok, bad


def assemble(root, ok, use):
    """file text: definitions of every translated section, proofs of the sections in `use`"""
    parts = [HEADER.format(root=root)]
    marks = []
    for sec in ORDER:
        if sec not in ok:
            continue
        for i in ok[sec]["info"]:
            parts.append(f"(* {i['file']} : {i['function']}, lines {i['lines'][0]}-{i['lines'][1]}, sha256 {i['sha256']} *)")
        parts.append(ok[sec]["defs"])
        if sec in use:
            start = sum(p.count("\n") + 1 for p in parts) + 1
            parts.append(ok[sec]["proofs"])
            end = sum(p.count("\n") + 1 for p in parts)
            marks.append((start, end, sec))
    return "\n".join(parts) + "\n", marks


def run(ctx, root):
    """returns the coverage.source_tie record"""
    rec = {"translated": [], "lemmas_ok": False, "lemmas": [], "not_tied": {}, "detail": "",
           "translator": "tools/py2gallina_c05.py", "generated_file": "gen_c05.v (work directory, deleted after the run)"}
    if not os.path.exists(os.path.join(common.COQ, "Goose", "GenC05Tie.vo")):
        rec["detail"] = "not attempted: coq/Goose/GenC05Tie.vo is not built"
        rec["not_tied"]["all"] = rec["detail"]
        return rec
    try:
        ok, bad = sections(root)
    except Exception as ex:       # the tie is optional evidence; never let it abort the check
        rec["detail"] = f"SOURCE TIE BROKEN: translator aborted: {type(ex).__name__}: {ex}"
        rec["not_tied"]["all"] = rec["detail"]
        return rec
    rec["not_tied"].update(bad)
    use = [s for s in ORDER if s in ok]
    total = 0.0
    for _ in range(len(ORDER) + 1):
        if not use:
            break
        txt, marks = assemble(root, ok, use)
        path = ctx.new_shard(txt, "gen_c05")
        rc, out, dt = common.sh(["coqc", "-Q", common.COQ, "LV", "-Q", ctx.work, "Cases", path], timeout=300, cwd=ctx.work)
        total += dt
        rec["coqc_s"] = round(total, 1)
        if rc == 0:
            n_pa = len(re.findall(r"^Print Assumptions", txt, re.M))
            n_closed = out.count("Closed under the global context")
            rec["print_assumptions"] = ("closed under the global context (no axioms)" if n_pa == n_closed else
                                        " ".join(out.split())[-400:])
            break
        m = re.search(r"line (\d+)", out)
        ln = int(m.group(1)) if m else -1
        culprit = next((s for a, b, s in marks if a <= ln <= b), None)
        flat = " ".join(out.strip().split())
        at = flat.find("Unable to unify") if "Unable to unify" in flat else flat.find("Error:")
        msg = flat[at:][:300] if at >= 0 else flat[-300:]
        if culprit is None:
            # a definition does not type-check (or the line is unknown): the section whose definition text holds the line
            # goes, with everything that depends on it
            pos, culprit = 0, None
            for sec in ORDER:
                if sec in ok:
                    blk = ok[sec]["defs"]
                    at = txt.find(blk)
                    a = txt[:at].count("\n") + 1
                    if a <= ln <= a + blk.count("\n"):
                        culprit = sec
            if culprit is None:
                culprit = use[-1]
            for s in list(ok):
                if s == culprit or culprit in DEPS[s]:
                    ok.pop(s, None)
                    rec["not_tied"].setdefault(s, f"the definitions translated for {culprit} do not type-check: {msg}")
            use = [s for s in use if s in ok]
            continue
        upto = "\n".join(txt.split("\n")[:max(ln, 0)])
        names = lemma_names(upto)
        rec["not_tied"][culprit] = (f"lemma {names[-1] if names else '?'} does not check for the function as translated "
                                    f"from the current source: {msg}")
        use = [s for s in use if s != culprit]
        for s in list(use):
            if culprit in NEEDS_LEMMA.get(s, []):
                rec["not_tied"].setdefault(s, f"needs the equality lemma of {culprit}, which does not check")
                use.remove(s)
    else:
        use = []
    for sec in use:
        rec["translated"].extend(ok[sec]["info"])
        rec["lemmas"].extend(lemma_names(ok[sec]["proofs"]))
    rec["lemmas_ok"] = bool(use) and not rec["not_tied"]
    n = len(rec["lemmas"])
    ctx.obligations += n
    ctx.discharged += n
    if rec["lemmas_ok"]:
        rec["detail"] = ("the C05 theorems were re-established on this run for mh_step and the three _standard_transition bodies as "
                         "translated from the current source (files, line ranges and sha256 of the translated text under "
                         "'translated'): every gen_*_is_model lemma and every gen_* corollary is Qed-closed")
    else:
        rec["detail"] = ("SOURCE TIE BROKEN for " + ", ".join(sorted(rec["not_tied"])) + " - the verdict of this run rests on "
                         "the behavioural correspondence and the oracle for these functions" +
                         ("; still tied: " + ", ".join(use) if use else ""))
        common.log("source tie: " + rec["detail"])
        for k, v in sorted(rec["not_tied"].items()):
            common.log(f"  {k}: {v}")
    return rec
