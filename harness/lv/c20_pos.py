"""C20 helper - parts D and E.

D. optim_flat end-to-end with SEVERAL named parameters handed over in non-alphabetical order (2 and 3
   parameters, equal and different shapes, a different scripted value for every parameter, element and
   iteration), restore_best_position on/off, with/without validation model, save_position_history
   on/off, prune on/off.  Coq evaluates StopperPos.optim_flat_full on the same names (in the caller's
   order), the scripted position stream and the observed losses, and compares the returned position and
   the position history NAME BY NAME (agrees_p).  The direct oracle reads the property literally:
   result.position[name] == result.history['position'][name][iteration_best].
E. _generate_batch_indices against StopperPos.batch_indices: the observed batches are the model's rows of a
   permutation of 0..n-1 (witness: observed indices followed by the unused ones, checked in Coq).
"""
from __future__ import annotations

import logging
import math
from fractions import Fraction

from .common import lst, blit, natlit, qlit, zlit, strlit

NAME_POOLS2 = [["slope", "intercept"], ["w", "b"], ["b0", "b"], ["theta", "Zeta"], ["x_2", "x_10"]]
NAME_POOLS3 = [["w", "b", "m"], ["slope", "intercept", "scale"], ["c", "a", "b"], ["b", "c", "a"],
               ["beta", "alpha", "Gamma"], ["p1", "p", "p0"]]
SHAPES_EQ = [(), (2,), (1,), (2, 2)]
SHAPES_DIFF2 = [[(), (2,)], [(2,), ()], [(3,), (2,)], [(2, 2), (2,)], [(1,), ()]]
SHAPES_DIFF3 = [[(2,), (), (3,)], [(), (2,), ()], [(2, 2), (2,), ()], [(3,), (3,), ()]]


def _size(shape):
    n = 1
    for d in shape:
        n *= d
    return n


def make_cfg(rnd, names, shapes, mi, p, at, rt, prune, validation, restore, save, mode):
    """scripted positions: a base trajectory (descending, then plateau / rebound / zigzag) plus a different
    offset for every parameter element; everything is a multiple of 1/4, exact in float32"""
    base, cur = [], Fraction(rnd.randint(10, 24), 4)
    turn = rnd.randint(2, 4)
    for k in range(mi + 2):
        if mode == "descend" or k < turn:
            cur = cur - Fraction(rnd.randint(1, 4), 4)
        elif mode == "rebound":
            cur = cur + Fraction(rnd.randint(1, 2), 4)
        elif mode == "zigzag":
            cur = cur + Fraction(rnd.choice([-1, 1, 0]), 2)
        base.append(cur)
    offs, used = {}, set()
    for nm, sh in zip(names, shapes):
        o = []
        for _ in range(_size(sh)):
            v = rnd.choice([x for x in range(-12, 13) if x not in used])
            used.add(v)
            o.append(Fraction(v, 4))
        offs[nm] = o
    tot = sum(_size(sh) for sh in shapes)
    mean_off = sum(sum(o) for o in offs.values()) / tot
    # centre the offsets so that the mean of all elements follows the base trajectory up to a constant
    script = {nm: [[str(b + x) for x in offs[nm]] for b in base] for nm in names}
    init = {nm: [str(Fraction(rnd.randint(20, 28), 4) + x) for x in offs[nm]] for nm in names}
    return {"part": "D", "max_iter": mi, "patience": p, "atol": str(at), "rtol": str(rt), "prune": prune,
            "validation": validation, "restore": restore, "save": save, "mode": mode,
            "params": list(names), "shapes": {nm: list(sh) for nm, sh in zip(names, shapes)},
            "init": init, "script": script, "mean_offset": str(mean_off)}


def _build(cfg, y):
    import jax.numpy as jnp
    import liesel.model as lsl
    import tensorflow_probability.substrates.jax.distributions as tfd
    names = sorted(cfg["params"], key=lambda s: s[::-1])        # creation order: neither caller's nor sorted
    ps = []
    for nm in names:
        arr = jnp.asarray([float(Fraction(x)) for x in cfg["init"][nm]], dtype=jnp.float32).reshape(tuple(cfg["shapes"][nm]))
        ps.append(lsl.param(arr, name=nm))
    tot = sum(_size(cfg["shapes"][nm]) for nm in names)

    def mean_all(*a):
        return sum(jnp.sum(x) for x in a) / tot

    mu = lsl.Var(lsl.Calc(mean_all, *ps), name="mu")
    yv = lsl.obs(jnp.asarray(y, dtype=jnp.float32), lsl.Dist(tfd.Normal, loc=mu, scale=jnp.float32(1.0)), name="y")
    return lsl.GraphBuilder().add(yv).build_model()


def _scripted_optimizer(script):
    import jax.numpy as jnp, optax

    def init(params):
        return jnp.int32(0)

    def update(grads, state, params=None):
        return {k: script[k][state] - v for k, v in params.items()}, state + 1

    return optax.GradientTransformation(init, update)


def _flat(a):
    import numpy as np
    return [float(x) for x in np.asarray(a, dtype=np.float64).reshape(-1)]


def _fr(vals):
    return [Fraction(v) for v in vals]


def _data(cfg):
    """training optimum (16) far above the scripted trajectories, validation optimum 0: along a descending trajectory the
    training loss rises while the validation loss falls, so the two argmins differ.  equal_val: a validation model with
    exactly as many observations as the training model (a 50/50 split), still with different data."""
    ytr = [16.0, 16.5, 15.5, 16.0]
    yva = [0.25, -0.25, 0.5, -0.5] if cfg.get("equal_val") else [0.25, -0.25, 0.0]
    return ytr, yva


def indep_losses(cfg, upto):
    """independent evaluation (fresh models, direct assignment, public Model.log_lik / log_prior / log_prob) of the
    documented losses at the scripted positions 0..upto: training loss = -log_prob of the training model; validation loss =
    -(n_train / n_validation * log_lik + log_prior) of the validation model (of the training model when there is none)"""
    import jax.numpy as jnp
    ytr, yva = _data(cfg)
    mt = _build(cfg, ytr)
    mv = _build(cfg, yva) if cfg["validation"] else None
    scale = len(ytr) / len(yva) if cfg["validation"] else 1.0
    lt, lv = [], []
    for k in range(upto + 1):
        for m in (mt, mv):
            if m is None:
                continue
            for nm in cfg["params"]:
                m.vars[nm].value = jnp.asarray([float(x) for x in stream(cfg, nm, k)], dtype=jnp.float32).reshape(tuple(cfg["shapes"][nm]))
            m.update()
        lt.append(-float(mt.log_prob))
        mm = mv if mv is not None else mt
        lv.append(-(scale * float(mm.log_lik) + float(mm.log_prior)))
    return lt, lv


def run_d(cfg):
    """one optim_flat run; returns cfg + observations (everything JSON-able except Fractions)"""
    import jax.numpy as jnp, numpy as np
    from liesel.goose.optim import Stopper, optim_flat
    from liesel.goose import LieselInterface
    logging.getLogger("liesel").setLevel(logging.ERROR)
    # training optimum (16) far above the scripted trajectories, validation optimum 0: along a descending
    # trajectory the training loss rises while the validation loss falls, so the two argmins differ
    ytr, yva = _data(cfg)
    mtr, mva = _build(cfg, ytr), _build(cfg, yva)
    if cfg.get("stopper_assigned"):
        # a Stopper constructed with other values, the attributes assigned on the instance before use: optim_flat must
        # follow the CURRENT values (cfg max_iter / patience / atol / rtol are the current ones)
        st = Stopper(**{k: (int(Fraction(v)) if k in ("max_iter", "patience") else float(Fraction(v))) for k, v in cfg["stopper_constructed"].items()})
        for name, v in cfg["stopper_assigned"]:
            setattr(st, name, int(Fraction(v)) if name in ("max_iter", "patience") else float(Fraction(v)))
        assert (st.max_iter, st.patience, Fraction(st.atol), Fraction(st.rtol)) == (cfg["max_iter"], cfg["patience"], Fraction(cfg["atol"]), Fraction(cfg["rtol"]))
    else:
        st = Stopper(max_iter=cfg["max_iter"], patience=cfg["patience"], atol=float(Fraction(cfg["atol"])), rtol=float(Fraction(cfg["rtol"])))
    script = {nm: jnp.asarray([[float(Fraction(x)) for x in row] for row in rows], dtype=jnp.float32).reshape((len(rows),) + tuple(cfg["shapes"][nm]))
              for nm, rows in cfg["script"].items()}
    obs = dict(cfg)
    try:
        res = optim_flat(mtr, list(cfg["params"]), optimizer=_scripted_optimizer(script), stopper=st,
                         model_validation=mva if cfg["validation"] else None,
                         restore_best_position=cfg["restore"], save_position_history=cfg["save"],
                         prune_history=cfg["prune"], progress_bar=False)
    except (AssertionError, ValueError) as e:                # rejected input (small enum: 1 = rejected)
        obs.update({"err": 1, "err_text": f"{type(e).__name__}: {e}"[:200]})
        return obs
    except Exception as e:                                   # noqa: BLE001 - canonicalised into the observation
        obs.update({"err": 2, "err_text": f"{type(e).__name__}: {e}"[:300]})
        return obs
    lv = np.asarray(res.history["loss_validation"], dtype=np.float64)
    lt = np.asarray(res.history["loss_train"], dtype=np.float64)
    obs["err"] = 0
    obs["iteration"], obs["ibest"] = int(res.iteration), int(res.iteration_best)
    obs["loss_val"] = [None if math.isnan(v) else Fraction(v) for v in lv]
    obs["loss_train_nan"] = [bool(math.isnan(v)) for v in lt]
    obs["loss_train"] = [None if math.isnan(v) else float(v) for v in lt]
    try:
        obs["indep_train"], obs["indep_val"] = indep_losses(cfg, min(obs["iteration"], len(next(iter(cfg["script"].values())))))
    except Exception as e:                                   # noqa: BLE001
        obs["indep_err"] = f"{type(e).__name__}: {e}"[:200]
    obs["position"] = {nm: _fr(_flat(v)) for nm, v in res.position.items()}
    obs["position_shapes"] = {nm: list(np.shape(v)) for nm, v in res.position.items()}
    ph = res.history.get("position", None)
    if ph is None:
        obs["pos_hist"] = None
    else:
        d = {}
        for nm, col in ph.items():
            col = np.asarray(col, dtype=np.float64)
            rows = []
            for r in col:
                fl = [float(x) for x in r.reshape(-1)]
                if all(math.isnan(x) for x in fl):
                    rows.append(None)
                elif any(math.isnan(x) for x in fl):
                    rows.append("partial-nan")
                else:
                    rows.append(_fr(fl))
            d[nm] = rows
        obs["pos_hist"] = d
        obs["pos_hist_shapes"] = {nm: list(np.shape(col)[1:]) for nm, col in ph.items()}
    # returned model state against the returned position (public interface) and direct assignment
    try:
        inst = LieselInterface(mtr).extract_position(list(cfg["params"]), res.model_state)
        obs["state_pos"] = {nm: _fr(_flat(v)) for nm, v in inst.items()}
        m2 = _build(cfg, ytr)
        for nm, v in res.position.items():
            m2.vars[nm].value = jnp.asarray(v)
        m2.update()
        obs["lp_direct"] = float(m2.log_prob)
        obs["lp_state"] = float(res.model_state["_model_log_prob"].value)
    except Exception as e:                                   # noqa: BLE001
        obs["state_err"] = f"{type(e).__name__}: {e}"[:200]
    obs["stopper_patience_after"] = int(st.patience)
    return obs


def stream(c, nm, k):
    """scripted position of parameter nm after k iterations (k = 0: initial value)"""
    return _fr([Fraction(x) for x in (c["init"][nm] if k == 0 else c["script"][nm][k - 1])])


def strata(ctx, rnd):
    """forced strata first (fixed layout, random numbers), then random fill"""
    F = Fraction
    cfgs = []

    def add(names, shapes, mi, p, prune, validation, restore, save, mode, at=F(0), rt=F(0), equal_val=False):
        cfgs.append(make_cfg(rnd, names, shapes, mi, p, at, rt, prune, validation, restore, save, mode))
        cfgs[-1]["equal_val"] = bool(equal_val and validation)

    # equal_val: validation model with as many observations as the training model (n_train / n_validation == 1), other data
    add(["slope", "intercept"], [(), ()], 8, 2, False, True, True, True, "rebound", equal_val=True)          # the classic
    add(["w", "b", "m"], [(2,), (), (3,)], 8, 3, True, True, True, True, "rebound", equal_val=True)
    add(["theta", "Zeta"], [(2,), (2,)], 6, 2, True, False, True, True, "zigzag")
    add(["c", "a", "b"], [(), (), ()], 8, 2, False, False, True, True, "rebound")
    add(["b0", "b"], [(), (2,)], 8, 2, False, True, False, True, "rebound", equal_val=True)
    add(["p1", "p", "p0"], [(2,), (2,), (2,)], 6, 2, True, True, False, False, "plateau", F(1, 4))
    add(["w", "b"], [(2,), (2,)], 6, 2, False, True, True, False, "descend")                 # AssertionError
    add(["a", "b", "c"], [(), (2,), ()], 6, 6, False, True, True, True, "descend")           # sorted control, p = max_iter
    cfgs.append(cfg_assigned_stopper())
    n_more = 2 if ctx.quick else 40
    for _ in range(n_more):
        k = rnd.choice([2, 3])
        names = list(rnd.choice(NAME_POOLS2 if k == 2 else NAME_POOLS3))
        if rnd.random() < 0.5:
            rnd.shuffle(names)
        if rnd.random() < 0.5:
            shapes = [rnd.choice(SHAPES_EQ)] * k
        else:
            shapes = list(rnd.choice(SHAPES_DIFF2 if k == 2 else SHAPES_DIFF3))
        mi = rnd.choice([6, 8, 10])
        p = rnd.choice([1, 2, 3])
        save = rnd.random() < 0.8
        restore = rnd.random() < 0.7
        if not ctx.quick and restore and not save:           # keep the rejected combination rare
            u = rnd.random()
            if u < 0.45:
                save = True
            elif u < 0.9:
                restore = False
        add(names, shapes, mi, p, rnd.random() < 0.5, rnd.random() < 0.7, restore, save,
            rnd.choice(["plateau", "rebound", "descend", "zigzag"]),
            rnd.choice([F(0), F(1, 4), F(1)]), rnd.choice([F(0), F(0), F(1, 8)]), equal_val=rnd.random() < 0.5)
    return cfgs


def cfg_assigned_stopper():
    """fixed stratum: Stopper(max_iter=30, patience=5) (atol, rtol defaults), then max_iter, patience, atol, rtol ASSIGNED on
    the instance.  mean position 2 - k/4 (steps of 1/4 towards the validation optimum 0 and beyond), patience 2, atol 0,
    rtol 1/8: the improvement never drops to 0 before the optimum is passed (iteration 9), but the RELATIVE improvement
    falls below 1/8 at iteration 7 - the run must stop there, by the relative clause alone."""
    F = Fraction
    names, offs = ["slope", "intercept"], {"slope": F(1, 4), "intercept": F(-1, 4)}
    mi = 14
    base = [F(2) - F(k, 4) for k in range(1, mi + 3)]
    return {"part": "D", "max_iter": mi, "patience": 2, "atol": "0", "rtol": "1/8", "prune": False, "validation": True,
            "restore": True, "save": True, "mode": "assigned-stopper", "params": names, "shapes": {n: [] for n in names},
            "init": {n: [str(F(2) + offs[n])] for n in names}, "script": {n: [[str(b + offs[n])] for b in base] for n in names},
            "mean_offset": "0", "equal_val": False,
            "stopper_constructed": {"max_iter": "30", "patience": "5"},
            "stopper_assigned": [["rtol", "1/8"], ["atol", "0"], ["patience", "2"], ["max_iter", str(mi)]]}


def part_d(ctx, rnd):
    cases = [run_d(cfg) for cfg in strata(ctx, rnd)]
    ok = [c for c in cases if c["err"] == 0]
    ctx.count(len(cases), len({(tuple(c["params"]), str(c["script"])) for c in cases}))
    ctx.hist("D.optim_flat_runs_named_params", len(cases))
    ctx.hist("D.params_not_alphabetical", sum(1 for c in cases if c["params"] != sorted(c["params"])))
    ctx.hist("D.two_params", sum(1 for c in cases if len(c["params"]) == 2))
    ctx.hist("D.three_params", sum(1 for c in cases if len(c["params"]) == 3))
    ctx.hist("D.different_shapes", sum(1 for c in cases if len({tuple(s) for s in c["shapes"].values()}) > 1))
    ctx.hist("D.restore_best_position", sum(1 for c in cases if c["restore"]))
    ctx.hist("D.restore_false", sum(1 for c in cases if not c["restore"]))
    ctx.hist("D.no_validation_model", sum(1 for c in cases if not c["validation"]))
    ctx.hist("D.save_position_history_false", sum(1 for c in cases if not c["save"]))
    ctx.hist("D.assertion_restore_without_history", sum(1 for c in cases if c["err"] == 1))
    ctx.hist("D.validation_model_of_equal_size_other_data", sum(1 for c in cases if c.get("equal_val")))
    ctx.hist("D.stopper_attributes_assigned_after_construction", sum(1 for c in cases if c.get("stopper_assigned")))
    ctx.hist("D.stopped_by_relative_tolerance_only", sum(1 for c in ok if c.get("stopper_assigned") and c["iteration"] == 7))
    ctx.hist("D.best_before_last_iteration", sum(1 for c in ok if c["ibest"] < c["iteration"]))
    ctx.hist("D.early_stopped", sum(1 for c in ok if c["iteration"] < c["max_iter"] - 1))
    c0 = cases[0]
    ctx.sample({"part": "D", "params": c0["params"], "shapes": c0["shapes"], "restore": c0["restore"],
                "iteration": c0.get("iteration"), "iteration_best": c0.get("ibest"),
                "position": {k: [str(x) for x in v] for k, v in (c0.get("position") or {}).items()}})
    return cases


# ---------------------------------------------------------------------------------------------
def _vlit(v):
    return lst(qlit(x) for x in v)


def _ovlit(v):
    return "None" if v is None else f"(Some {_vlit(v)})"


def _dictlit(items):
    return lst(f"({strlit(k)}%string, {v})" for k, v in items)


def case_term(c):
    from . import c20 as base
    n_steps = len(next(iter(c["script"].values())))
    script = _dictlit((nm, lst(_vlit(stream(c, nm, k)) for k in range(n_steps + 1))) for nm in c["params"])
    if c["err"] != 0:
        obs = "0%nat 0 [] None []"
        losses = "[]"
    else:
        lv = c["loss_val"]
        losses = lst(qlit(x) for x in lv if x is not None)
        pos = _dictlit((nm, _vlit(v)) for nm, v in c["position"].items())
        if c["pos_hist"] is None:
            ph = "None"
        else:
            ph = "(Some " + _dictlit((nm, lst(_ovlit(None if r == "partial-nan" else r) for r in rows)) for nm, rows in c["pos_hist"].items()) + ")"
        obs = f"{natlit(c['iteration'])} {zlit(c['ibest'])} {pos} {ph} {lst('None' if x is None else '(Some ' + qlit(x) + ')' for x in lv)}"
    return ("(mkPC (mkStopper {mi} {p} {at} {rt}) {hv} {rs} {sv} {pr} {params} {losses} {script} {err} {obs})".format(
        mi=natlit(c["max_iter"]), p=natlit(c["patience"]), at=qlit(Fraction(c["atol"])), rt=qlit(Fraction(c["rtol"])),
        hv=blit(c["validation"]), rs=blit(c["restore"]), sv=blit(c["save"]), pr=blit(c["prune"]),
        params=lst(strlit(n) + "%string" for n in c["params"]), losses=losses, script=script,
        err=natlit(c["err"]), obs=obs))


def emittable(c):
    from . import c20 as base
    if c["err"] == 2:
        return False                       # unexpected exception: judged by the oracle only
    if c["err"] == 0 and base.borderline(_as_b(c)):
        return False
    return True


def _as_b(c):
    return {"loss_val": c["loss_val"], "patience": c["patience"], "atol": Fraction(c["atol"]), "rtol": Fraction(c["rtol"]),
            "validation": c["validation"]}


def emit_d(ctx, cases, header):
    rows = []
    for c in cases:
        if not emittable(c):
            ctx.hist("D.not_emitted_borderline_or_exception")
            continue
        rows.append(case_term(c))
    txt = header + f"""
Definition cases : list pcase := {lst(rows)}.
Lemma shard_ok : forallb agrees_p cases = true.
Proof. vm_compute. reflexivity. Qed.
"""
    return ctx.new_shard(txt, "cases_D")


def diagnose_d(ctx, cases, header):
    """which cases / clauses disagree (diagnostic evaluation of diag_p)"""
    rows = [case_term(c) for c in cases if emittable(c)]
    ok, out = ctx.coq_eval(header + f"\nDefinition cases : list pcase := {lst(rows)}.\nEval vm_compute in (map diag_p cases).\n")
    return out.strip()[-400:]


# ---------------------------------------------------------------------------------------------
def oracle_d(c):
    """the property read literally on the observations of one run"""
    from . import c20 as base
    js = _js(c)
    if c["err"] == 2:
        return {"why": "optim_flat raised " + c["err_text"], "case": js}
    if c["restore"] and not c["save"]:
        if c["err"] != 1:
            return {"why": "restore_best_position without a saved position history did not raise the documented assertion", "case": js}
        return None
    if c["err"] == 1:
        return {"why": "optim_flat raised " + c["err_text"], "case": js}
    names = c["params"]
    it, ib, mi, p = c["iteration"], c["ibest"], c["max_iter"], c["patience"]
    lv = c["loss_val"]
    known = [x for x in lv if x is not None]
    if set(c["position"]) != set(names):
        return {"why": f"returned position has the names {sorted(c['position'])}, asked for {sorted(names)}", "case": js}
    ph = c["pos_hist"]
    if (ph is None) != (not c["save"]):
        return {"why": "save_position_history not honoured", "case": js}
    if ph is not None and set(ph) != set(names):
        return {"why": f"position history has the names {sorted(ph)}, asked for {sorted(names)}", "case": js}
    if "indep_err" in c:
        return {"why": "independent evaluation of the losses failed: " + c["indep_err"], "case": js}
    tol = lambda x: 1e-4 * max(1.0, abs(x))                   # float32 jit against eager evaluation
    what = "the validation model" if c["validation"] else "the training model (no validation model given)"
    for k, want in enumerate(c["indep_val"]):
        got = lv[k] if k < len(lv) else None
        if got is None or abs(float(got) - want) > tol(want):
            return {"why": (f"history['loss_validation'][{k}]={None if got is None else float(got):.6g} is not the validation loss: {what} "
                            f"evaluated at the recorded position of iteration {k} gives {want:.6g}"), "case": js}
    for k, want in enumerate(c["indep_train"]):
        got = c["loss_train"][k] if k < len(c["loss_train"]) else None
        if got is None or abs(got - want) > tol(want):
            return {"why": (f"history['loss_train'][{k}]={got} is not the training loss: the training model evaluated at the recorded "
                            f"position of iteration {k} gives {want:.6g}"), "case": js}
    # iteration_best minimises the (independently evaluated) validation loss within the final patience window
    lo = it - p + 1
    if lo >= 0 and len(c["indep_val"]) > it and 0 <= ib <= it:
        wmin = min(c["indep_val"][lo:it + 1])
        if not (lo <= ib and c["indep_val"][ib] <= wmin + 2 * tol(wmin)):
            return {"why": (f"iteration_best={ib} does not minimise the validation loss within the final patience window [{lo}, {it}]: "
                            f"{what} gives {[round(x, 5) for x in c['indep_val'][lo:it + 1]]} there"), "case": js}
    if not base.borderline(_as_b(c)):
        lp = p if c["validation"] else mi
        first = next((i for i in range(len(known)) if base.py_rule(mi, lp, Fraction(c["atol"]), Fraction(c["rtol"]), i, known)), None)
        if first != it:
            return {"why": f"optim_flat stopped at iteration {it}; the documented rule first fires at {first}", "case": js}
        lo = it - p + 1
        if lo >= 0:
            win = known[lo:it + 1]
            if ib != lo + win.index(min(win)):
                return {"why": f"iteration_best={ib} is not the first minimiser of the validation loss in the final patience window", "case": js}
    which = ib if c["restore"] else it
    for nm in names:
        got = c["position"][nm]
        if c["position_shapes"][nm] != c["shapes"][nm]:
            return {"why": f"returned position[{nm!r}] has shape {c['position_shapes'][nm]}, the parameter has shape {c['shapes'][nm]}", "case": js}
        if ph is not None:
            rec = ph[nm][which] if 0 <= which < len(ph[nm]) else None
            if rec != got:
                return {"why": (f"returned position[{nm!r}]={_s(got)} is not the recorded position of {nm!r} at "
                                + (f"iteration_best={ib}" if c["restore"] else f"the last iteration {it}") + f" ({_s(rec)})"), "case": js}
        if stream(c, nm, which) != got:
            return {"why": f"returned position[{nm!r}]={_s(got)} is not the position the optimizer produced for {nm!r} at iteration {which} ({_s(stream(c, nm, which))})", "case": js}
    if ph is not None:
        want_len = it + 1 if c["prune"] else mi
        for nm in names:
            col = ph[nm]
            if len(col) != want_len or any(r is None or r == "partial-nan" for r in col[:it + 1]) or any(r is not None for r in col[it + 1:]) \
                    or c["pos_hist_shapes"][nm] != c["shapes"][nm]:
                return {"why": f"position history of {nm!r}: length / NaN padding / shape differs from the documentation", "case": js}
            for k in range(it + 1):
                if col[k] != stream(c, nm, k):
                    return {"why": f"position history of {nm!r} at iteration {k} is {_s(col[k])}, the optimizer produced {_s(stream(c, nm, k))}", "case": js}
    want_len = it + 1 if c["prune"] else mi
    if len(lv) != want_len or any(x is None for x in lv[:it + 1]) or any(x is not None for x in lv[it + 1:]) \
            or c["loss_train_nan"] != [x is None for x in lv]:
        return {"why": "loss history length / NaN padding differs from the documentation", "case": js}
    if "state_err" in c:
        return {"why": "returned model state cannot be read back: " + c["state_err"], "case": js}
    for nm in names:
        if c["state_pos"].get(nm) != c["position"][nm]:
            return {"why": f"returned model state holds {nm!r}={_s(c['state_pos'].get(nm))}, returned position {_s(c['position'][nm])}", "case": js}
    if abs(c["lp_direct"] - c["lp_state"]) > 1e-4 * max(1, abs(c["lp_direct"])):
        return {"why": "returned model state is not consistent with the returned position (log_prob)", "case": js}
    if c["stopper_patience_after"] != p:
        return {"why": "optim_flat changed the caller's Stopper", "case": js}
    return None


def _s(v):
    return None if v is None else (v if isinstance(v, str) else [str(x) for x in v])


CFG_KEYS = ("part", "max_iter", "patience", "atol", "rtol", "prune", "validation", "restore", "save", "mode", "params",
            "shapes", "init", "script", "mean_offset", "equal_val", "stopper_constructed", "stopper_assigned")


def _js(c):
    """the input (enough to re-run) + the observed outcome in readable form"""
    d = {k: c[k] for k in CFG_KEYS if k in c}
    d["observed"] = {"err": c.get("err"), "err_text": c.get("err_text"), "iteration": c.get("iteration"), "iteration_best": c.get("ibest"),
                     "position": {k: _s(v) for k, v in (c.get("position") or {}).items()}}
    return d


def replay_d(case):
    cfg = {k: case[k] for k in CFG_KEYS if k in case}
    return oracle_d(run_d(cfg))


# ---------------------------------------------------------------------------------------------
def part_e(ctx, rnd, part_c_cases):
    import jax, numpy as np
    import liesel.goose.optim as opt
    cases = []
    grid = [(7, 3), (10, 4), (6, 3), (5, 5), (4, 1), (9, 2), (1, 1), (8, 5), (11, 4), (12, 6)]
    if not ctx.quick:
        grid += [(n, bs) for n in range(2, 14) for bs in range(1, n + 1) if (n + bs) % 3 == 0]
    for (n, bs) in grid:
        seed = rnd.randint(0, 10 ** 6)
        key = jax.random.PRNGKey(seed)
        perm = [int(x) for x in np.asarray(jax.random.permutation(key, n))]
        out = [[int(x) for x in row] for row in np.asarray(opt._generate_batch_indices(key, n, bs))]
        cases.append({"part": "E", "n": n, "bs": bs, "key_seed": seed, "perm": perm, "batches_out": out})
    # the batches that optim_flat really used (logged by part C): same function of the logged key
    for c in part_c_cases:
        for kd, bt in list(zip(c["keys"], c["batches"]))[:2]:
            key = np.asarray(kd, dtype=np.uint32)
            perm = [int(x) for x in np.asarray(jax.random.permutation(jax.numpy.asarray(key), c["n"]))]
            cases.append({"part": "E", "n": c["n"], "bs": c["batch_size"], "key_data": [int(x) for x in kd], "perm": perm, "batches_out": bt})
    ctx.count(len(cases), len({(c["n"], c["bs"], tuple(c["perm"])) for c in cases}))
    ctx.hist("E.batch_index_calls", len(cases))
    ctx.hist("E.batch_size_not_dividing_n", sum(1 for c in cases if c["n"] % c["bs"]))
    return cases


def witness_perm(c):
    """a permutation of 0..n-1 whose leading rows are the observed batches (observed indices, then the unused ones)"""
    flat = [i for r in c["batches_out"] for i in r]
    return flat + [i for i in range(c["n"]) if i not in set(flat)]


def emit_e(ctx, cases, header):
    rows = [f"({lst(natlit(i) for i in witness_perm(c))}, {natlit(c['bs'])}, {lst(lst(natlit(i) for i in r) for r in c['batches_out'])})" for c in cases]
    ctx.hist("E.rows_are_prefix_of_jax_permutation", sum(1 for c in cases if witness_perm(c)[:len(c["perm"]) - c["n"] % c["bs"]] == c["perm"][:len(c["perm"]) - c["n"] % c["bs"]]))
    txt = header + f"""
Definition cases : list (list nat * nat * list (list nat)) := {lst(rows)}.
Lemma shard_ok : forallb agrees_batches cases = true.
Proof. vm_compute. reflexivity. Qed.
"""
    return ctx.new_shard(txt, "cases_E")


def oracle_e(c):
    n, bs, bt = c["n"], c["bs"], c["batches_out"]
    flat = [i for r in bt for i in r]
    if len(bt) != n // bs or any(len(r) != bs for r in bt) or len(set(flat)) != len(flat) or any(not 0 <= i < n for i in flat):
        return {"why": f"_generate_batch_indices(n={n}, batch_size={bs}) does not return n // batch_size disjoint full batches of indices below n",
                "n": n, "bs": bs, "key_seed": c.get("key_seed"), "key_data": c.get("key_data"), "part": "E", "batches_out": bt}
    return None


def replay_e(r):
    import jax, numpy as np
    import liesel.goose.optim as opt
    key = jax.random.PRNGKey(int(r["key_seed"])) if r.get("key_seed") is not None else jax.numpy.asarray(np.asarray(r["key_data"], dtype=np.uint32))
    n, bs = int(r["n"]), int(r["bs"])
    perm = [int(x) for x in np.asarray(jax.random.permutation(key, n))]
    out = [[int(x) for x in row] for row in np.asarray(opt._generate_batch_indices(key, n, bs))]
    return oracle_e({"n": n, "bs": bs, "perm": perm, "batches_out": out, "key_seed": r.get("key_seed"), "key_data": r.get("key_data")})
