"""C02 - model log-probability = joint log-density; log-lik / log-prior selection; decomposition;
per_obs; user-supplied total nodes.

Generated model programs (hierarchies of Normal / Gamma / InverseGamma / Poisson / degenerate-MVN
distributions, weak intermediate variables, transformed variables, free distribution nodes, transient
distribution nodes, both / no role flags, user-supplied log-lik / log-prior / log-prob nodes,
DistRegBuilder models) are built as REAL lsl.Models; after the build and after every assignment of new
values the harness reads, through the public API, every distribution node (kind, flags of its variable,
per_obs, init_dist().log_prob(at.value), node.value) and the three totals in several ways
(Model.log_*, model.state, LieselInterface.log_prob / extract_position / update_state).
 * D shards: Coq evaluates Graph/LogProb.v on the per-node log-densities (exact rationals) and certifies
   |model - implementation| <= tol for every stored node value and every reading of every total.
 * R shards: `interval` certifies that per-node log-densities of scalar Normal / Gamma / InverseGamma
   nodes (also exp-transformed) equal the closed form over R at the node's current inputs.
 * direct oracle: an independent numpy / scipy evaluation of the joint log-density of the program.
"""
from __future__ import annotations

import json
import math
import os
import random
import re
from fractions import Fraction

from . import common
from .common import lst, blit, qlit, rlit
from . import c02_kit as kit

HEADER_D = """From Coq Require Import List QArith Bool.
Import ListNotations.
From LV Require Import Graph.LogProb Graph.CorrC02.
Open Scope Q_scope.
"""
HEADER_R = """From Coq Require Import Reals.
From Interval Require Import Tactic.
From LV Require Import Analytic.Gibbs Analytic.CorrC02.
Open Scope R_scope.
"""

EPS_D = {False: Fraction(1, 10 ** 10), True: Fraction(2, 10 ** 5)}     # x64 / float32 summation tolerance
EPS_O = {False: 1e-7, True: 2e-4}                                         # oracle (scipy vs tfp) tolerance
CORPUS = os.path.join(common.VERIF, "harness", "corpus")

FORCED = ["simfail", "simfail", "reject", "reject", "rebuild", "rebuild", "user", "free", "both", "norole", "transient", "transform", "auto", "auto", "npdist", "npdist", "inplace", "inplace",
          "mvnd", "weakdist", "nodist", "matrix", "distreg", "distreg"]


# ---------------------------------------------------------------------------------------------
# generation: run the real code
# ---------------------------------------------------------------------------------------------
def features(prog) -> list[str]:
    fs = [prog["kind"], "float32" if prog["f32"] else "float64"]
    if prog["kind"] == "distreg":
        fs += sorted({"smooth." + s["type"] for s in prog["smooths"]})
        return fs
    for v in prog["vars"]:
        d = v["dist"]
        if d:
            fs.append("fam." + d["fam"])
            if d.get("impl", "jax") != "jax":
                fs.append("log_prob_returns." + {"np": "numpy", "pylike": "pyfloat_or_list", "npsub": "tfp_numpy_substrate"}[d["impl"]])
            if d["transient"]:
                fs.append("transient_dist")
            if not d["per_obs"]:
                fs.append("per_obs=False")
            if v["calc"] is not None:
                fs.append("weak_var_with_dist")
            if isinstance(v["shape"], list):
                fs.append("matrix_obs")
            elif v["shape"] and d["fam"] != "mvnd":
                fs.append("vector_obs")
        elif v["calc"] is not None:
            fs.append("weak_intermediate")
        if v["transform"]:
            fs.append("transform." + v["transform"])
        if d and v["role"] == "both":
            fs.append("role.both")
        if d and v["role"] == "none":
            fs.append("role.none")
    if len(prog.get("builds") or []) > 1:
        fs.append("build_history." + "+".join(prog["builds"]))
    if prog.get("reject"):
        fs.append("has_raising_assignment")
    if prog.get("builder_add"):
        fs.append("builder_add." + prog["builder_add"]["order"] + ".other_" + prog["builder_add"]["other"])
    if prog.get("add_mode") == "roots":
        fs.append("inner_vars_reached_as_inputs_only")
    if prog["free"]:
        fs.append("free_dist")
    for w, u in prog["user"].items():
        fs.append(f"user_{w}")
        fs.append("user_kind." + u["kind"])
    if prog.get("nodist_node"):
        fs.append("explicit_NoDist_node")
    return sorted(set(fs))


def strip_obs(o):
    return {k: v for k, v in o.items() if k != "state"}


def run_program(prog: dict, steps: list[dict], pid, want_inputs=True, jit=False) -> list[dict]:
    """build the real model, apply the positions, observe; one case per observation point"""
    import liesel.goose as gs
    cases = []
    kdone, bi = 0, 0
    try:
        Bs = kit.build_all(prog)
        for bi, B in enumerate(Bs):
            kdone = 0
            last = bi == len(Bs) - 1
            iface = gs.LieselInterface(B.model)
            o = kit.observe(B, iface, want_inputs=want_inputs and not prog["f32"])
            flip = None
            if last:
                try:
                    B2 = kit.build(prog, flip_per_obs=True)
                    o2 = kit.observe(B2)
                    flip = {"reads": o2["reads"][0]}
                except Exception as ex:   # noqa
                    flip = {"error": repr(ex)}
            cases.append({"pid": pid, "k": 0, "build": bi, "how": B.how, "prog": prog, "positions": [], "mode": "build",
                          "obs": strip_obs(o), "flip": flip})
            if not (last or bi == 0):
                continue          # the positions are applied to the first and to the last model of the history
            prev = o["state"]
            for k, st in enumerate(steps):
                window, sim = None, None
                if st["mode"] == "reject":
                    window = kit.reject_window(B, st)
                if st["mode"] == "simfail":
                    sim = kit.simulate_then_restore(B)
                kit.apply_position(B, st["pos"], st["mode"] == "manual", inplace=st["mode"] == "inplace")
                o = kit.observe(B, iface, prev_state=prev, pos=st["pos"], want_inputs=want_inputs and not prog["f32"],
                                jit=jit and last and k == len(steps) - 1)
                cases.append({"pid": pid, "k": k + 1, "build": bi, "how": B.how, "prog": prog, "positions": steps[:k + 1],
                              "mode": st["mode"], "obs": strip_obs(o), "flip": None, "window": window, "sim": sim})
                kdone = k + 1
                prev = o["state"]
    except Exception as ex:
        import traceback
        cases.append({"pid": pid, "k": kdone, "build": bi, "prog": prog, "positions": steps[:kdone + 1], "mode": "raised",
                      "obs": None, "flip": None, "raised": repr(ex), "traceback": traceback.format_exc()[-1500:]})
    for c in cases:
        c["exp"] = kit.evaluate(prog, c["positions"])
        finish_case(c)
    return cases


def finish_case(c):
    o = c["obs"]
    if o is None:
        c["tol"] = Fraction(0)
        return
    tot = Fraction(0)
    for n in o["nodes"]:
        e = n["obs"]
        if e is not None:
            tot += abs(e[1]) if e[0] == "S" else sum(abs(x) for x in e[1])
    for w, e in o["user"].items():
        if e is not None:
            tot += abs(e[1]) if e[0] == "S" else sum(abs(x) for x in e[1])
    c["tol"] = EPS_D[c["prog"]["f32"]] * (1 + tot)
    c["nonfinite"] = any(n["obs"] is None for n in o["nodes"]) or any(e is None for e in o["user"].values())


def load_corpus():
    out = []
    if os.path.isdir(CORPUS):
        for fn in sorted(os.listdir(CORPUS)):
            if fn.startswith("C02") and fn.endswith(".json"):
                try:
                    j = json.load(open(os.path.join(CORPUS, fn)))
                    out.append((j["prog"], j.get("steps", [])))
                except Exception as ex:   # noqa
                    common.log("corpus file unreadable:", fn, ex)
    return out


def generate(ctx):
    kit.setup_jax()
    rnd = random.Random(ctx.seed)
    nprog = 130 if ctx.quick else 1300
    plan = []
    for prog, steps in load_corpus():
        plan.append((prog, steps, "corpus"))
    for rep in range(2 if ctx.quick else 12):
        for force in FORCED:
            if force == "distreg":
                prog = kit.gen_distreg(rnd, force)
            else:
                prog = kit.gen_hier(rnd, rnd.randint(2, 7), {"inplace": None, "simfail": "weakdist"}.get(force, force))
                for _ in range(30):
                    if force != "reject" or prog["reject"]:
                        break
                    prog = kit.gen_hier(rnd, rnd.randint(3, 7), force)
                if force == "inplace":
                    prog["f32"] = rep % 2 == 1
            plan.append((prog, kit.gen_positions(rnd, prog, rnd.choice([2, 3]) if force == "inplace" else rnd.choice([1, 2, 3]), force),
                         "forced." + force))
    while len(plan) < nprog:
        if rnd.random() < 0.15:
            prog = kit.gen_distreg(rnd)
        else:
            prog = kit.gen_hier(rnd, rnd.randint(2, 7 if ctx.quick else 10))
        plan.append((prog, kit.gen_positions(rnd, prog, rnd.choice([0, 1, 2, 3])), "random"))
    cases = []
    njit, jit_limit = 0, (6 if ctx.quick else 40)
    for pid, (prog, steps, stratum) in enumerate(plan):
        # NumPy-evaluated densities cannot be traced; only models built from the JAX substrate are jitted
        numpy_dist = prog["kind"] == "hier" and (any(
            d["dist"] and d["dist"].get("impl", "jax") != "jax" for d in prog["vars"] + prog["free"])
            or any(v["calc"] and v["calc"]["fn"] == "guard" for v in prog["vars"]))
        jit = bool(steps) and njit < jit_limit and pid % 3 == 0 and not numpy_dist
        njit += jit
        cs = run_program(prog, steps, pid, jit=jit)
        ctx.hist("program." + stratum)
        for f in features(prog):
            ctx.hist("feature." + f)
        for c in cs:
            c["stratum"] = stratum
            ctx.hist("point." + c["mode"])
            if c.get("nonfinite"):
                ctx.hist("skipped.nonfinite_log_density")
            if c.get("sim"):
                ctx.hist("simulate." + ("failed" if c["sim"]["raised"] else "succeeded") + "_then_assignments")
            if c.get("window"):
                ctx.hist("window.first_assignment_" + ("raised" if c["window"]["raised"][0] else "did_not_raise"))
                ctx.hist("window.nodes_outdated" if c["window"]["any_outdated"] else "window.all_clean")
        cases.extend(cs)
    distinct = {json.dumps([c["prog"], c["positions"], c.get("build", 0)], sort_keys=True) for c in cases}
    nreads = sum(len(c["obs"]["reads"]) for c in cases if c["obs"])
    ctx.count(len(cases), len(distinct))
    ctx.hist("readings_of_the_three_totals", nreads)
    ctx.hist("distribution_nodes_compared", sum(len(c["obs"]["nodes"]) for c in cases if c["obs"]))
    ctx.cov["rule"] = ("one case = one real lsl.Model at one assignment of values; distinct = distinct (program, sequence of "
                       "positions); forced strata (each >= 2 programs per run): user-supplied nodes, free distribution node, both "
                       "flags, no flag, TransientDist, transformed variable, degenerate MVN, weak variable with distribution, "
                       "explicit NoDist node, matrix-valued observation, auto_transform=True, log_prob returning NumPy / Python float / "
                       "list-with-sum / tfp NumPy substrate, in-place modified buffer and equal-but-fresh assignments, DistRegBuilder")
    for c in cases[:1] + [c for c in cases if c["prog"]["user"]][:1] + [c for c in cases if c["prog"]["kind"] == "distreg"][:1]:
        ctx.sample({"features": features(c["prog"]), "k": c["k"],
                    "reads": [{k: str(v) for k, v in r.items()} for r in (c["obs"]["reads"][:2] if c["obs"] else [])]})
    ctx.assume += [
        "C02_graph_*: the graph is well-formed (wf g: a topological order of a DAG) and the function symbol of a total node "
        "means _reduced_sum / identity (means_reduced_sum, means_identity)",
        "C02_decomposition: no user-supplied total node and every distribution node belongs to a variable with exactly one flag",
        "per-node log-densities (obs) are what init_dist().log_prob(at.value) returns; exact real arithmetic in the theorems, "
        "float rounding bounded by the explicit tolerance in the shard lemmas",
    ]
    ctx.tested_not_proved += [
        f"jax.jit(LieselInterface.update_state) shows the same three totals as the eager model on {njit} programs "
        "(included among the readings the shard lemmas compare; jit = identity is not proved)",
        "fault followed by continued use (an assignment whose auto-update raises, then assignments to other variables): "
        "'every distribution node that reports itself up to date holds the log-density at the current values; totals = sums "
        "when nothing is outdated' is checked by the Python oracle only (a partially executed update is outside the Coq graph "
        "model); the state after the next admissible assignment goes through the shard lemmas as usual",
        "tfp log-densities other than scalar Normal/Gamma/InverseGamma (Poisson, degenerate MVN, Softplus-transformed): "
        "compared with scipy/numpy closed forms by the oracle only",
        "ln Gamma(a) for concentrations that are not in {1/2,1,3/2,2,5/2,3} is supplied by Python's math.lgamma in the R-lemmas",
        "float summation order (jnp .sum() vs Python sum) only through the tolerance",
    ]
    ctx.extra_tb = ["Interval (interval tactic) and Reals axioms for the R-shards on the densities",
                    "tensorflow_probability densities beyond the three scalar families; scipy.stats in the oracle"]
    return cases


# ---------------------------------------------------------------------------------------------
# emission
# ---------------------------------------------------------------------------------------------
def sv(e):
    if e[0] == "S":
        return f"(Scalar {qlit(e[1])})"
    return "(Arr " + lst(qlit(x) for x in e[1]) + ")"


def osv(e):
    return "None" if e is None else f"(Some {sv(e)})"


def case_lit(c):
    o = c["obs"]
    ns = []
    for n in o["nodes"]:
        var = "None" if n["var"] is None else f"(Some (mkVar {blit(n['var']['observed'])} {blit(n['var']['parameter'])}))"
        ns.append(f"(mkD {n['kind']} {var} {blit(n['per_obs'])} {sv(n['obs'])})")
    u = o["user"]
    built = f"(mkB {lst(ns)} {osv(u.get('lik')) if 'lik' in u else 'None'} {osv(u.get('prior')) if 'prior' in u else 'None'} {osv(u.get('prob')) if 'prob' in u else 'None'})"
    stored = lst(sv(n["stored"]) if n["stored"] is not None else "(Arr [])" for n in o["nodes"])
    reads = lst(f"(mkRd {osv(r['prob'])} {osv(r['lik'])} {osv(r['prior'])})" for r in o["reads"])
    return f"(mkCase {built} {qlit(c['tol'])} {stored} {reads})"


def emittable(c):
    return c["obs"] is not None and not c.get("nonfinite")


LG_CLOSED = {0.5: "(ln PI / 2)", 1.0: "0", 1.5: "(ln PI / 2 - ln 2)", 2.0: "0", 2.5: "(ln PI / 2 + ln 3 - ln 4)", 3.0: "(ln 2)"}


def r_goals(cases, cap):
    """(case index, text of the claim, tactic) for scalar-family nodes of float64 cases"""
    goals, seen = [], set()
    per_fam: dict[str, int] = {}
    for i, c in enumerate(cases):
        if not emittable(c) or c["prog"]["f32"] or c["prog"]["kind"] != "hier":
            continue
        info = getattr_info(c)
        for n in c["obs"]["nodes"]:
            inf = info.get(n["name"])
            if not inf or inf["fam"] not in ("normal", "gamma", "invgamma") or inf["transform"] not in (None, "exp"):
                continue
            if "inputs" not in n or n["obs"] is None or n["at"] is None:
                continue
            ob = n["obs"]
            m = 1 if ob[0] == "S" else len(ob[1])
            for j in ([0, m - 1] if m > 1 else [0]):
                def el(e):
                    if e is None:
                        return None
                    if e[0] == "S":
                        return e[1]
                    return e[1][j] if len(e[1]) == m else (e[1][0] if len(e[1]) == 1 else None)
                v = el(ob)
                x = el(n["at"])
                ps = {k: el(e) for k, e in n["inputs"].items()}
                if v is None or x is None or any(p is None for p in ps.values()):
                    continue
                fam = inf["fam"]
                if fam == "normal":
                    if set(ps) != {"loc", "scale"}:
                        continue
                    expr = f"c02_normal {rlit(ps['loc'])} {rlit(ps['scale'])} {rlit(x)}"
                    unf = "c02_normal, normal_logpdf"
                else:
                    a = ps.get("concentration")
                    other = ps.get("scale" if fam == "invgamma" else "rate")
                    if a is None or other is None:
                        continue
                    lg = LG_CLOSED.get(float(a)) or rlit(Fraction(math.lgamma(float(a))))
                    base = "c02_ig" if fam == "invgamma" else "c02_gamma"
                    fn = base + ("_exp" if inf["transform"] == "exp" else "")
                    expr = f"{fn} {lg} {rlit(a)} {rlit(other)} {rlit(x)}"
                    unf = "c02_ig_exp, c02_gamma_exp, c02_ig, c02_gamma, ig_logpdf, gamma_logpdf"
                key = expr
                if key in seen:
                    continue
                tag = fam + (".exp" if inf["transform"] else "")
                if per_fam.get(tag, 0) >= cap // 4 + 1:
                    continue
                seen.add(key)
                per_fam[tag] = per_fam.get(tag, 0) + 1
                tol = Fraction(1, 10 ** 9) * max(1, abs(v))
                goals.append((i, f"Rabs ({expr} - {rlit(v)}) <= {rlit(tol)}", f"unfold {unf}; interval with (i_prec 64)", tag))
    return goals[:cap], per_fam


def getattr_info(c):
    """dist node name -> family info, from the program description"""
    prog = c["prog"]
    info = {}
    for v in prog["vars"]:
        if v["dist"]:
            nm = v["name"] + ("_transformed" if v["transform"] else "") + "_log_prob"
            info[nm] = {"fam": v["dist"]["fam"], "transform": v["transform"]}
    for fd in prog["free"]:
        info[fd["name"]] = {"fam": fd["dist"]["fam"], "transform": None}
    return info


_r_index: dict[str, list[tuple[int, int]]] = {}


def emit(ctx, cases):
    shards = []
    idx = [i for i, c in enumerate(cases) if emittable(c)]
    per = 150
    for k in range(0, len(idx), per):
        idxs = idx[k:k + per]
        rows = [case_lit(cases[i]) for i in idxs]
        txt = HEADER_D + f"""
Definition cases : list c02case := {lst(rows)}.
Lemma shard_ok : forallb agrees cases = true.
Proof. vm_compute. reflexivity. Qed.
"""
        shards.append((ctx.new_shard(txt), idxs))
    goals, per_fam = r_goals(cases, 120 if ctx.quick else 900)
    for t, n in per_fam.items():
        ctx.hist("R-lemma." + t, n)
    for k in range(0, len(goals), 30):
        chunk = goals[k:k + 30]
        lines = [HEADER_R]
        linemap = []
        for j, (i, claim, tac, _) in enumerate(chunk):
            lines.append(f"Lemma r_{k + j} : {claim}.")
            lines.append(f"Proof. {tac}. Qed.")
            linemap.append((len("\n".join(lines).split("\n")), i))
        p = ctx.new_shard("\n".join(lines) + "\n", name=f"rcases_{k // 30:03d}")
        _r_index[p] = linemap
        shards.append((p, sorted({i for i, _, _, _ in chunk})))
    return shards


def diagnose(ctx, path, idxs, cases):
    if os.path.basename(path).startswith("rcases"):
        ok, out = ctx.coq_eval(open(path).read())
        m = re.search(r"line (\d+)", out)
        if m:
            ln = int(m.group(1))
            for last, i in _r_index.get(path, []):
                if ln <= last:
                    return [i]
        return idxs[:5]
    txt = open(path).read().split("Lemma shard_ok")[0]
    txt += "Eval vm_compute in (failing agrees cases).\n"
    ok, out = ctx.coq_eval(txt)
    bad = [idxs[j] for j in common.parse_nat_list(out) if j < len(idxs)]
    if not bad:
        bad = [i for i in idxs if py_agrees(cases[i])]
    return bad


# ---------------------------------------------------------------------------------------------
# python mirror of the Coq agreement predicate (diagnostics / replay only)
# ---------------------------------------------------------------------------------------------
def _reduce(e):
    return e[1] if e[0] == "S" else sum(e[1], Fraction(0))


def _close(tol, a, b):
    if a is None or b is None or a[0] != b[0]:
        return False
    if a[0] == "S":
        return abs(a[1] - b[1]) <= tol
    return len(a[1]) == len(b[1]) and all(abs(x - y) <= tol for x, y in zip(a[1], b[1]))


def model_totals(o):
    """Graph/LogProb.v in Python"""
    def stored(n):
        if n["kind"] == "KNoDist":
            return ("S", Fraction(0))
        return n["obs"] if n["per_obs"] else ("S", _reduce(n["obs"]))

    def total(sel):
        return ("S", sum((_reduce(stored(n)) for n in o["nodes"] if sel(n)), Fraction(0)))
    hd = lambda n: n["kind"] != "KNoDist"
    t = {"prob": total(lambda n: True),
         "lik": total(lambda n: n["var"] is not None and hd(n) and n["var"]["observed"]),
         "prior": total(lambda n: n["var"] is not None and hd(n) and n["var"]["parameter"])}
    for w in ("prob", "lik", "prior"):
        if w in o["user"]:
            t[w] = o["user"][w]
    return t, stored


def py_agrees(c):
    """None if the model agrees with the observation, else a description"""
    o = c["obs"]
    if o is None:
        return "the implementation raised: " + str(c.get("raised"))
    t, stored = model_totals(o)
    for n in o["nodes"]:
        if not _close(c["tol"], stored(n), n["stored"]):
            return f"stored value of {n['name']} (per_obs={n['per_obs']}) is not the model's"
    for r in o["reads"]:
        for w in ("prob", "lik", "prior"):
            if not _close(c["tol"], t[w], r[w]):
                return (f"log_{w} read via {r['how']} = {fmt(r[w])}, model = {fmt(t[w])}")
    return None


def fmt(e):
    if e is None:
        return "None"
    return repr(float(e[1])) if e[0] == "S" else repr([float(x) for x in e[1]])


# ---------------------------------------------------------------------------------------------
# direct oracle: the property read literally, against an independent evaluation of the program
# ---------------------------------------------------------------------------------------------
def _num(e):
    return None if e is None else (float(e[1]) if e[0] == "S" else [float(x) for x in e[1]])


def _sumf(e):
    return float(_reduce(e))


def oracle(c):
    o, ex = c["obs"], c["exp"]
    if o is None:
        return f"building / updating the model raised {c.get('raised')}"
    if c.get("nonfinite"):
        # the generator only produces programs whose joint log-density is finite (independent evaluation)
        bad = [n["name"] for n in o["nodes"] if n["obs"] is None] + [f"user_{w}" for w, e in o["user"].items() if e is None]
        if all(math.isfinite(v) for v in ex["nodes"].values()):
            return (f"non-finite log-density at {bad} although the independent evaluation of the program is finite "
                    f"(per node: {ex['nodes']})")
        return None
    f32 = c["prog"]["f32"]
    tol = EPS_O[f32] * (1 + ex["abs"])
    if o.get("missing_user"):
        return (f"the user-supplied log_{o['missing_user'][0]} node is not part of the model produced by build #{c.get('build', 0)} "
                f"({c.get('how')}) of the history {c['prog'].get('builds') or ['nocopy']} (builder_add: {c['prog'].get('builder_add')}): Model.log_{o['missing_user'][0]} = "
                f"{fmt(o['reads'][0][o['missing_user'][0]])} is not the user node's value {ex['user'].get(o['missing_user'][0])}")
    w = window_oracle(c)
    if w:
        return w
    sim = c.get("sim")
    if sim and sim["auto_update_after"] != sim["auto_update_before"]:
        return (f"model.auto_update is {sim['auto_update_after']} after a simulate() call that "
                f"{'raised ' + str(sim['raised']) if sim['raised'] else 'succeeded'}, although the user set it to "
                f"{sim['auto_update_before']}: later assignments leave the totals at the old values")
    want = {"prob": ("S", ex["prob"]), "lik": ("S", ex["lik"]), "prior": ("S", ex["prior"])}
    for w, u in ex["user"].items():
        want[w] = u
    # (1) every reading of every total shows the joint log-density / restricted sums / the user node
    for r in o["reads"]:
        for w in ("prob", "lik", "prior"):
            got = r[w]
            if got is None:
                return f"log_{w} read via {r['how']} is None / not a finite number (Model.log_{w} = {fmt(o['reads'][0][w])})"
            exp = want[w]
            if got[0] != exp[0]:
                return (f"log_{w} read via {r['how']} has the wrong shape: {fmt(got)} "
                        f"(expected {'a scalar' if exp[0] == 'S' else 'the user node array'} {exp[1]})")
            g = _num(got)
            # a user node's own value can be far larger than the log-densities: float rounding scales with it
            tol_w = tol if w not in ex["user"] else tol + EPS_O[f32] * (abs(exp[1]) if exp[0] == "S" else max(abs(t) for t in exp[1]))
            if exp[0] == "S":
                if abs(g - exp[1]) > tol_w:
                    return (f"log_{w} read via {r['how']} = {g}, but the {'user node' if w in ex['user'] else 'sum of the log-densities'} "
                            f"is {exp[1]} (per node: {ex['nodes']})")
            else:
                if len(g) != len(exp[1]) or any(abs(a - b) > tol_w for a, b in zip(g, exp[1])):
                    return f"user-supplied log_{w} node not forwarded unchanged via {r['how']}: {g} vs {exp[1]}"
    # (2) the distribution nodes of the model are the program's, each holding its log-density
    real = {n["name"]: n for n in o["nodes"] if n["kind"] != "KNoDist"}
    if set(real) != set(ex["nodes"]):
        return f"distribution nodes of the model {sorted(real)} differ from the program's {sorted(ex['nodes'])}"
    for nm, n in real.items():
        if n["stored"] is None:
            return f"distribution node {nm} holds no finite value"
        if abs(_sumf(n["stored"]) - ex["nodes"][nm]) > tol:
            return f"distribution node {nm} holds {fmt(n['stored'])} (sum {_sumf(n['stored'])}), log-density is {ex['nodes'][nm]}"
        if n["per_obs"] is False and n["stored"][0] != "S":
            return f"distribution node {nm} has per_obs=False but stores an array"
        if n["per_obs"] and n["obs"] is not None and (n["stored"][0] != n["obs"][0] or
                                                      (n["stored"][0] == "A" and len(n["stored"][1]) != len(n["obs"][1]))):
            return f"distribution node {nm} has per_obs=True but does not store one value per observation"
        if "var_log_prob" in n and not _close(c["tol"], n["stored"], n["var_log_prob"]):
            return f"Var.log_prob of {n['var']['name']} differs from its distribution node's value"
        role = ex["roles"][nm]
        flags = (n["var"]["observed"], n["var"]["parameter"]) if n["var"] else None
        wantf = {"obs": (True, False), "param": (False, True), "both": (True, True), "none": (False, False), "free": None}[role]
        if flags != wantf:
            return f"distribution node {nm}: variable flags (observed, parameter) = {flags}, program says {wantf}"
    for vn, e in o["nodist_var_log_prob"].items():
        if e is None or _sumf(e) != 0.0:
            return f"variable {vn} has no distribution but Var.log_prob = {fmt(e)}"
    # (3) decomposition
    if not ex["user"] and ex["one_role"]:
        for r in o["reads"]:
            p, l, q = (_num(r[w]) for w in ("prob", "lik", "prior"))
            if abs(p - (l + q)) > tol:
                return f"log_prob {p} != log_lik {l} + log_prior {q} via {r['how']} although every distribution node has exactly one role"
    # (4) per_obs irrelevant: the same program with every per_obs flipped
    fl = c.get("flip")
    if fl:
        if "error" in fl:
            return f"building the program with flipped per_obs raised {fl['error']}"
        r0 = o["reads"][0]
        for w in ("prob", "lik", "prior"):
            a, b = r0[w], fl["reads"][w]
            if a is None or b is None or a[0] != b[0] or (a[0] == "S" and abs(float(a[1] - b[1])) > 2 * tol):
                return f"log_{w} changes when per_obs is flipped on every distribution node: {fmt(a)} vs {fmt(b)}"
    return None


def _same(a, b, tol):
    """lists of floats equal up to tol; non-finite entries must match in kind"""
    if isinstance(a, str) or isinstance(b, str) or len(a) != len(b):
        return False
    for x, y in zip(a, b):
        if math.isfinite(x) and math.isfinite(y):
            if abs(x - y) > tol * (1 + abs(y)):
                return False
        elif not ((math.isnan(x) and math.isnan(y)) or x == y):
            return False
    return True


def window_oracle(c):
    """after a rejected assignment and continued use: every distribution node that reports itself up to date holds
    the log-density at the CURRENT values of its inputs; when no node is outdated the totals are the sums"""
    w = c.get("window")
    if not w:
        return None
    st = c["positions"][-1]
    eps = 1e-4 if c["prog"]["f32"] else 1e-8
    what = (f"after the rejected assignment {st['bad']} (raised: {w['raised'][0]}) and continued use {st['window']} "
            f"(current values {w['current']})")
    for n in w["nodes"]:
        if n["outdated"]:
            continue
        if isinstance(n["fresh"], str) and isinstance(n["stored"], str):
            continue        # a transient node: reading its value evaluates (and raises) now; nothing is cached
        if isinstance(n["fresh"], str):
            return f"{what}: distribution node {n['name']} reports itself up to date but its log-density {n['fresh']} at the current values"
        want = n["fresh"] if n["per_obs"] else ([sum(n["fresh"])] if all(math.isfinite(x) for x in n["fresh"]) else None)
        if want is None:
            continue
        if not _same(n["stored"], want, eps):
            return (f"{what}: distribution node {n['name']} reports itself up to date and holds {n['stored']}, but the "
                    f"log-density at the current values of its inputs is {want}")
    if w["totals"] is not None:
        fresh = {n["name"]: n["fresh"] for n in w["nodes"]}
        if all(not isinstance(v, str) and all(math.isfinite(x) for x in v) for v in fresh.values()):
            total = sum(sum(v) for v in fresh.values())
            if "prob" not in c["exp"]["user"] and not _same(w["totals"]["prob"], [total], eps):
                return f"{what}: no node is outdated, log_prob = {w['totals']['prob']} but the sum of the log-densities at the current values is {total}"
    return None


def klass(c):
    return None


def search(ctx, disagreeing):
    out = []
    for c in disagreeing:
        r = oracle(c) or py_agrees(c)
        if r:
            out.append(dict(slim(c), why=r))
    return out


def slim(c):
    return {"prog": c["prog"], "positions": c["positions"], "k": c["k"], "build": c.get("build", 0), "pid": c.get("pid"), "mode": c.get("mode"),
            "features": features(c["prog"])}


# ---------------------------------------------------------------------------------------------
# replay
# ---------------------------------------------------------------------------------------------
def replay(rp) -> int:
    kit.setup_jax()
    body = rp["replay"]
    c = body.get("case") or (body.get("disagreeing_cases") or [None])[0]
    if not c or "prog" not in c:
        print("replay file names no concrete input (broken lemma only):", body.get("broken"))
        return 0
    prog, positions = c["prog"], c["positions"]
    cs = run_program(prog, positions, 0)
    k = int(c.get("k", len(positions)))
    rc = 0
    for case in [x for x in cs if x["k"] <= k or x["obs"] is None]:
        r = oracle(case) or py_agrees(case)
        print(f"build #{case.get('build', 0)} point {case['k']} ({case['mode']}): features {features(prog)}")
        if case["obs"]:
            for rd in case["obs"]["reads"]:
                print("   ", rd["how"], {w: fmt(rd[w]) for w in ("prob", "lik", "prior")})
            print("    independent evaluation:", {w: case["exp"][w] for w in ("prob", "lik", "prior")}, "user:", case["exp"]["user"])
        if r:
            print("REPLAY FAILS:", r)
            rc = 1
    if rc == 0:
        print("replay passes on the current tree")
    return rc
