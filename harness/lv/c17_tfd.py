"""C17, real-tfd layer: array-valued hierarchical models with tensorflow-probability distributions.

A model description (JSON) is built as a real liesel model; a history of public operations (auto_update
toggles, value assignments - also assignments that change the SHAPES of a whole chain of variables -,
full / targeted updates) produces the entry state (coherent, outdated, outdated with changed shapes);
then `model.simulate(key, skip)` and `model.update()`.  Every distribution factory is wrapped so that the
`sample(sample_shape, seed)` calls are recorded (order, seed, sample_shape).

`check` reads the property literally:
  * shapes of all variable values after simulate = shapes at the call;
  * every drawn variable = its distribution, REBUILT FROM SCRATCH at the final values, sampled with
    jax.random.split(key, n)[i] and the sample shape implied by the value at the call; skipped / undrawn
    variables unchanged; drawn set = non-skipped distributed variables;
  * after simulate: every node that reports itself up to date, and after update(): EVERY node (Dist nodes
    with per_obs True / False included) has the shape and value that a fresh model built from the same
    description at the drawn values has; no node outdated; model.state agrees;
  * the same values for the other auto_update setting.
"""
from __future__ import annotations

import json
import random

FAM_EVENT = {"normal": 0, "mvn": 1}


def _bcast(a, b):
    a, b = list(a), list(b)
    n = max(len(a), len(b))
    a = [1] * (n - len(a)) + a
    b = [1] * (n - len(b)) + b
    out = []
    for x, y in zip(a, b):
        if x != y and 1 not in (x, y):
            raise ValueError((a, b))
        out.append(max(x, y))
    return out


def shapes_of(spec, grow=None):
    """value shape of every variable: prefix ++ batch ++ event; grow = {root name: extra leading dims}"""
    grow = grow or {}
    sh = {}
    for v in spec["vars"]:
        d = v.get("dist")
        pre = list(grow.get(v["name"], [])) + list(v.get("prefix", []))
        if not d:
            sh[v["name"]] = pre + list(v.get("base", []))
            continue
        loc = d["loc"]
        lsh = [] if loc["t"] == "const" else sh[loc["of"]]
        ssh = list(_np_shape(d["scale"]))
        if d["family"] == "mvn":
            k = ssh[-1]
            sh[v["name"]] = pre + (lsh if lsh else [k])
        else:
            sh[v["name"]] = pre + _bcast(lsh, ssh)
    return sh


def _np_shape(x):
    s = []
    while isinstance(x, list):
        s.append(len(x))
        x = x[0]
    return s


# ---------------------------------------------------------------------------------------------
# generation
# ---------------------------------------------------------------------------------------------
def gen_spec(rnd: random.Random, stratum: str):
    vars_ = []
    k = rnd.choice([2, 3])

    def scale(vec_ok=True):
        if vec_ok and rnd.random() < 0.3:
            return [round(rnd.uniform(0.5, 1.5), 2) for _ in range(k)]
        return round(rnd.uniform(0.5, 2.0), 2)

    def via(parent):
        r = rnd.random()
        if stratum == "diamond" or r > 0.85:
            return {"t": "diamond", "of": parent, "order": rnd.choice(["ba", "ba", "ab"]), "weak": rnd.random() < 0.4,
                    "levels": rnd.choice([2, 2, 3]), "vn": rnd.random() < 0.2}
        if stratum == "per_obs_off" and r < 0.5:
            return {"t": "var", "of": parent}
        if r < 0.25:
            return {"t": "var", "of": parent}
        kind = rnd.choice(["calc", "calc", "tcalc", "weak"])
        return {"t": "calc", "of": parent, "kind": kind, "a": rnd.choice([1.0, 2.0, -1.0, 0.5]),
                "b": rnd.choice([0.0, 1.0, 100.0]), "vn": rnd.random() < 0.25, "depth": rnd.choice([1, 1, 2])}

    per_obs = (lambda: rnd.random() < 0.35) if stratum != "per_obs_off" else (lambda: rnd.random() < 0.15)
    scalar_tree = stratum in ("reshape_stale", "reshape_updated")      # all scales scalar: the chain can grow
    root_fam = "normal" if scalar_tree or rnd.random() < 0.75 else "mvn"
    root = {"name": "a", "prefix": rnd.choice([[], [], [3], [2, 2]]) if not scalar_tree else rnd.choice([[], [], [2]]),
            "dist": {"family": root_fam, "loc": {"t": "const", "v": rnd.choice([0.0, 5.0, 1000.0])},
                     "scale": scale(not scalar_tree) if root_fam == "normal" else [1.0] * k,
                     "kw": rnd.random() < 0.6, "per_obs": per_obs()}}
    vars_.append(root)
    names = ["b", "c", "d"]
    nchild = rnd.randint(1, 3)
    for i in range(nchild):
        parent = rnd.choice([v["name"] for v in vars_ if v.get("dist")])
        vars_.append({"name": names[i], "prefix": rnd.choice([[], [], [4], [2]]) if not scalar_tree else [],
                      "dist": {"family": "normal", "loc": via(parent), "scale": scale(False) if scalar_tree else scale(True),
                               "kw": rnd.random() < 0.6, "per_obs": per_obs()}})
    if rnd.random() < 0.4:
        vars_.append({"name": "s", "prefix": [], "dist": {"family": "normal", "loc": {"t": "const", "v": 0.0},
                                                          "scale": 1.0, "kw": True, "per_obs": True}})
    if rnd.random() < 0.3:
        vars_.append({"name": "data", "base": rnd.choice([[], [3]])})
    spec = {"vars": vars_}
    try:
        shapes_of(spec)
    except ValueError:
        return gen_spec(rnd, stratum)
    return spec


CORPUS_DIAMOND = {"spec": {"vars": [
    {"name": "a", "prefix": [], "dist": {"family": "normal", "loc": {"t": "const", "v": 0.0}, "scale": 2.0, "kw": True, "per_obs": True}},
    {"name": "b", "prefix": [3], "dist": {"family": "normal", "loc": {"t": "diamond", "of": "a", "order": "ba", "weak": True, "levels": 2, "vn": False},
                                           "scale": 0.5, "kw": True, "per_obs": True}}]},
    "ops": [["auto", False]], "skip": [], "seed": 0}


def _rand_array(rnd, shape):
    import numpy as np
    n = 1
    for s in shape:
        n *= s
    return np.asarray([round(rnd.uniform(-3, 3), 2) for _ in range(n)], dtype="float32").reshape(shape).tolist()


def gen_ops(rnd: random.Random, spec, stratum):
    names = [v["name"] for v in spec["vars"]]
    dvars = [v["name"] for v in spec["vars"] if v.get("dist")]
    sh = shapes_of(spec)
    ops = []
    auto = True
    if stratum in ("coherent_on",):
        auto = True
    elif stratum == "diamond":
        auto = rnd.random() < 0.25
        ops.append(["auto", auto])
        if rnd.random() < 0.3:
            nm = rnd.choice(names)
            ops.append(["set", nm, _rand_array(rnd, sh[nm])])
    elif stratum in ("coherent_off", "per_obs_off"):
        auto = False
        ops.append(["auto", False])
    elif stratum == "outdated":
        auto = False
        ops.append(["auto", False])
        for nm in rnd.sample(names, rnd.randint(1, len(names))):
            ops.append(["set", nm, _rand_array(rnd, sh[nm])])
        if rnd.random() < 0.3:
            ops.append(["update", [rnd.choice(dvars) + "_log_prob"]])
    elif stratum in ("reshape_stale", "reshape_updated"):
        auto = rnd.random() < 0.25 if stratum == "reshape_updated" else False
        ops.append(["auto", auto])
        n = rnd.choice([1, 3, 4])
        nsh = shapes_of(spec, {"a": [n]})
        for v in spec["vars"]:            # parents first
            if nsh[v["name"]] != sh[v["name"]]:
                ops.append(["set", v["name"], _rand_array(rnd, nsh[v["name"]])])
        if stratum == "reshape_updated" and not auto:
            ops.append(["update", []])
    else:
        if rnd.random() < 0.5:
            auto = False
            ops.append(["auto", False])
        for _ in range(rnd.randint(0, 2)):
            nm = rnd.choice(names)
            ops.append(["set", nm, _rand_array(rnd, sh[nm])])
    skip = []
    if rnd.random() < 0.35:
        nm = rnd.choice(dvars)
        skip.append(rnd.choice([nm, nm + "_log_prob", nm + "_var_value"]))
    if rnd.random() < 0.15:
        skip.append("no_such_name")
    # weak Vars used as parameters have no distribution: nothing to skip
    return ops, skip, auto


STRATA = ["coherent_on", "coherent_off", "diamond", "per_obs_off", "outdated", "reshape_stale", "reshape_updated", "mixed"]

CORPUS = [
    # C17-2 class: vector variable, per_obs = False, auto-update off
    {"spec": {"vars": [{"name": "a", "prefix": [], "dist": {"family": "normal", "loc": {"t": "const", "v": 0.0}, "scale": 1.0, "kw": True, "per_obs": True}},
                       {"name": "b", "prefix": [5], "dist": {"family": "normal", "loc": {"t": "var", "of": "a"}, "scale": 2.0, "kw": True, "per_obs": False}}]},
     "ops": [["auto", False]], "skip": [], "seed": 3},
    # C17-3 class: auto-update off, parent and child vectorised (scalar -> length 3) without update, cached Calc between
    {"spec": {"vars": [{"name": "a", "prefix": [], "dist": {"family": "normal", "loc": {"t": "const", "v": 0.0}, "scale": 1.0, "kw": True, "per_obs": True}},
                       {"name": "b", "prefix": [], "dist": {"family": "normal", "loc": {"t": "calc", "of": "a", "kind": "weak", "a": 2.0, "b": 0.0, "vn": False, "depth": 1},
                                                            "scale": 0.5, "kw": False, "per_obs": True}}]},
     "ops": [["auto", False], ["set", "a", [0.0, 0.0, 0.0]], ["set", "b", [0.0, 0.0, 0.0]]], "skip": [], "seed": 7},
    # (the two-level diamond of seeded C17-4 is CORPUS_DIAMOND above)
    # C17-1 class: keyword parameters behind a cached Calc, auto-update off, sample prefix (4,)
    {"spec": {"vars": [{"name": "a", "prefix": [], "dist": {"family": "normal", "loc": {"t": "const", "v": 1000.0}, "scale": 1.0, "kw": True, "per_obs": True}},
                       {"name": "b", "prefix": [4], "dist": {"family": "normal", "loc": {"t": "calc", "of": "a", "kind": "calc", "a": 1.0, "b": 100.0, "vn": False, "depth": 2},
                                                             "scale": 0.5, "kw": True, "per_obs": False}}]},
     "ops": [["auto", False]], "skip": [], "seed": 0},
]


# ---------------------------------------------------------------------------------------------
# the real model
# ---------------------------------------------------------------------------------------------
class _Rec:
    def __init__(self, dist, name, log):
        self._d, self._name, self._log = dist, name, log

    def __getattr__(self, a):
        return getattr(self._d, a)

    def sample(self, sample_shape=(), seed=None, **kw):
        import numpy as np
        self._log.append({"var": self._name, "seed": np.asarray(seed).tolist(), "sample_shape": [int(x) for x in tuple(sample_shape)]})
        return self._d.sample(sample_shape, seed=seed, **kw)


def build(spec, values=None, log=None):
    import jax.numpy as jnp
    import liesel.model as lsl
    import tensorflow_probability.substrates.jax.distributions as tfd
    import logging
    logging.getLogger("liesel").setLevel(logging.ERROR)
    sh = shapes_of(spec)
    objs = {}
    log = log if log is not None else []

    def factory(cls, name):
        def make(*a, **kw):
            return _Rec(cls(*a, **kw), name, log)
        return make

    for v in spec["vars"]:
        name = v["name"]
        val = jnp.asarray(values[name], dtype=jnp.float32) if values is not None else jnp.zeros(sh[name], dtype=jnp.float32)
        d = v.get("dist")
        if not d:
            objs[name] = lsl.Var(val, name=name)
            continue
        lp = d["loc"]
        if lp["t"] == "const":
            loc = jnp.float32(lp["v"]) if d["family"] == "normal" else jnp.full((len(d["scale"]),), lp["v"], dtype=jnp.float32)
        elif lp["t"] == "var":
            loc = objs[lp["of"]]
        elif lp["t"] == "diamond":
            # A = f(parent), B = f(A) [, B' = f(B)], loc = f(B, A) or f(A, B): cached Calcs (optionally weak Vars)
            src = objs[lp["of"]].value_node if lp.get("vn") else objs[lp["of"]]

            def wrap(nd, nm):
                return lsl.Var(nd, name=nm + "_var") if lp["weak"] else nd
            na = wrap(lsl.Calc(lambda x: 0.5 * x + 1.0, src, _name=f"{name}_dA"), f"{name}_dA")
            nb = wrap(lsl.Calc(lambda x: 0.25 * x * x + 2.0, na, _name=f"{name}_dB"), f"{name}_dB")
            if lp["levels"] == 3:
                nb = wrap(lsl.Calc(lambda x: x + 1.0, nb, _name=f"{name}_dB2"), f"{name}_dB2")
            if lp["order"] == "ba":
                loc = wrap(lsl.Calc(lambda u, w: 10.0 * u + w, nb, na, _name=f"{name}_dC"), f"{name}_dC")
            else:
                loc = wrap(lsl.Calc(lambda w, u: 10.0 * u + w, na, nb, _name=f"{name}_dC"), f"{name}_dC")
        else:
            src = objs[lp["of"]].value_node if lp["vn"] else objs[lp["of"]]
            a, b = lp["a"], lp["b"]
            cur = src
            for j in range(lp["depth"]):
                last = j == lp["depth"] - 1
                fn = (lambda x, a=a, b=b: a * x + b) if j == 0 else (lambda x: x + 0.0)
                cls = lsl.TransientCalc if lp["kind"] == "tcalc" else lsl.Calc
                cur = cls(fn, cur, _name=f"{name}_loc_c{j}")
                if last and lp["kind"] == "weak":
                    cur = lsl.Var(cur, name=f"{name}_locvar")
            loc = cur
        sc = jnp.asarray(d["scale"], dtype=jnp.float32)
        if d["family"] == "normal":
            cls, pn = tfd.Normal, ("loc", "scale")
        else:
            cls, pn = tfd.MultivariateNormalDiag, ("loc", "scale_diag")
        if d["kw"]:
            dist = lsl.Dist(factory(cls, name), **{pn[0]: loc, pn[1]: sc})
        else:
            dist = lsl.Dist(factory(cls, name), loc, sc)
        dist.per_obs = bool(d["per_obs"])
        objs[name] = lsl.Var(val, dist, name=name)
    gb = lsl.GraphBuilder()
    gb.add(*objs.values())
    return gb.build_model(), log


def _obs(model):
    import numpy as np
    out = {}
    for name, nd in model.nodes.items():
        v = nd.value
        try:
            arr = np.asarray(v, dtype="float64")
            out[name] = {"shape": list(arr.shape), "value": arr.tolist(), "outdated": bool(nd.outdated)}
        except Exception:
            out[name] = {"shape": None, "value": repr(v)[:80], "outdated": bool(nd.outdated)}
    return out


def run(spec, ops, skip, seed, twin=True):
    import jax
    import numpy as np
    log = []
    model, log = build(spec, None, log)
    auto = True
    for op in ops:
        if op[0] == "auto":
            model.auto_update = bool(op[1])
            auto = bool(op[1])
        elif op[0] == "set":
            import jax.numpy as jnp
            model.vars[op[1]].value = jnp.asarray(op[2], dtype=jnp.float32)
        elif op[0] == "update":
            model.update(*op[1])
    strong = [v["name"] for v in spec["vars"]]
    entry = {n: np.asarray(model.vars[n].value).tolist() for n in strong}
    entry_flags = {n: bool(nd.outdated) for n, nd in model.nodes.items()}
    key = jax.random.PRNGKey(seed)
    del log[:]
    err = None
    try:
        model.simulate(key, skip=list(skip))
    except Exception as ex:
        err = repr(ex)[:300]
    draws = list(log)
    post = _obs(model)
    post_vars = {n: np.asarray(model.vars[n].value).tolist() for n in strong}
    uerr = None
    try:
        model.update()
    except Exception as ex:
        uerr = repr(ex)[:300]
    upd = _obs(model)
    state = {}
    try:
        for n, st in model.state.items():
            if st.value is not None:          # transient nodes store no value
                state[n] = {"shape": list(np.shape(st.value)), "outdated": bool(st.outdated)}
    except Exception as ex:
        uerr = uerr or repr(ex)[:300]
    c = {"tfd": True, "spec": spec, "ops": ops, "skip": list(skip), "seed": seed, "auto": auto,
         "entry": entry, "entry_outdated": sorted(n for n, f in entry_flags.items() if f),
         "err": err, "uerr": uerr, "draws": draws, "post": post, "post_vars": post_vars, "upd": upd, "state": state}
    if twin:
        t = run(spec, ops + [["auto", not auto]], skip, seed, twin=False)
        c["twin"] = {"err": t["err"], "post_vars": t["post_vars"]}
    return c


def _close(a, b):
    import numpy as np
    a, b = np.asarray(a, dtype="float64"), np.asarray(b, dtype="float64")
    return a.shape == b.shape and bool(np.allclose(a, b, rtol=2e-4, atol=2e-4, equal_nan=True))


def check(c):
    """None or a message naming the failing model + operation sequence"""
    import jax
    import numpy as np
    spec = c["spec"]
    where = (f"[model {json.dumps(spec)}; operations before simulate {json.dumps(c['ops'])}; "
             f"simulate(PRNGKey({c['seed']}), skip={c['skip']}); auto_update={c['auto']}; "
             f"nodes outdated at the call: {c['entry_outdated']}]")
    if c["err"]:
        return f"simulate raises {c['err']} {where}"
    if c["uerr"]:
        return f"update() / model.state after simulate raises {c['uerr']} {where}"
    dv = [v for v in spec["vars"] if v.get("dist")]
    skip = set(c["skip"])
    sel = [v["name"] for v in dv if not ({v["name"], v["name"] + "_log_prob", v["name"] + "_var_value"} & skip)]
    drawn = [d["var"] for d in c["draws"]]
    if sorted(drawn) != sorted(sel):
        return f"drawn variables {drawn}, non-skipped distributed variables {sel} {where}"
    try:                      # rows for the Coq-side shape check, also when a later clause fails
        fresh0, _ = build(spec, c["post_vars"])
        rows0 = []
        for d in c["draws"]:
            fd = fresh0.nodes[d["var"] + "_log_prob"].init_dist()
            rows0.append({"var": d["var"], "vs": list(np.shape(np.asarray(c["entry"][d["var"]]))),
                          "b": [int(x) for x in fd.batch_shape], "e": [int(x) for x in fd.event_shape],
                          "obs": d["sample_shape"], "final": list(np.shape(np.asarray(c["post_vars"][d["var"]])))})
        c["shape_rows"] = rows0
        lrows = []
        for v in dv:
            nm = v["name"] + "_log_prob"
            vs = list(np.shape(np.asarray(c["post_vars"][v["name"]])))
            e = [int(x) for x in fresh0.nodes[nm].init_dist().event_shape]
            for phase in ("post", "upd"):
                o = c[phase].get(nm)
                if o and o["shape"] is not None and (phase == "upd" or not o["outdated"]):
                    lrows.append({"node": nm, "phase": phase, "per_obs": bool(v["dist"]["per_obs"]), "vs": vs, "e": e, "obs": o["shape"]})
        c["lp_rows"] = lrows
    except Exception:
        c["shape_rows"] = []
        c["lp_rows"] = []
    # shapes relative to the values current at the call
    for n, v0 in c["entry"].items():
        s0, s1 = np.shape(np.asarray(v0)), np.shape(np.asarray(c["post_vars"][n]))
        if s0 != s1:
            return f"simulate changed the shape of variable {n}: {s0} at the call -> {s1} {where}"
    # from-scratch rebuild at the drawn values
    fresh, _ = build(spec, c["post_vars"])
    keys = jax.random.split(jax.random.PRNGKey(c["seed"]), len(sel)) if sel else []
    for i, d in enumerate(c["draws"]):
        n = d["var"]
        if np.asarray(keys[i]).tolist() != d["seed"]:
            return f"draw #{i} ({n}) did not receive jax.random.split(key, {len(sel)})[{i}] {where}"
        fd = fresh.nodes[n + "_log_prob"].init_dist()
        vs = list(np.shape(np.asarray(c["entry"][n])))
        b, e = [int(x) for x in fd.batch_shape], [int(x) for x in fd.event_shape]
        want = vs[:len(vs) - len(b) - len(e)] if len(vs) >= len(b) + len(e) else None
        if want is None:
            continue
        if d["sample_shape"] != want:
            return (f"variable {n} (shape {vs} at the call) was drawn with sample_shape {d['sample_shape']}; its distribution at the "
                    f"newly drawn values has batch_shape {b}, event_shape {e}, so the sample shape implied by the current value is {want} {where}")
        exp = np.asarray(fd.sample(tuple(want), seed=keys[i]))
        if not _close(exp, c["post_vars"][n]):
            return (f"variable {n} is not the draw of its distribution evaluated at the newly drawn values of its ancestors "
                    f"(seed #{i}): holds {np.asarray(c['post_vars'][n]).ravel()[:4]}..., expected {exp.ravel()[:4]}... {where}")
    for v in spec["vars"]:
        n = v["name"]
        if n not in drawn and not _close(c["entry"][n], c["post_vars"][n]):
            return f"simulate changed the skipped / undistributed variable {n} {where}"
    fo = _obs(fresh)
    if set(fo) != set(c["upd"]):
        return f"harness: node names of the rebuilt model differ {sorted(set(fo) ^ set(c['upd']))} {where}"
    for name, o in c["post"].items():
        if not o["outdated"] and o["shape"] is not None and not _close(o["value"], fo[name]["value"]):
            return (f"after simulate node {name} reports itself up to date with a value of shape {o['shape']}; a model built from "
                    f"scratch at the drawn values has shape {fo[name]['shape']}"
                    + ("" if o["shape"] != fo[name]["shape"] else f" and value {np.asarray(fo[name]['value']).ravel()[:3]} instead of {np.asarray(o['value']).ravel()[:3]}")
                    + f" {where}")
    for name, o in c["upd"].items():
        if o["outdated"]:
            return f"after simulate + update() node {name} is outdated {where}"
        if o["shape"] is not None and not _close(o["value"], fo[name]["value"]):
            return (f"after simulate + update() node {name} holds a value of shape {o['shape']}; a model built from scratch at the drawn "
                    f"values holds shape {fo[name]['shape']}"
                    + ("" if o["shape"] != fo[name]["shape"] else f", value {np.asarray(fo[name]['value']).ravel()[:3]} instead of {np.asarray(o['value']).ravel()[:3]}")
                    + f" (the model is not coherent) {where}")
        st = c["state"].get(name)
        if st is not None and (st["outdated"] or (o["shape"] is not None and st["shape"] != fo[name]["shape"])):
            return f"model.state[{name!r}] after simulate + update() has shape {st['shape']} / outdated={st['outdated']}, from scratch {fo[name]['shape']} {where}"
    t = c.get("twin")
    if t:
        if t["err"]:
            return f"simulate raises {t['err']} with auto_update={not c['auto']} {where}"
        for n in c["post_vars"]:
            if not _close(c["post_vars"][n], t["post_vars"][n]):
                return (f"the drawn {n} depends on the auto_update setting (shape {np.shape(np.asarray(c['post_vars'][n]))} with {c['auto']}, "
                        f"{np.shape(np.asarray(t['post_vars'][n]))} with {not c['auto']}) {where}")
    return None


def make_case(rnd, stratum):
    spec = gen_spec(rnd, stratum)
    ops, skip, auto = gen_ops(rnd, spec, stratum)
    seed = rnd.randrange(2 ** 31)
    try:
        c = run(spec, ops, skip, seed)
    except Exception as ex:
        import traceback
        return {"tfd": True, "spec": spec, "ops": ops, "skip": skip, "seed": seed, "stratum": stratum,
                "rfail": f"driving the model raises {ex!r:.300} ({traceback.format_exc().strip().splitlines()[-3].strip()}) "
                         f"[model {json.dumps(spec)}; operations {json.dumps(ops)}]"}
    c["stratum"] = stratum
    try:
        c["rfail"] = check(c)
    except Exception as ex:
        c["rfail"] = f"rebuilding the model at the drawn values raises {ex!r:.300} [model {json.dumps(spec)}; operations {json.dumps(ops)}]"
    for k in ("post", "upd", "state"):          # keep the replay small
        c[k] = {n: {kk: vv for kk, vv in o.items() if kk != "value"} for n, o in c[k].items()}
    return c


def corpus_cases():
    out = []
    for e in CORPUS + [CORPUS_DIAMOND]:
        c = run(e["spec"], e["ops"], e["skip"], e["seed"])
        c["stratum"] = "corpus"
        c["rfail"] = check(c)
        for k in ("post", "upd", "state"):
            c[k] = {n: {kk: vv for kk, vv in o.items() if kk != "value"} for n, o in c[k].items()}
        out.append(c)
    return out
