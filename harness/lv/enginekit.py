"""Reusable harness kit for the engine properties (C07, C08, C10).

* ``LoggingKernel`` - a goose kernel implemented in the harness (no hook in /repo).  Its kernel
  state is a registered pytree dataclass holding a fixed-size int32 log buffer; every call the
  engine makes (init_state, start_epoch, standard / adaptive transition, end_epoch, fast / slow
  tune, end_warmup) appends one row with everything the engine handed to the kernel: the epoch
  state (index, type, duration, thinning, time_before_epoch, time, time_in_epoch), whether a history
  was passed together with its length / first / last entry, the number of tuning infos handed to
  end_warmup, a cross-kernel clock carried in the model state, the chain id and the two uint32
  words of the PRNG key.  Works under jit / vmap / scan / cond.
  The kernel uses liesel's TransitionMixin / TuningMixin, so the dispatch on the epoch type
  (kernel.py) is part of what is observed.
  Each transition writes the stamp ``nth_epoch*1000 + time_in_epoch + 1`` into the position key the
  kernel owns (so the recorded history identifies the iterations it came from) and increments
  ``clock`` in the model state (so the order of the kernels inside one iteration is observable).
* ``build_engine`` - EngineBuilder + DictInterface model, n chains, n kernels; or the public
  ``Engine`` constructor when a JIT chunk other than the builder's gcd is asked for.
* ``drive`` - runs a list of operations ("append", cfg) / ("next",) / ("all",) against the engine.
* ``read_logs`` - reads the logs back through the public API only (``store_kernel_states``): one
  sentinel epoch is appended *after* everything was sampled and sampled too; the kernel states
  stored for its last iteration contain the complete log of the run under test; the sentinel's own
  rows (epoch index = len(schedule)) are cut off.
* ``derive_key`` - concrete key along a path of the splitting tree (jax.random.split).
"""
from __future__ import annotations

import logging
from dataclasses import dataclass

CAP = 192          # rows per kernel and chain
W = 18             # columns

# column indices
(C_METH, C_NTH, C_ETY, C_DUR, C_THIN, C_T0, C_TIME, C_TIN, C_HFLAG, C_HLEN, C_HFIRST, C_HLAST,
 C_NTUNE, C_CLOCK, C_CID, C_KEY0, C_KEY1, C_KIDX) = range(W)

M_INIT, M_START, M_TRANS_STD, M_TRANS_ADAPT, M_END, M_TUNE_FAST, M_TUNE_SLOW, M_ENDWARMUP = range(8)
METH_NAMES = ["init_state", "start_epoch", "standard_transition", "adaptive_transition", "end_epoch",
              "tune_fast", "tune_slow", "end_warmup"]
ETY_NAMES = ["Init", "Fast", "Slow", "Burnin", "Post"]

_cache: dict = {}


def _lib():
    """import JAX / liesel lazily and define the kernel classes once"""
    if _cache:
        return _cache
    import jax
    import jax.numpy as jnp
    import numpy as np
    import liesel.goose as gs
    from liesel.goose.epoch import EpochConfig, EpochType
    from liesel.goose.kernel import (DefaultTransitionInfo, DefaultTuningInfo, ModelMixin,
                                     TransitionMixin, TransitionOutcome, TuningMixin, TuningOutcome,
                                     WarmupOutcome)
    from liesel.goose.pytree import register_dataclass_as_pytree
    from liesel.goose.engine import Engine
    from liesel.goose.kernel_sequence import KernelSequence

    logging.getLogger("liesel").setLevel(logging.ERROR)

    @register_dataclass_as_pytree
    @dataclass
    class LogState:
        n: object      # int32 scalar: number of rows written (may exceed CAP: overflow is detected)
        buf: object    # int32 [CAP, W]

    def key_words(key):
        if hasattr(key, "dtype") and jnp.issubdtype(key.dtype, jax.dtypes.prng_key):
            key = jax.random.key_data(key)
        return jax.lax.bitcast_convert_type(jnp.asarray(key, dtype=jnp.uint32), jnp.int32)

    def i32(x):
        return jnp.asarray(x, dtype=jnp.int32)

    class LoggingKernel(ModelMixin, TransitionMixin, TuningMixin):
        error_book = {0: "no errors"}
        needs_history = False
        identifier = ""

        def __init__(self, idx: int, needs_history: bool = False):
            self.idx = idx
            self.position_keys = (f"p{idx}",)
            self.needs_history = needs_history
            self._model = None

        # --- logging -------------------------------------------------------------------------
        def _row(self, meth, key, model_state, epoch=None, hist=None, hist_given=False, ntune=-1):
            z = i32(0)
            kw = key_words(key)
            if epoch is None:
                ep = [i32(-1)] * 7
            else:
                ep = [i32(epoch.nth_epoch), i32(epoch.config.type), i32(epoch.config.duration),
                      i32(epoch.config.thinning), i32(epoch.time_before_epoch), i32(epoch.time),
                      i32(epoch.time_in_epoch)]
            if hist_given and hist is not None:
                h = hist[self.position_keys[0]]
                hl = h.shape[0]
                hv = [i32(1), i32(hl), i32(h[0]) if hl else i32(-1), i32(h[-1]) if hl else i32(-1)]
            else:
                hv = [z, i32(-1), i32(-1), i32(-1)]
            row = [i32(meth)] + ep + hv + [i32(ntune), i32(model_state["clock"]), i32(model_state["cid"]),
                                           kw[0], kw[1], i32(self.idx)]
            return jnp.stack(row)

        def _log(self, ks, row):
            buf = jax.lax.dynamic_update_slice(ks.buf, row[None, :], (jnp.minimum(ks.n, CAP - 1), i32(0)))
            return LogState(n=ks.n + 1, buf=buf)

        # --- kernel protocol -----------------------------------------------------------------
        def init_state(self, prng_key, model_state):
            ks = LogState(n=i32(0), buf=jnp.full((CAP, W), -7, dtype=jnp.int32))
            return self._log(ks, self._row(M_INIT, prng_key, model_state))

        def start_epoch(self, prng_key, kernel_state, model_state, epoch):
            return self._log(kernel_state, self._row(M_START, prng_key, model_state, epoch))

        def end_epoch(self, prng_key, kernel_state, model_state, epoch):
            return self._log(kernel_state, self._row(M_END, prng_key, model_state, epoch))

        def _trans(self, meth, prng_key, kernel_state, model_state, epoch):
            ks = self._log(kernel_state, self._row(meth, prng_key, model_state, epoch))
            stamp = i32(epoch.nth_epoch) * 1000 + i32(epoch.time_in_epoch) + 1
            pos = {self.position_keys[0]: stamp, "clock": i32(model_state["clock"]) + 1}
            new_state = self.model.update_state(pos, model_state)
            info = DefaultTransitionInfo(error_code=i32(0), acceptance_prob=jnp.float32(1.0),
                                         position_moved=i32(1))
            return TransitionOutcome(info, ks, new_state)

        def _standard_transition(self, prng_key, kernel_state, model_state, epoch):
            return self._trans(M_TRANS_STD, prng_key, kernel_state, model_state, epoch)

        def _adaptive_transition(self, prng_key, kernel_state, model_state, epoch):
            return self._trans(M_TRANS_ADAPT, prng_key, kernel_state, model_state, epoch)

        def _tune(self, meth, prng_key, kernel_state, model_state, epoch, history):
            ks = self._log(kernel_state, self._row(meth, prng_key, model_state, epoch, history, True))
            info = DefaultTuningInfo(error_code=i32(0), time=i32(epoch.time))
            return TuningOutcome(info, ks)

        def _tune_fast(self, prng_key, kernel_state, model_state, epoch, history):
            return self._tune(M_TUNE_FAST, prng_key, kernel_state, model_state, epoch, history)

        def _tune_slow(self, prng_key, kernel_state, model_state, epoch, history):
            return self._tune(M_TUNE_SLOW, prng_key, kernel_state, model_state, epoch, history)

        def end_warmup(self, prng_key, kernel_state, model_state, tuning_history):
            nt = 0 if tuning_history is None else int(jnp.shape(tuning_history.time)[0])
            ks = self._log(kernel_state, self._row(M_ENDWARMUP, prng_key, model_state, ntune=nt))
            return WarmupOutcome(error_code=i32(0), kernel_state=ks)

    _cache.update(jax=jax, jnp=jnp, np=np, gs=gs, EpochConfig=EpochConfig, EpochType=EpochType,
                  LoggingKernel=LoggingKernel, LogState=LogState, Engine=Engine, KernelSequence=KernelSequence)
    return _cache


# ------------------------------------------------------------------------------------------------
def epoch_config(cfg):
    """cfg = (type index 0..4, duration, thinning)"""
    L = _lib()
    return L["EpochConfig"](L["EpochType"](int(cfg[0])), int(cfg[1]), int(cfg[2]), None)


def initial_state(n_chains, n_kernels):
    L = _lib()
    jnp = L["jnp"]
    st = {"clock": jnp.zeros((n_chains,), dtype=jnp.int32),
          "cid": jnp.arange(n_chains, dtype=jnp.int32)}
    for k in range(n_kernels):
        st[f"p{k}"] = jnp.full((n_chains,), -1, dtype=jnp.int32)
    return st


def build_engine(init_cfgs, n_chains, needs, chunk=None, seed=1, via="auto"):
    """Engine with len(needs) logging kernels (needs[k] = needs_history of kernel k), the epochs
    ``init_cfgs`` already set, ``n_chains`` chains.  chunk=None: EngineBuilder.build() (JIT chunk =
    gcd of the durations); otherwise the public Engine constructor with the same ingredients the
    builder would pass.  Returns (engine, roots) where roots[c] is the PRNG key chain c starts from
    (list of two ints)."""
    L = _lib()
    jax, jnp, np, gs = L["jax"], L["jnp"], L["np"], L["gs"]
    kernels = [L["LoggingKernel"](k, bool(nh)) for k, nh in enumerate(needs)]
    model = gs.DictInterface(lambda st: jnp.float32(0.0))
    state = initial_state(n_chains, len(needs))
    builder = gs.EngineBuilder(seed=seed, num_chains=n_chains)
    builder.show_progress = False
    builder.store_kernel_states = True
    builder.set_model(model)
    for k in kernels:
        builder.add_kernel(k)
    builder.set_initial_values(state, multiple_chains=True)
    builder.set_epochs([epoch_config(c) for c in init_cfgs])
    engine_key = builder.engine_seed
    roots = np.asarray(jax.random.split(engine_key, n_chains)).astype(np.uint32)
    durs = [int(c[1]) for c in init_cfgs[1:]]
    use_builder = via == "builder" or (via == "auto" and chunk is None)
    if use_builder:
        if not durs:
            raise ValueError("EngineBuilder needs at least one sampled epoch to choose the JIT chunk")
        engine = builder.build()
    else:
        for idx, k in enumerate(kernels):
            k.set_model(model)
            k.identifier = f"kernel_{idx:02d}"
        engine = L["Engine"](seeds=jnp.asarray(roots), model_states=state,
                           kernel_sequence=L["KernelSequence"](kernels),
                           epoch_configs=[epoch_config(c) for c in init_cfgs],
                           jitted_sample_duration=int(chunk), model=model,
                           position_keys=[f"p{k}" for k in range(len(needs))],
                           store_kernel_states=True, show_progress=False)
    return engine, [[int(r[0]), int(r[1])] for r in roots]


def drive(engine, ops):
    """ops: list of ("append", cfg) | ("next",) | ("all",) | ("try", cfg).
    ("try", cfg) = append_epoch inside try/except RuntimeError (fault followed by continued use).
    Returns, for the "try" operations in order, whether append_epoch raised."""
    raised = []
    for op in ops:
        if op[0] == "append":
            engine.append_epoch(epoch_config(op[1]))
        elif op[0] == "try":
            try:
                engine.append_epoch(epoch_config(op[1]))
                raised.append(False)
            except RuntimeError:
                raised.append(True)
        elif op[0] == "next":
            engine.sample_next_epoch()
        elif op[0] == "all":
            engine.sample_all_epochs()
        else:
            raise ValueError(op)
    return raised


def sentinel_config(schedule, chunk):
    """the sentinel epoch read_logs appends: one JIT chunk of burn-in (posterior after a posterior epoch)"""
    last_ty = int(schedule[-1][0])
    return (4 if last_ty == 4 else 3, int(chunk), 1)


def read_logs(engine, schedule, chunk, cut_sentinel=True, sentinel=None):
    """-> logs[chain][kernel] = list of rows (lists of W python ints; key words as unsigned).
    Public API only: a sentinel epoch of duration ``chunk`` is appended and sampled *after* the run
    under test; the kernel states stored at its last iteration hold the whole log.
    cut_sentinel=False keeps the sentinel's own rows (everything up to each kernel's last transition;
    the caller then treats the sentinel as part of the schedule)."""
    L = _lib()
    np = L["np"]
    if sentinel is None:
        sentinel = sentinel_config(schedule, chunk)
    engine.append_epoch(epoch_config(sentinel))
    engine.sample_next_epoch()
    res = engine.get_results()
    ks = res.kernel_states.unwrap().combine_all().unwrap()
    n_sched = len(schedule)
    logs = None
    for kidx, st in enumerate(ks):
        n = np.asarray(st.n)[:, -1]
        buf = np.asarray(st.buf)[:, -1]
        if logs is None:
            logs = [[None] * len(ks) for _ in range(buf.shape[0])]
        for c in range(buf.shape[0]):
            if int(n[c]) > CAP:
                raise RuntimeError(f"log buffer overflow: {int(n[c])} rows > {CAP}")
            rows = []
            for r in buf[c, :int(n[c])]:
                r = [int(x) for x in r]
                r[C_KEY0] &= 0xFFFFFFFF
                r[C_KEY1] &= 0xFFFFFFFF
                rows.append(r)
            # cut the sentinel's rows: they are the trailing rows with epoch index n_sched
            while cut_sentinel and rows and rows[-1][C_NTH] == n_sched:
                rows.pop()
            logs[c][kidx] = rows
    return logs


def derive_key(root, path):
    """concrete key reached from ``root`` (two ints) along ``path`` = [(n, i), ...]:
    key(path ++ [(n, i)]) = jax.random.split(key(path), n)[i]"""
    L = _lib()
    jax, jnp, np = L["jax"], L["jnp"], L["np"]
    memo = _cache.setdefault("keymemo", {})
    k = (int(root[0]), int(root[1]))
    for (n, i) in path:
        ck = (k, int(n))
        if ck not in memo:
            memo[ck] = np.asarray(jax.random.split(jnp.asarray(k, dtype=jnp.uint32), int(n))).astype(np.uint32)
        ch = memo[ck][int(i)]
        k = (int(ch[0]), int(ch[1]))
    return [k[0], k[1]]


def describe_row(r):
    if r[C_METH] == M_INIT:
        return f"init_state(kernel {r[C_KIDX]})"
    if r[C_METH] == M_ENDWARMUP:
        return f"end_warmup(kernel {r[C_KIDX]}, tuning infos={r[C_NTUNE]})"
    ety = ETY_NAMES[r[C_ETY]] if 0 <= r[C_ETY] < 5 else str(r[C_ETY])
    s = (f"{METH_NAMES[r[C_METH]]}(kernel {r[C_KIDX]}, epoch #{r[C_NTH]} {ety} dur={r[C_DUR]} thin={r[C_THIN]}, "
         f"time={r[C_TIME]}, time_in_epoch={r[C_TIN]}")
    if r[C_METH] in (M_TUNE_FAST, M_TUNE_SLOW):
        s += f", history={'len %d [%d..%d]' % (r[C_HLEN], r[C_HFIRST], r[C_HLAST]) if r[C_HFLAG] else None}"
    return s + ")"
