#!/usr/bin/env python3
"""Run the registered check(s) against a seeded breaking change.

  tools/seeded.py run <seed-id> [--tier quick|thorough] [--inplace] [--props C01,C03]
  tools/seeded.py all [--tier quick]
  tools/seeded.py demo <seed-id>        # confirm the demonstration: passes on HEAD, fails with the patch

A seeded change lives in /verif/seeded/<seed-id>/ (patch.diff, demo.py, meta.json).  By default the
patch is applied to a scratch worktree of /repo's HEAD under /tmp (removed afterwards) and the check
is pointed at it with LV_REPO; --inplace applies it to /repo itself (git apply) and undoes it
afterwards (git checkout -- .), which is what the task statement describes - only do that when no
other check is running.  Results are written to seeded/<seed-id>/result.json.
"""
import json
import os
import subprocess
import sys
import time

VERIF = "/verif"
REPO = "/repo"
ENV = dict(os.environ, JAX_PLATFORMS="cpu", TQDM_DISABLE="1", PYTHONHASHSEED="0", TF_CPP_MIN_LOG_LEVEL="3")


def sh(cmd, **kw):
    return subprocess.run(cmd, shell=isinstance(cmd, str), stdout=subprocess.PIPE, stderr=subprocess.STDOUT, text=True, **kw)


def with_tree(sid, inplace):
    d = os.path.join(VERIF, "seeded", sid)
    patch = os.path.join(d, "patch.diff")
    if inplace:
        r = sh(["git", "-C", REPO, "apply", patch])
        if r.returncode:
            raise SystemExit(f"patch does not apply to /repo: {r.stdout}")
        return REPO, lambda: sh(["git", "-C", REPO, "checkout", "--", "."])
    wt = f"/tmp/seed_wt_{sid.replace('/', '_')}_{os.getpid()}"
    sh(["git", "-C", REPO, "worktree", "remove", "--force", wt])
    r = sh(["git", "-C", REPO, "worktree", "add", "--detach", wt, "HEAD"])
    if r.returncode:
        raise SystemExit(r.stdout)
    r = sh(["git", "-C", wt, "apply", patch])
    if r.returncode:
        sh(["git", "-C", REPO, "worktree", "remove", "--force", wt])
        raise SystemExit(f"patch does not apply: {r.stdout}")
    return wt, lambda: sh(["git", "-C", REPO, "worktree", "remove", "--force", wt])


def run(sid, tier="quick", inplace=False, props=None):
    d = os.path.join(VERIF, "seeded", sid)
    meta = json.load(open(os.path.join(d, "meta.json")))
    props = props or meta.get("checks") or [meta["property"]]
    tree, undo = with_tree(sid, inplace)
    out = {"seed": sid, "tier": tier, "tree": "inplace" if inplace else "worktree", "checks": {}}
    try:
        for p in props:
            t0 = time.time()
            env = dict(ENV, LV_REPO=tree, LV_EVIDENCE_DIR="/verif/.work/evidence_scratch")
            r = sh([os.path.join(VERIF, "check"), p, "--tier", tier], env=env, cwd=VERIF)
            viol = [l for l in r.stdout.splitlines() if l.startswith("VIOLATION")]
            known = [l for l in r.stdout.splitlines() if l.startswith("KNOWN-FINDING")]
            replay_txt = None
            if viol:
                path = viol[0].split("replay=")[1].split()[0]
                try:
                    rp = json.load(open(path))
                    replay_txt = json.dumps(rp)[:1500]
                except Exception:
                    pass
            out["checks"][p] = {"exit": r.returncode, "violations": viol, "known": len(known),
                                "detected": r.returncode == 1 and bool(viol),
                                "with_failing_input": bool(viol) and not any("no-failing-input-found" in v for v in viol),
                                "replay_excerpt": replay_txt, "wall_s": round(time.time() - t0, 1)}
            print(sid, p, "exit", r.returncode, viol[:1])
    finally:
        undo()
    # merge with earlier runs of other checks against the same seeded change
    rp = os.path.join(d, f"result_{tier}.json")
    if os.path.exists(rp):
        try:
            prev = json.load(open(rp))
            merged = dict(prev.get("checks", {}))
            merged.update(out["checks"])
            out["checks"] = merged
        except Exception:
            pass
    json.dump(out, open(rp, "w"), indent=1)
    return out


def demo(sid):
    d = os.path.join(VERIF, "seeded", sid)
    prog = os.path.join(d, "demo.py")
    res = {}
    for label, patched in (("head", False), ("patched", True)):
        wt = f"/tmp/seed_demo_{os.getpid()}"
        sh(["git", "-C", REPO, "worktree", "remove", "--force", wt])
        sh(["git", "-C", REPO, "worktree", "add", "--detach", wt, "HEAD"])
        if patched:
            r = sh(["git", "-C", wt, "apply", os.path.join(d, "patch.diff")])
            if r.returncode:
                print("patch does not apply:", r.stdout)
        r = sh(["/venv/bin/python", prog], env=dict(ENV, PYTHONPATH=wt), cwd=wt, timeout=900)
        res[label] = r.returncode
        sh(["git", "-C", REPO, "worktree", "remove", "--force", wt])
    ok = res["head"] == 0 and res["patched"] != 0
    print(sid, "demo", res, "OK" if ok else "NOT CONFIRMED")
    return ok


def confirm(sid):
    """independent confirmation of a seeded change: patch applies to HEAD, the full repo test suite still
    passes with it, the demonstration passes on HEAD and fails with the patch"""
    d = os.path.join(VERIF, "seeded", sid)
    wt = f"/tmp/seed_confirm_{sid}_{os.getpid()}"
    sh(["git", "-C", REPO, "worktree", "remove", "--force", wt])
    sh(["git", "-C", REPO, "worktree", "add", "--detach", wt, "HEAD"])
    res = {"seed": sid, "head": sh(["git", "-C", REPO, "rev-parse", "--short", "HEAD"]).stdout.strip()}
    try:
        env = dict(ENV, PYTHONPATH=wt)
        r = sh(["/venv/bin/python", os.path.join(d, "demo.py")], env=env, cwd=wt, timeout=1200)
        res["demo_on_head_exit"] = r.returncode
        r = sh(["git", "-C", wt, "apply", os.path.join(d, "patch.diff")])
        res["patch_applies"] = r.returncode == 0
        r = sh(["/venv/bin/python", os.path.join(d, "demo.py")], env=env, cwd=wt, timeout=1200)
        res["demo_on_patched_exit"] = r.returncode
        res["demo_tail"] = r.stdout.strip().splitlines()[-2:]
        r = sh("/venv/bin/python -m pytest -q -p no:cacheprovider --timeout=900 tests 2>&1 | tail -1", env=env, cwd=wt, timeout=3000)
        res["pytest_tail"] = r.stdout.strip().splitlines()[-1:]
        import re
        t = res["pytest_tail"][0] if res["pytest_tail"] else ""
        res["tests_pass"] = bool(re.search(r"\b373 passed\b", t)) and not re.search(r"\b\d+ (failed|error)", t)
    finally:
        sh(["git", "-C", REPO, "worktree", "remove", "--force", wt])
    res["confirmed"] = bool(res.get("patch_applies") and res.get("tests_pass") and res.get("demo_on_head_exit") == 0
                            and res.get("demo_on_patched_exit") not in (0, None))
    json.dump(res, open(os.path.join(d, "confirm.json"), "w"), indent=1)
    print(sid, "CONFIRMED" if res["confirmed"] else "NOT CONFIRMED", res.get("pytest_tail"))
    return res["confirmed"]


if __name__ == "__main__":
    a = sys.argv[1:]
    tier = a[a.index("--tier") + 1] if "--tier" in a else "quick"
    props = a[a.index("--props") + 1].split(",") if "--props" in a else None
    if a[0] == "run":
        run(a[1], tier, "--inplace" in a, props)
    elif a[0] == "confirm":
        sys.exit(0 if confirm(a[1]) else 1)
    elif a[0] == "demo":
        sys.exit(0 if demo(a[1]) else 1)
    elif a[0] == "all":
        # tools/seeded.py all [--jobs N] [--only C07,C08]   (parallel runs use scratch worktrees)
        jobs = int(a[a.index("--jobs") + 1]) if "--jobs" in a else 1
        only = a[a.index("--only") + 1].split(",") if "--only" in a else None
        sids = [sid for sid in sorted(os.listdir(os.path.join(VERIF, "seeded")))
                if os.path.exists(os.path.join(VERIF, "seeded", sid, "patch.diff"))
                and (only is None or sid.split("-")[0] in only)]
        if jobs > 1 and "--inplace" not in a:
            from concurrent.futures import ThreadPoolExecutor
            with ThreadPoolExecutor(jobs) as ex:
                list(ex.map(lambda sid: run(sid, tier, False, props), sids))
        else:
            for sid in sids:
                run(sid, tier, "--inplace" in a, props)
