#!/usr/bin/env python3
"""py2gallina_c11 - a small FAIL-CLOSED translator from the Python source of liesel's dual averaging
(liesel/goose/da.py: da_init, da_step, da_finalize) and of TransitionMixin.transition
(liesel/goose/kernel.py) to Gallina over the real numbers, used by the C11 check (harness/lv/c11.py ->
c11_tie.py) on every run to re-establish the C11 theorems for the code as it reads now.

The source is parsed with `ast`.  Every number is a real number (Coq `R`): Python ints, floats and JAX
scalars are read as the real numbers they denote, float literals as the decimal fractions written
(`0.8` is 4/5).  This is the reading the hand-written model (coq/Goose/DA.v) has; rounding is covered
by the behavioural correspondence (tolerances), not by this tie.

LIBRARY-CALL TABLE (the complete list; `np` = a module-level alias of jax.numpy / numpy / math):
    np.log(x)            -> ln x             (meaningful for x > 0, as in the model)
    np.exp(x)            -> exp x
    np.sqrt(x)           -> sqrt x           (Coq's sqrt is 0 for x < 0; the code takes sqrt of t >= 1)
    x ** y               -> Rpower x y       (= exp (y * ln x); meaningful for x > 0: t = time_in_epoch + 1 >= 1)
    x ** n, n a literal natural number -> x ^ n
    np.power(x, y)       -> Rpower x y
    np.where(c, a, b)    -> if c then a else b        (scalars)
    a if c else b        -> if c then a else b
    np.minimum / maximum -> Rmin / Rmax ;  np.abs / np.absolute / abs -> Rabs
    np.logical_and / logical_or / logical_not -> andb / orb / negb
    x < y, <=, >, >=, ==, != (one operator, two numbers) -> rltb / rleb / rgtb / rgeb / reqb / rneb
    jax.lax.cond(p, f, g, *ops)  -> if p then f ops else g ops           (kernel.py only)
    EpochType.is_adaptation(t)   -> gen_is_adaptation t (translated from epoch.py by tools/py2gallina.py)
Field table (DAKernelState protocol -> record dastate of DA.v): step_size -> step, error_sum -> esum,
log_avg_step_size -> lavg, mu -> mu.  A call of any other function, an access to any other attribute, or
any construct outside the subset below raises `Unsupported` with file:line - nothing is guessed.

SUPPORTED SUBSET (da.py functions)
  signature    def f(kernel_state: DAKernelState, <numeric parameters with optional numeric literal
               defaults>) -> None ; no decorators, no * / ** / keyword-only parameters
  statements   docstring, `pass`; `x = e`, `x: T = e`, `x op= e` (op in + - * /) on locals;
               `ks = kernel_state` (an alias of the state object); `<state>.<field> = e`,
               `<state>.<field> op= e`; `if c: ... else: ...` over such statements; a final bare
               `return` / `return None`
  expressions  int / float literals, locals, parameters, `<state>.<field>` (its current value),
               unary + -, `+ - * / **`, the table above, `not / and / or` on booleans
  module       docstring, imports, the DAKernelState Protocol class (annotated fields only), function
               definitions, each translated function defined exactly once.  Anything else at module
               level (assignments, decorators, conditional definitions, monkeypatching) is refused,
               because it could change what the translated text means.
An in-place update of a field becomes a `let` that shadows the field's previous value; the function
returns the record of the final field values.

Command line:  py2gallina_c11.py <repo-root>      prints the generated definitions.
"""
from __future__ import annotations

import ast
import hashlib
import importlib.util
import os
import sys
from fractions import Fraction

DA_PY = "liesel/goose/da.py"
KERNEL_PY = "liesel/goose/kernel.py"

# DAKernelState field -> projection of the model's record, in the order of the model's constructor mkDA
FIELDS = [("step_size", "step"), ("error_sum", "esum"), ("log_avg_step_size", "lavg"), ("mu", "mu")]
FIELD_PROJ = dict(FIELDS)
NUMERIC_MODULES = {"jax.numpy", "numpy", "math"}

UNARY_CALLS = {"log": "ln", "exp": "exp", "sqrt": "sqrt", "abs": "Rabs", "absolute": "Rabs"}
BINARY_CALLS = {"power": "Rpower", "minimum": "Rmin", "maximum": "Rmax"}
BOOL_CALLS = {"logical_and": ("andb", 2), "logical_or": ("orb", 2), "logical_not": ("negb", 1)}
CMP = {ast.Lt: "rltb", ast.LtE: "rleb", ast.Gt: "rgtb", ast.GtE: "rgeb", ast.Eq: "reqb", ast.NotEq: "rneb"}
ARITH = {ast.Add: "+", ast.Sub: "-", ast.Mult: "*", ast.Div: "/"}

R, B = "R", "bool"


class Unsupported(Exception):
    pass


def rlit(fr: Fraction) -> str:
    n, d = fr.numerator, fr.denominator
    if d == 1:
        return f"({n})" if n < 0 else str(n)
    return f"({n} / {d})"


class Module:
    def __init__(self, root, rel):
        self.rel = rel
        self.path = os.path.join(root, rel)
        try:
            self.src = open(self.path, encoding="utf8").read()
        except OSError as ex:
            raise Unsupported(f"{rel}: cannot read: {ex}")
        try:
            self.tree = ast.parse(self.src, filename=self.path)
        except SyntaxError as ex:
            raise Unsupported(f"{rel}:{ex.lineno}: syntax error")
        self.aliases = {}       # local module name -> dotted module it stands for
        self.from_names = {}    # imported name -> (module, original name)
        for n in self.tree.body:
            if isinstance(n, ast.Import):
                for a in n.names:
                    if a.asname:
                        self.aliases[a.asname] = a.name
                    else:
                        self.aliases[a.name.split(".")[0]] = a.name.split(".")[0]
            elif isinstance(n, ast.ImportFrom):
                for a in n.names:
                    self.from_names[a.asname or a.name] = ((n.module or "") if not n.level else "." * n.level + (n.module or ""), a.name)

    def fail(self, node, what):
        raise Unsupported(f"{self.rel}:{getattr(node, 'lineno', '?')}: unsupported: {what}")

    def info(self, node, name):
        seg = ast.get_source_segment(self.src, node) or ""
        return {"file": self.rel, "function": name, "lines": [node.lineno, node.end_lineno],
                "sha256": hashlib.sha256(seg.encode()).hexdigest()}

    def numeric_alias(self, name):
        return self.aliases.get(name) in NUMERIC_MODULES


def is_doc(s):
    return isinstance(s, ast.Expr) and isinstance(s.value, ast.Constant) and isinstance(s.value.value, str)


def check_da_module(m: Module, wanted):
    """nothing at module level of da.py may change the meaning of the translated text"""
    seen = {}
    for n in m.tree.body:
        if is_doc(n) or isinstance(n, (ast.Import, ast.ImportFrom)):
            continue
        if isinstance(n, ast.ClassDef):
            if n.name != "DAKernelState":
                m.fail(n, f"class {n.name} in da.py")
            if n.decorator_list or n.keywords:
                m.fail(n, "decorated class / class keywords")
            names = []
            for st in n.body:
                if is_doc(st) or isinstance(st, ast.Pass):
                    continue
                if isinstance(st, ast.AnnAssign) and isinstance(st.target, ast.Name) and st.value is None:
                    names.append(st.target.id)
                    continue
                m.fail(st, "DAKernelState member that is not an annotated field")
            if sorted(names) != sorted(FIELD_PROJ):
                m.fail(n, f"DAKernelState fields are {names}, the field table knows {sorted(FIELD_PROJ)}")
            continue
        if isinstance(n, ast.FunctionDef):
            if n.name in seen:
                m.fail(n, f"{n.name} defined twice")
            seen[n.name] = n
            continue
        m.fail(n, "module-level statement " + type(n).__name__)
    for w in wanted:
        if w not in seen:
            raise Unsupported(f"{m.rel}: function {w} not found at module level")
    for name in list(m.aliases) + list(m.from_names):
        if name in seen:
            raise Unsupported(f"{m.rel}: {name} is both imported and defined")
    return seen


class Fn:
    """one function over the four fields of a DAKernelState"""

    def __init__(self, m: Module, node: ast.FunctionDef):
        self.m, self.node = m, node
        self.env = {}            # python local -> type (R / bool)
        self.state_names = set()  # names bound to the state object
        self.lines = []

    def fail(self, node, what):
        self.m.fail(node, what)

    @staticmethod
    def v(name):
        return "v_" + name

    @staticmethod
    def f(field):
        return "f_" + field

    # ---- expressions -------------------------------------------------------------------------
    def num(self, node):
        s, ty = self.expr(node)
        if ty != R:
            self.fail(node, "a boolean where a number is needed: " + ast.unparse(node)[:50])
        return s

    def boolean(self, node):
        s, ty = self.expr(node)
        if ty != B:
            self.fail(node, "a number where a condition is needed (truthiness of numbers is not translated): " + ast.unparse(node)[:50])
        return s

    def field_of(self, node):
        """<state>.<field> -> field name, else None"""
        if isinstance(node, ast.Attribute) and isinstance(node.value, ast.Name) and node.value.id in self.state_names:
            if node.attr not in FIELD_PROJ:
                self.fail(node, f"attribute .{node.attr} of the kernel state (not in the field table)")
            return node.attr
        return None

    def expr(self, e):
        if isinstance(e, ast.Constant):
            if isinstance(e.value, bool):
                return ("true" if e.value else "false"), B
            if isinstance(e.value, int):
                return rlit(Fraction(e.value)), R
            if isinstance(e.value, float):
                if e.value != e.value or e.value in (float("inf"), float("-inf")):
                    self.fail(e, "non-finite float literal")
                return rlit(Fraction(repr(e.value))), R
            self.fail(e, "constant " + repr(e.value)[:30])
        if isinstance(e, ast.Name):
            if e.id in self.state_names:
                self.fail(e, "the kernel state object used as a value")
            if e.id in self.env:
                return self.v(e.id), self.env[e.id]
            self.fail(e, f"name {e.id} (not a parameter or a local assigned before)")
        if isinstance(e, ast.Attribute):
            fld = self.field_of(e)
            if fld is not None:
                return self.f(fld), R
            self.fail(e, "attribute " + ast.unparse(e)[:50])
        if isinstance(e, ast.UnaryOp):
            if isinstance(e.op, ast.USub):
                return f"(- {self.num(e.operand)})", R
            if isinstance(e.op, ast.UAdd):
                return self.num(e.operand), R
            if isinstance(e.op, ast.Not):
                return f"(negb {self.boolean(e.operand)})", B
            self.fail(e, "unary operator " + type(e.op).__name__)
        if isinstance(e, ast.BinOp):
            if type(e.op) in ARITH:
                return f"({self.num(e.left)} {ARITH[type(e.op)]} {self.num(e.right)})", R
            if isinstance(e.op, ast.Pow):
                r = e.right
                if isinstance(r, ast.Constant) and type(r.value) is int and 0 <= r.value <= 64:
                    return f"({self.num(e.left)} ^ {r.value})", R
                return f"(Rpower {self.num(e.left)} {self.num(e.right)})", R
            self.fail(e, "binary operator " + type(e.op).__name__)
        if isinstance(e, ast.Compare):
            if len(e.ops) != 1 or type(e.ops[0]) not in CMP:
                self.fail(e, "comparison " + ast.unparse(e)[:50])
            return f"({CMP[type(e.ops[0])]} {self.num(e.left)} {self.num(e.comparators[0])})", B
        if isinstance(e, ast.BoolOp):
            op = "andb" if isinstance(e.op, ast.And) else "orb"
            parts = [self.boolean(x) for x in e.values]
            s = parts[-1]
            for p in reversed(parts[:-1]):
                s = f"({op} {p} {s})"
            return s, B
        if isinstance(e, ast.IfExp):
            c = self.boolean(e.test)
            a, ta = self.expr(e.body)
            b, tb = self.expr(e.orelse)
            if ta != tb:
                self.fail(e, "conditional expression with branches of different types")
            return f"(if {c} then {a} else {b})", ta
        if isinstance(e, ast.Call):
            return self.call(e)
        self.fail(e, "expression " + type(e).__name__)

    def call(self, e: ast.Call):
        if e.keywords or any(isinstance(a, ast.Starred) for a in e.args):
            self.fail(e, "call with keyword / starred arguments: " + ast.unparse(e)[:50])
        fn = None
        f = e.func
        if isinstance(f, ast.Attribute) and isinstance(f.value, ast.Name) and f.value.id not in self.env \
                and f.value.id not in self.state_names and self.m.numeric_alias(f.value.id):
            fn = f.attr
        elif isinstance(f, ast.Name) and f.id == "abs" and "abs" not in self.env and "abs" not in self.m.from_names \
                and "abs" not in self.m.aliases:
            fn = "abs"
        if fn is None:
            self.fail(e, "call of " + ast.unparse(f)[:50] + " (not in the library-call table)")
        n = len(e.args)
        if fn in UNARY_CALLS and n == 1:
            return f"({UNARY_CALLS[fn]} {self.num(e.args[0])})", R
        if fn in BINARY_CALLS and n == 2:
            return f"({BINARY_CALLS[fn]} {self.num(e.args[0])} {self.num(e.args[1])})", R
        if fn in BOOL_CALLS and n == BOOL_CALLS[fn][1]:
            return "(" + BOOL_CALLS[fn][0] + " " + " ".join(self.boolean(a) for a in e.args) + ")", B
        if fn == "where" and n == 3:
            c = self.boolean(e.args[0])
            a, ta = self.expr(e.args[1])
            b, tb = self.expr(e.args[2])
            if ta != tb:
                self.fail(e, "where with branches of different types")
            return f"(if {c} then {a} else {b})", ta
        self.fail(e, f"call of {ast.unparse(f)[:50]} with {n} arguments (not in the library-call table)")

    # ---- statements ----------------------------------------------------------------------------
    def target(self, t):
        """-> ('v', name) or ('f', field)"""
        if isinstance(t, ast.Name):
            if t.id in self.state_names:
                self.fail(t, "the name of the kernel state object is re-bound")
            if self.m.numeric_alias(t.id):
                self.fail(t, f"the module alias {t.id} is re-bound")
            return ("v", t.id)
        fld = self.field_of(t)
        if fld is not None:
            return ("f", fld)
        self.fail(t, "assignment target " + ast.unparse(t)[:50])

    def place(self, key):
        return self.v(key[1]) if key[0] == "v" else self.f(key[1])

    def bind(self, key, s, ty, node, out):
        if key[0] == "f":
            if ty != R:
                self.fail(node, "a boolean stored in a field of the kernel state")
        else:
            if key[1] in self.env and self.env[key[1]] != ty:
                self.fail(node, f"local {key[1]} changes its type")
            self.env[key[1]] = ty
        out.append(f"let {self.place(key)} := {s} in")

    def assigned(self, stmts):
        keys = []
        for s in stmts:
            if isinstance(s, ast.Assign) and len(s.targets) == 1:
                t = s.targets[0]
                if isinstance(t, ast.Name) and isinstance(s.value, ast.Name) and s.value.id in self.state_names:
                    self.fail(s, "alias of the kernel state introduced inside a branch")
                k = self.target(t)
            elif isinstance(s, (ast.AugAssign, ast.AnnAssign)):
                k = self.target(s.target)
            elif isinstance(s, ast.If):
                for k in self.assigned(list(s.body) + list(s.orelse)):
                    if k not in keys:
                        keys.append(k)
                continue
            else:
                continue
            if k not in keys:
                keys.append(k)
        return keys

    def stmts(self, body, out, top):
        for i, s in enumerate(body):
            last = top and i == len(body) - 1
            if is_doc(s) or isinstance(s, ast.Pass):
                continue
            if isinstance(s, ast.Return):
                if not last:
                    self.fail(s, "return that is not the last statement of the function")
                if s.value is not None and not (isinstance(s.value, ast.Constant) and s.value.value is None):
                    self.fail(s, "return of a value")
                continue
            if isinstance(s, ast.Assign):
                if len(s.targets) != 1:
                    self.fail(s, "multiple assignment targets")
                t = s.targets[0]
                if isinstance(t, ast.Name) and isinstance(s.value, ast.Name) and s.value.id in self.state_names:
                    if not top:
                        self.fail(s, "alias of the kernel state introduced inside a branch")
                    if t.id in self.env:
                        self.fail(s, f"{t.id} was a number and becomes an alias of the kernel state")
                    self.state_names.add(t.id)
                    continue
                key = self.target(t)
                v, ty = self.expr(s.value)
                self.bind(key, v, ty, s, out)
                continue
            if isinstance(s, ast.AnnAssign):
                if s.value is None or not isinstance(s.target, ast.Name):
                    self.fail(s, "annotated assignment without value / to a field")
                key = self.target(s.target)
                v, ty = self.expr(s.value)
                self.bind(key, v, ty, s, out)
                continue
            if isinstance(s, ast.AugAssign):
                if type(s.op) not in ARITH:
                    self.fail(s, "augmented assignment " + type(s.op).__name__)
                key = self.target(s.target)
                if key[0] == "v" and self.env.get(key[1]) != R:
                    self.fail(s, f"{key[1]} is not a number assigned before")
                v = f"({self.place(key)} {ARITH[type(s.op)]} {self.num(s.value)})"
                self.bind(key, v, R, s, out)
                continue
            if isinstance(s, ast.If):
                self.if_(s, out)
                continue
            self.fail(s, "statement " + type(s).__name__ + ": " + ast.unparse(s)[:50])

    def if_(self, s: ast.If, out):
        c = self.boolean(s.test)
        keys = self.assigned(list(s.body) + list(s.orelse))
        for k in keys:
            if k[0] == "v" and k[1] not in self.env:
                self.fail(s, f"local {k[1]} is first assigned inside a branch")
        if not keys:
            for st in list(s.body) + list(s.orelse):
                if not (is_doc(st) or isinstance(st, ast.Pass)):
                    self.fail(st, "statement without effect on locals or fields inside a branch")
            return
        pat = self.place(keys[0]) if len(keys) == 1 else "(" + ", ".join(self.place(k) for k in keys) + ")"
        env0 = dict(self.env)
        a, b = [], []
        self.stmts(s.body, a, False)
        env1 = dict(self.env)
        self.env = dict(env0)
        self.stmts(s.orelse, b, False)
        if self.env != env1 or env1 != env0:
            self.fail(s, "branches change the set or types of locals")
        ta = " ".join(a + [pat])
        tb = " ".join(b + [pat])
        lhs = pat if len(keys) == 1 else "'" + pat
        out.append(f"let {lhs} := if {c} then ({ta}) else ({tb}) in")

    # ---- whole function ---------------------------------------------------------------------
    def translate(self, gname):
        n, m = self.node, self.m
        if n.decorator_list:
            m.fail(n, "decorated function: " + ast.unparse(n.decorator_list[0])[:40])
        a = n.args
        if a.vararg or a.kwarg or a.kwonlyargs or a.posonlyargs or a.kw_defaults:
            m.fail(n, "parameter list with * / ** / keyword-only / positional-only parameters")
        if n.returns is not None and ast.unparse(n.returns) != "None":
            m.fail(n, "return annotation " + ast.unparse(n.returns))
        if not a.args:
            m.fail(n, "no parameters")
        st = a.args[0]
        if st.annotation is None or ast.unparse(st.annotation) != "DAKernelState":
            m.fail(n, f"first parameter {st.arg} is not annotated DAKernelState")
        self.state_names.add(st.arg)
        params = []
        for p in a.args[1:]:
            ann = ast.unparse(p.annotation) if p.annotation is not None else None
            if ann not in ("float", "int", "Array", "jax.Array", "float | Array", "float | jax.Array"):
                m.fail(n, f"parameter {p.arg} annotated {ann} (not a number)")
            if m.numeric_alias(p.arg) or p.arg in self.state_names:
                m.fail(n, f"parameter {p.arg} shadows a module alias / the state")
            self.env[p.arg] = R
            params.append(p.arg)
        if len(a.defaults) > len(params):
            m.fail(n, "default value for the kernel state")
        defaults = []
        for d in a.defaults:
            neg = False
            if isinstance(d, ast.UnaryOp) and isinstance(d.op, ast.USub):
                neg, d = True, d.operand
            if not (isinstance(d, ast.Constant) and type(d.value) in (int, float)) or d.value != d.value \
                    or d.value in (float("inf"), float("-inf")):
                m.fail(n, "default value that is not a finite numeric literal")
            fr = Fraction(repr(d.value)) if isinstance(d.value, float) else Fraction(d.value)
            defaults.append(-fr if neg else fr)
        for sub in ast.walk(n):
            if sub is not n and isinstance(sub, (ast.FunctionDef, ast.AsyncFunctionDef, ast.Lambda, ast.ClassDef,
                                                 ast.Global, ast.Nonlocal, ast.Try, ast.With, ast.For, ast.While,
                                                 ast.Delete, ast.Import, ast.ImportFrom, ast.Yield, ast.YieldFrom,
                                                 ast.Await, ast.NamedExpr, ast.Raise, ast.Assert)):
                m.fail(sub, type(sub).__name__ + " inside " + n.name)
        out = [f"let {self.f(py)} := {proj} ks_ in" for py, proj in FIELDS]
        self.stmts(n.body, out, True)
        out.append("mkDA " + " ".join(self.f(py) for py, _ in FIELDS))
        ptxt = f" ({' '.join(self.v(p) for p in params)} : R)" if params else ""
        txt = f"Definition {gname} (ks_ : dastate){ptxt} : dastate :=\n  " + "\n  ".join(out) + "."
        info = m.info(n, n.name)
        info["params"] = params
        info["defaults"] = [str(d) for d in defaults]
        if defaults:
            txt += (f"\nDefinition {gname}_defaults : list R := [" + "; ".join(rlit(d) for d in defaults) + "].")
        return txt, info


# -------------------------------------------------------------------------------------------------
# TransitionMixin.transition
# -------------------------------------------------------------------------------------------------
def translate_transition(root):
    """def transition(self, <operands>): p = EpochType.is_adaptation(epoch.config.type);
       outcome = jax.lax.cond(p, self._adaptive_transition, self._standard_transition, <operands>); return outcome"""
    m = Module(root, KERNEL_PY)
    cs = [n for n in m.tree.body if isinstance(n, ast.ClassDef) and n.name == "TransitionMixin"]
    if len(cs) != 1:
        raise Unsupported(f"{m.rel}: class TransitionMixin not found exactly once")
    cls = cs[0]
    if cls.decorator_list or cls.keywords:
        m.fail(cls, "decorated class / class keywords")
    fs = [n for n in cls.body if isinstance(n, ast.FunctionDef) and n.name == "transition"]
    if len(fs) != 1:
        raise Unsupported(f"{m.rel}: TransitionMixin.transition not found exactly once")
    node = fs[0]
    for d in node.decorator_list:
        # usedocs(...) only copies a docstring (liesel/docs.py); anything else is refused
        if not (isinstance(d, ast.Call) and isinstance(d.func, ast.Name) and d.func.id == "usedocs"):
            m.fail(node, "decorator " + ast.unparse(d)[:40])
    a = node.args
    if a.vararg or a.kwarg or a.kwonlyargs or a.posonlyargs or a.defaults:
        m.fail(node, "parameter list with * / ** / keyword-only / defaults")
    names = [x.arg for x in a.args]
    if not names or names[0] != "self":
        m.fail(node, "method without self")
    operands = names[1:]
    if "epoch" not in operands:
        m.fail(node, "no parameter named epoch")
    if m.from_names.get("EpochType", ("", ""))[1] != "EpochType" or not m.from_names["EpochType"][0].endswith("epoch"):
        raise Unsupported(f"{m.rel}: EpochType is not imported from the epoch module")
    if m.aliases.get("jax") != "jax":
        raise Unsupported(f"{m.rel}: jax is not `import jax`")
    # no other module-level definition may re-bind the names used
    for n in m.tree.body:
        if isinstance(n, (ast.FunctionDef, ast.ClassDef)) and n.name in ("EpochType", "jax"):
            m.fail(n, f"{n.name} re-defined in kernel.py")
        if isinstance(n, (ast.Assign, ast.AugAssign, ast.AnnAssign)):
            tg = ast.unparse(n.targets[0] if isinstance(n, ast.Assign) else n.target)
            if tg.split(".")[0] in ("EpochType", "jax"):
                m.fail(n, f"{tg} assigned at module level")
    env = {}     # local -> ('bool', text) | ('out', text)
    methods = []
    ret = None
    body = [s for s in node.body if not is_doc(s)]
    lets = []
    for i, s in enumerate(body):
        if isinstance(s, ast.Return):
            if i != len(body) - 1 or not isinstance(s.value, ast.Name) or env.get(s.value.id, ("", ""))[0] != "out":
                m.fail(s, "return that is not the final `return <outcome>`")
            ret = "v_" + s.value.id
            continue
        if isinstance(s, ast.AnnAssign) and s.value is not None and isinstance(s.target, ast.Name):
            tgt, val = s.target.id, s.value
        elif isinstance(s, ast.Assign) and len(s.targets) == 1 and isinstance(s.targets[0], ast.Name):
            tgt, val = s.targets[0].id, s.value
        else:
            m.fail(s, "statement " + ast.unparse(s)[:50])
        if tgt in names or tgt in ("jax", "EpochType"):
            m.fail(s, f"{tgt} re-bound")
        if not isinstance(val, ast.Call) or val.keywords or any(isinstance(x, ast.Starred) for x in val.args):
            m.fail(s, "right-hand side that is not a plain call")
        fn = ast.unparse(val.func)
        if fn == "EpochType.is_adaptation":
            if len(val.args) != 1 or ast.unparse(val.args[0]) != "epoch.config.type":
                m.fail(s, "is_adaptation of something other than epoch.config.type")
            env[tgt] = ("bool", "v_" + tgt)
            lets.append(f"let v_{tgt} := gen_is_adaptation epoch_type in")
        elif fn in ("jax.lax.cond", "lax.cond") and (fn.startswith("jax.") or m.from_names.get("lax", ("", ""))[0] == "jax"):
            if len(val.args) < 3:
                m.fail(s, "lax.cond with fewer than three arguments")
            p, f1, f2 = val.args[:3]
            if not isinstance(p, ast.Name) or env.get(p.id, ("", ""))[0] != "bool":
                m.fail(s, "lax.cond predicate that is not a local boolean")
            for fx in (f1, f2):
                if not (isinstance(fx, ast.Attribute) and isinstance(fx.value, ast.Name) and fx.value.id == "self"):
                    m.fail(s, "lax.cond branch that is not a method of self")
                if fx.attr not in ("_adaptive_transition", "_standard_transition"):
                    m.fail(s, f"lax.cond branch self.{fx.attr}")
            ops = [ast.unparse(x) for x in val.args[3:]]
            if ops != operands:
                m.fail(s, f"lax.cond operands {ops} are not the method's parameters {operands} in order")
            methods = [f1.attr, f2.attr]
            env[tgt] = ("out", "v_" + tgt)
            lets.append(f"let v_{tgt} := if v_{p.id} then self{f1.attr} operands else self{f2.attr} operands in")
        else:
            m.fail(s, f"call of {fn[:50]} (not in the library-call table)")
    if ret is None or not methods:
        m.fail(node, "transition does not end in `return <result of lax.cond>`")
    for sub in ast.walk(node):
        if sub is not node and isinstance(sub, (ast.FunctionDef, ast.Lambda, ast.If, ast.For, ast.While, ast.Try, ast.With,
                                                ast.Raise, ast.Assert, ast.Global, ast.Nonlocal)):
            m.fail(sub, type(sub).__name__ + " inside transition")
    # the two branch methods must be the class's own abstract hooks (bodies raise NotImplementedError)
    txt = ("Definition gen_transition (A O : Type) (self_adaptive_transition self_standard_transition : A -> O) "
           "(epoch_type : Z) (operands : A) : O :=\n  " + "\n  ".join(lets) + f"\n  {ret}.")
    info = m.info(node, "TransitionMixin.transition")
    info["operands"] = operands
    return txt, info


def load_c16_tool():
    p = os.path.join(os.path.dirname(os.path.abspath(__file__)), "py2gallina.py")
    spec = importlib.util.spec_from_file_location("py2gallina", p)
    mod = importlib.util.module_from_spec(spec)
    spec.loader.exec_module(mod)
    return mod


DA_FUNCS = [("init", "da_init", "gen_da_init"), ("step", "da_step", "gen_da_step"), ("finalize", "da_finalize", "gen_da_finalize")]


def translate(root: str):
    """returns {section: {"text": gallina, "info": [..]} or {"error": message}} for the sections
    init, step, finalize (da.py) and dispatch (kernel.py transition + epoch.py is_adaptation)"""
    res = {}
    try:
        m = Module(root, DA_PY)
        funcs = check_da_module(m, [f for _, f, _ in DA_FUNCS])
    except Unsupported as ex:
        for sec, _, _ in DA_FUNCS:
            res[sec] = {"error": str(ex)}
        funcs = None
    if funcs is not None:
        for sec, name, gname in DA_FUNCS:
            try:
                t, i = Fn(m, funcs[name]).translate(gname)
                res[sec] = {"text": t, "info": [i]}
            except Unsupported as ex:
                res[sec] = {"error": str(ex)}
            except RecursionError as ex:
                res[sec] = {"error": "translator recursion limit: " + str(ex)}
    try:
        tool = load_c16_tool()
        r16 = tool.translate(root, ("enum", "predicates"))
        for k in ("enum", "predicates"):
            if "error" in r16[k]:
                raise Unsupported(r16[k]["error"])
        t, i = translate_transition(root)
        # only is_adaptation is needed; keep the definitions gen_is_adaptation depends on
        pred = r16["predicates"]["text"].split("Definition gen_is_warmup")[0].rstrip()
        infos = r16["enum"]["info"] + [x for x in r16["predicates"]["info"] if "is_adaptation" in x["function"]] + [i]
        # "pre" is to be read with Z_scope open (integer enum values, <? on Z), "text" needs no scope
        res["dispatch"] = {"pre": r16["enum"]["text"] + "\n" + pred, "text": t, "info": infos}
    except Unsupported as ex:
        res["dispatch"] = {"error": str(ex)}
    except Exception as ex:     # fail closed on anything unexpected in the helper
        res["dispatch"] = {"error": f"{type(ex).__name__}: {ex}"}
    return res


if __name__ == "__main__":
    r = translate(sys.argv[1] if len(sys.argv) > 1 else "/repo")
    for sec, d in r.items():
        print(f"(* ---- {sec} ---- *)")
        if "error" in d:
            print("(* FAILED CLOSED:", d["error"], "*)")
        else:
            for i in d["info"]:
                print(f"(* {i['file']} {i['function']} lines {i['lines'][0]}-{i['lines'][1]} sha256 {i['sha256'][:16]} *)")
            if "pre" in d:
                print("(* with Z_scope open: *)\n" + d["pre"])
            print(d["text"])
