#!/usr/bin/env python3
"""py2gallina_c20 - a small FAIL-CLOSED translator from the Python source of four straight-line
jax functions of liesel/goose/optim.py to Gallina, used by the C20 check (harness/lv/c20_tie.py) on
every run to re-establish the C20 theorems for the code as it reads now:

    Stopper.stop_early, Stopper.stop_now, Stopper.which_best_in_recent_history, _generate_batch_indices

It parses the source with `ast` (helpers Module / Unsupported / Tm from tools/py2gallina.py) and supports
exactly this subset; anything else raises `Unsupported` with file:line - nothing is guessed.

  types         Z (Python / jax integer scalars, unbounded), bool, fl (float scalars: exact rationals
                + inf / -inf / NaN, GenC20Tie.fl), list Q (a 1-d array of losses), K (a PRNG key, opaque),
                list nat (a 1-d index array), list (list nat) (a list of / 2-d index array)
  expressions   int / bool / float literals (a float literal is its exact binary value); locals and
                parameters; `self.<field>` for the dataclass fields of Stopper read from the source
                (int -> Z, float -> fl); unary `-`; `+ - *` on Z; `//`, `%` on Z (raise on a zero divisor);
                `+ - /` on fl; one-operator comparisons on Z x Z or fl x fl; `| & ^ ~` on bool;
                `w[0]` on list Q; `x[0:e]` / `x[:e]` on list nat; `self.<method>(...)` for a method
                translated before (positional / keyword arguments); calls of the LIBRARY TABLE below
  statements    docstrings / bare string expressions; `name = expr`; `return expr`   (straight-line only)

LIBRARY TABLE (canonical name after resolving the module's imports -> Gallina target; assumed semantics):
  jax.lax.dynamic_slice(h, (s,), (p,))   gdyn_slice h s p = the model's clamped Stopper.dyn_slice (a negative start wraps
  jax.lax.dynamic_slice_in_dim(h, s, p)    once, then is clamped into [0, len-p]; p > len raises); keywords
                                           operand / start_indices / slice_sizes accepted
  jax.numpy.min(w)        [list Q]       gmin w = Fin (qmin_list w)   (the model's minimum; empty window: 0)
  jax.numpy.argmin(w)     [list Q]       gargmin w = Z.of_nat (argmin w)   (first index of the minimum)
  w[0]                    [list Q]       gfirst w = Fin (hd 0 w)           (empty window: 0)
  jax.numpy.abs / absolute(x)            fabs x [fl] / Z.abs x [Z]
  jax.numpy.max / min(jax.numpy.array([a, b, ..]))  [ints]   Z.max / Z.min folded over the display
  jax.numpy.maximum / minimum(a, b)      [Z]        Z.max a b / Z.min a b
  jax.numpy.where(c, a, b), jax.lax.select(c, a, b)   if c then a else b   (scalars of one type)
  jax.numpy.logical_or / logical_and / logical_not    orb / andb / negb
  jax.random.permutation(key, n)         o_permutation key n : an ORACLE argument of the generated function (list nat);
                                           the lemmas assume its length is n / that it is a permutation of 0..n-1
  jax.numpy.array_split(x, k)            garray_split x k  (numpy's rule: k sections, the first len mod k one longer; k <= 0 raises)
  jax.numpy.asarray / array(rows)        gstack rows  (rows of unequal length raise)

Not modelled (assumed): float rounding and signed zeros, int32 overflow, tracing / jit, dtype promotion.

Command line:  py2gallina_c20.py <repo-root>      prints the generated definitions.
"""
from __future__ import annotations

import ast
import importlib.util
import os
import sys
from fractions import Fraction

_HERE = os.path.dirname(os.path.abspath(__file__))
_spec = importlib.util.spec_from_file_location("py2gallina", os.path.join(_HERE, "py2gallina.py"))
_base = importlib.util.module_from_spec(_spec)
_spec.loader.exec_module(_base)
Module, Unsupported, Tm, indent, zlit = _base.Module, _base.Unsupported, _base.Tm, _base.indent, _base.zlit

OPTIM_PY = "liesel/goose/optim.py"
Z, B, F, LQ, KEY, LN, LLN, ZS = "Z", "bool", "fl", "list Q", "K", "list nat", "list (list nat)", "<int display>"

STOPPER_FIELDS = {"max_iter": "int", "patience": "int", "atol": "float", "rtol": "float"}
SELF_PARAMS = "(s_max_iter s_patience : Z) (s_atol s_rtol : Q)"
SELF_ARGS = "s_max_iter s_patience s_atol s_rtol"
INT_ANN = {"int", "int | Array", "Array | int"}

# the library table: canonical dotted name -> handler name (see the module docstring)
LIBRARY = {
    "jax.lax.dynamic_slice": "dynamic_slice", "jax.lax.dynamic_slice_in_dim": "dynamic_slice_in_dim",
    "jax.numpy.min": "min", "jax.numpy.max": "max", "jax.numpy.argmin": "argmin",
    "jax.numpy.abs": "abs", "jax.numpy.absolute": "abs",
    "jax.numpy.maximum": "maximum", "jax.numpy.minimum": "minimum",
    "jax.numpy.where": "where", "jax.lax.select": "where",
    "jax.numpy.logical_or": "lor", "jax.numpy.logical_and": "land", "jax.numpy.logical_not": "lnot",
    "jax.numpy.array": "array", "jax.numpy.asarray": "array",
    "jax.random.permutation": "permutation", "jax.numpy.array_split": "array_split",
}


def qlit(x: Fraction) -> str:
    return f"(Qmake {zlit(x.numerator)} {x.denominator})"


class World:
    def __init__(self, root):
        self.m = Module(root, OPTIM_PY)
        self.aliases = self._toplevel()
        self.methods = {}       # python method name -> {"gen": name, "params": [(name, ty)], "ret": ty}
        self._stopper()

    def _toplevel(self):
        """module level: docstring, imports, classes and functions only (a rebinding or monkey patch could
        change what the names mean); returns local name -> canonical module path"""
        m, al, seen = self.m, {}, set()
        for st in m.tree.body:
            if isinstance(st, ast.Import):
                for a in st.names:
                    if a.asname:
                        al[a.asname] = a.name
                    else:
                        top = a.name.split(".")[0]
                        al[top] = top
            elif isinstance(st, ast.ImportFrom):
                for a in st.names:
                    if a.name == "*":
                        m.fail(st, "star import")
                    base = ("." * st.level) + (st.module or "")
                    al[a.asname or a.name] = base + "." + a.name
            elif isinstance(st, ast.Expr) and isinstance(st.value, ast.Constant) and isinstance(st.value.value, str):
                pass
            elif isinstance(st, (ast.ClassDef, ast.FunctionDef)):
                if st.name in seen:
                    m.fail(st, f"second definition of {st.name}")
                seen.add(st.name)
            else:
                m.fail(st, "module level statement " + type(st).__name__)
        for n in seen:
            if n in al:
                m.fail(m.tree, f"{n} is both imported and defined")
        return al

    def _stopper(self):
        m = self.m
        c = m.cls("Stopper")
        if [ast.unparse(d) for d in c.decorator_list] != ["dataclass"] or self.aliases.get("dataclass") != "dataclasses.dataclass":
            m.fail(c, "Stopper is not a plain @dataclasses.dataclass")
        if c.bases or c.keywords:
            m.fail(c, "Stopper has base classes / a metaclass")
        fields = {}
        for st in c.body:
            if isinstance(st, ast.AnnAssign) and isinstance(st.target, ast.Name):
                if st.value is not None and not (isinstance(st.value, ast.Constant) and type(st.value.value) in (int, float)):
                    m.fail(st, "dataclass field default that is not a number literal")
                fields[st.target.id] = ast.unparse(st.annotation)
            elif isinstance(st, ast.FunctionDef):
                if st.name.startswith("__"):
                    m.fail(st, "Stopper defines " + st.name)
            elif isinstance(st, ast.Expr) and isinstance(st.value, ast.Constant) and isinstance(st.value.value, str):
                pass
            else:
                m.fail(st, "statement in the Stopper class body: " + type(st).__name__)
        if fields != STOPPER_FIELDS:
            m.fail(c, f"Stopper fields are {fields}, expected {STOPPER_FIELDS}")


class Fn:
    """translation of one straight-line function body"""

    def __init__(self, w: World, node: ast.FunctionDef, is_method: bool):
        self.w, self.m, self.node, self.is_method = w, w.m, node, is_method
        self.env = {}
        self.tmp = 0
        self.calls = []
        self.uses_oracle = False

    def fail(self, node, what):
        self.m.fail(node, what)

    @staticmethod
    def v(name):
        return "v_" + name

    # ---- helpers -----------------------------------------------------------------------------------
    def lift(self, parts, build, ty):
        """combine sub-terms; raising ones are bound left to right (Python evaluation order)"""
        if not any(p.m for p in parts):
            return Tm(build([p.s for p in parts]), ty, False)
        names, binds = [], []
        for p in parts:
            if p.m:
                self.tmp += 1
                x = f"x{self.tmp}"
                binds.append((x, p.s))
                names.append(x)
            else:
                names.append(p.s)
        inner = f"TOk ({build(names)})"
        for x, s in reversed(binds):
            inner = f"tbind ({s}) (fun {x} => {inner})"
        return Tm(inner, ty, True)

    def pure(self, t: Tm, node, what):
        if t.m:
            self.fail(node, f"{what} that can raise inside a larger expression")
        return t

    def canonical(self, func):
        """dotted name of a called function with its first component resolved through the imports"""
        parts = []
        e = func
        while isinstance(e, ast.Attribute):
            parts.append(e.attr)
            e = e.value
        if not isinstance(e, ast.Name):
            return None
        if e.id in self.env or e.id == "self":
            return None
        if e.id not in self.w.aliases:
            return None
        return ".".join([self.w.aliases[e.id]] + list(reversed(parts)))

    # ---- expressions -------------------------------------------------------------------------------
    def expr(self, e) -> Tm:
        if isinstance(e, ast.Constant):
            if type(e.value) is bool:
                return Tm("true" if e.value else "false", B)
            if type(e.value) is int:
                return Tm(f"{zlit(e.value)}%Z", Z)
            if type(e.value) is float and e.value == e.value and abs(e.value) != float("inf"):
                return Tm(f"(Fin {qlit(Fraction(e.value))})", F)
            self.fail(e, f"constant {e.value!r}")
        if isinstance(e, ast.Name):
            if e.id in self.env:
                return Tm(self.v(e.id), self.env[e.id])
            self.fail(e, f"name {e.id} (not a parameter or an assigned local)")
        if isinstance(e, ast.Attribute):
            if isinstance(e.value, ast.Name) and e.value.id == "self" and self.is_method and "self" not in self.env:
                ty = STOPPER_FIELDS.get(e.attr)
                if ty == "int":
                    return Tm("s_" + e.attr, Z)
                if ty == "float":
                    return Tm(f"(Fin s_{e.attr})", F)
                self.fail(e, f"self.{e.attr} (not a dataclass field of Stopper)")
            self.fail(e, "attribute " + ast.unparse(e))
        if isinstance(e, ast.UnaryOp):
            t = self.expr(e.operand)
            if isinstance(e.op, ast.USub) and t.ty == Z:
                return self.lift([t], lambda a: f"(- {a[0]})%Z", Z)
            if isinstance(e.op, ast.USub) and t.ty == F:
                return self.lift([t], lambda a: f"(fneg {a[0]})", F)
            if isinstance(e.op, ast.Invert) and t.ty == B:
                return self.lift([t], lambda a: f"(negb {a[0]})", B)
            self.fail(e, f"unary {type(e.op).__name__} on a {t.ty}")
        if isinstance(e, ast.BinOp):
            return self.binop(e)
        if isinstance(e, ast.Compare):
            if len(e.ops) != 1:
                self.fail(e, "chained comparison")
            a, b = self.expr(e.left), self.expr(e.comparators[0])
            zops = {ast.Lt: "({} <? {})%Z", ast.LtE: "({} <=? {})%Z", ast.Gt: "({} >? {})%Z", ast.GtE: "({} >=? {})%Z",
                    ast.Eq: "({} =? {})%Z", ast.NotEq: "(negb ({} =? {})%Z)"}
            fops = {ast.Lt: "(flt {} {})", ast.LtE: "(fle {} {})", ast.Gt: "(fgt {} {})", ast.GtE: "(fge {} {})",
                    ast.Eq: "(feq {} {})", ast.NotEq: "(fne {} {})"}
            tab = zops if (a.ty, b.ty) == (Z, Z) else fops if (a.ty, b.ty) == (F, F) else None
            if tab is None or type(e.ops[0]) not in tab:
                self.fail(e, f"comparison {type(e.ops[0]).__name__} of {a.ty} with {b.ty}")
            f = tab[type(e.ops[0])]
            return self.lift([a, b], lambda x: f.format(x[0], x[1]), B)
        if isinstance(e, ast.Subscript):
            return self.subscript(e)
        if isinstance(e, ast.Call):
            return self.call(e)
        self.fail(e, "expression " + type(e).__name__)

    def binop(self, e):
        a, b = self.expr(e.left), self.expr(e.right)
        op = type(e.op)
        if (a.ty, b.ty) == (Z, Z):
            pure = {ast.Add: "({} + {})%Z", ast.Sub: "({} - {})%Z", ast.Mult: "({} * {})%Z"}
            if op in pure:
                return self.lift([a, b], lambda x: pure[op].format(x[0], x[1]), Z)
            part = {ast.FloorDiv: "gdivz", ast.Mod: "gmodz"}
            if op in part:
                self.pure(a, e, "operand"), self.pure(b, e, "operand")
                return Tm(f"{part[op]} {a.s} {b.s}", Z, True)
        if (a.ty, b.ty) == (F, F):
            fl = {ast.Add: "(fadd {} {})", ast.Sub: "(fsub {} {})", ast.Div: "(fdiv {} {})"}
            if op in fl:
                return self.lift([a, b], lambda x: fl[op].format(x[0], x[1]), F)
        if (a.ty, b.ty) == (B, B):
            bo = {ast.BitOr: "(orb {} {})", ast.BitAnd: "(andb {} {})", ast.BitXor: "(xorb {} {})"}
            if op in bo:
                return self.lift([a, b], lambda x: bo[op].format(x[0], x[1]), B)
        self.fail(e, f"operator {op.__name__} on {a.ty} and {b.ty}")

    def subscript(self, e):
        x = self.pure(self.expr(e.value), e, "subscripted value")
        sl = e.slice
        if x.ty == LQ and isinstance(sl, ast.Constant) and type(sl.value) is int and sl.value == 0:
            return Tm(f"(gfirst {x.s})", F)
        if x.ty == LN and isinstance(sl, ast.Slice) and sl.step is None and sl.upper is not None and (
                sl.lower is None or (isinstance(sl.lower, ast.Constant) and type(sl.lower.value) is int and sl.lower.value == 0)):
            u = self.expr(sl.upper)
            if u.ty != Z:
                self.fail(e, f"slice bound of type {u.ty}")
            return self.lift([u], lambda a: f"(gprefix {x.s} {a[0]})", LN)
        self.fail(e, f"subscript [{ast.unparse(sl)}] of a {x.ty}")

    def args(self, e: ast.Call, names, required=None):
        """bind positional / keyword arguments to the parameter names; all `required` must be given"""
        if any(isinstance(a, ast.Starred) for a in e.args) or any(k.arg is None for k in e.keywords):
            self.fail(e, "star arguments")
        if len(e.args) > len(names):
            self.fail(e, "too many arguments")
        got = dict(zip(names, e.args))
        for k in e.keywords:
            if k.arg not in names or k.arg in got:
                self.fail(e, f"keyword argument {k.arg}")
            got[k.arg] = k.value
        for n in (required if required is not None else names):
            if n not in got:
                self.fail(e, f"argument {n} is missing")
        return got

    def one_tuple(self, node, what):
        if isinstance(node, (ast.Tuple, ast.List)) and len(node.elts) == 1 and not isinstance(node.elts[0], ast.Starred):
            return node.elts[0]
        self.fail(node, f"{what} that is not a one-element tuple")

    def call(self, e: ast.Call) -> Tm:
        f = e.func
        # a method of Stopper translated before
        if (isinstance(f, ast.Attribute) and isinstance(f.value, ast.Name) and f.value.id == "self"
                and self.is_method and "self" not in self.env):
            meth = self.w.methods.get(f.attr)
            if meth is None:
                self.fail(e, f"call of self.{f.attr} (not a method translated before this one)")
            got = self.args(e, [n for n, _ in meth["params"]])
            ts = []
            for n, ty in meth["params"]:
                t = self.pure(self.expr(got[n]), e, "argument")
                if t.ty != ty:
                    self.fail(e, f"argument {n} of self.{f.attr} is a {t.ty}, expected {ty}")
                ts.append(t.s)
            self.calls.append(f.attr)
            return Tm(f"{meth['gen']} {SELF_ARGS} " + " ".join(ts), meth["ret"], True)
        name = self.canonical(f)
        h = LIBRARY.get(name)
        if h is None:
            self.fail(e, f"call of {ast.unparse(f)}" + (f" (= {name}, not in the library table)" if name else ""))
        return getattr(self, "lib_" + h)(e, name)

    # ---- the library table ---------------------------------------------------------------------------
    def _scalars(self, e, n):
        if len(e.args) != n or e.keywords or any(isinstance(a, ast.Starred) for a in e.args):
            self.fail(e, f"{ast.unparse(e.func)} with other than {n} positional arguments")
        return [self.expr(a) for a in e.args]

    def lib_dynamic_slice(self, e, name):
        got = self.args(e, ["operand", "start_indices", "slice_sizes"])
        return self._dyn(e, got["operand"], self.one_tuple(got["start_indices"], "start_indices"),
                         self.one_tuple(got["slice_sizes"], "slice_sizes"))

    def lib_dynamic_slice_in_dim(self, e, name):
        got = self.args(e, ["operand", "start_index", "slice_size", "axis"], required=["operand", "start_index", "slice_size"])
        if "axis" in got and not (isinstance(got["axis"], ast.Constant) and got["axis"].value == 0):
            self.fail(e, "dynamic_slice_in_dim with an axis other than 0")
        return self._dyn(e, got["operand"], got["start_index"], got["slice_size"])

    def _dyn(self, e, operand, start, size):
        h = self.pure(self.expr(operand), e, "operand")
        s, p = self.expr(start), self.expr(size)
        if (h.ty, s.ty, p.ty) != (LQ, Z, Z):
            self.fail(e, f"dynamic_slice of a {h.ty} at a {s.ty} with size {p.ty}")
        self.pure(s, e, "start index"), self.pure(p, e, "slice size")
        return Tm(f"gdyn_slice {h.s} {s.s} {p.s}", LQ, True)

    def _minmax(self, e, which):
        (t,) = self._scalars(e, 1)
        if t.ty == ZS:
            acc = t.items[0]
            for x in t.items[1:]:
                acc = f"(Z.{which} {acc} {x})"
            return Tm(acc, Z)
        if t.ty == LQ and which == "min":
            return self.lift([t], lambda a: f"(gmin {a[0]})", F)
        self.fail(e, f"{ast.unparse(e.func)} of a {t.ty}")

    def lib_min(self, e, name):
        return self._minmax(e, "min")

    def lib_max(self, e, name):
        return self._minmax(e, "max")

    def lib_argmin(self, e, name):
        (t,) = self._scalars(e, 1)
        if t.ty != LQ:
            self.fail(e, f"argmin of a {t.ty}")
        return self.lift([t], lambda a: f"(gargmin {a[0]})", Z)

    def lib_abs(self, e, name):
        (t,) = self._scalars(e, 1)
        if t.ty == F:
            return self.lift([t], lambda a: f"(fabs {a[0]})", F)
        if t.ty == Z:
            return self.lift([t], lambda a: f"(Z.abs {a[0]})", Z)
        self.fail(e, f"abs of a {t.ty}")

    def _two_ints(self, e, which):
        a, b = self._scalars(e, 2)
        if (a.ty, b.ty) != (Z, Z):
            self.fail(e, f"{ast.unparse(e.func)} of {a.ty} and {b.ty}")
        return self.lift([a, b], lambda x: f"(Z.{which} {x[0]} {x[1]})", Z)

    def lib_maximum(self, e, name):
        return self._two_ints(e, "max")

    def lib_minimum(self, e, name):
        return self._two_ints(e, "min")

    def lib_where(self, e, name):
        c, a, b = self._scalars(e, 3)
        if c.ty != B or a.ty != b.ty or a.ty not in (Z, B, F):
            self.fail(e, f"where / select on {c.ty}, {a.ty}, {b.ty}")
        return self.lift([c, a, b], lambda x: f"(if {x[0]} then {x[1]} else {x[2]})", a.ty)

    def _bools(self, e, n, fmt):
        ts = self._scalars(e, n)
        if any(t.ty != B for t in ts):
            self.fail(e, f"{ast.unparse(e.func)} on non-bools")
        return self.lift(ts, lambda x: fmt.format(*x), B)

    def lib_lor(self, e, name):
        return self._bools(e, 2, "(orb {} {})")

    def lib_land(self, e, name):
        return self._bools(e, 2, "(andb {} {})")

    def lib_lnot(self, e, name):
        return self._bools(e, 1, "(negb {})")

    def lib_array(self, e, name):
        if len(e.args) != 1 or e.keywords:
            self.fail(e, f"{ast.unparse(e.func)} with other than one positional argument")
        a = e.args[0]
        if isinstance(a, (ast.List, ast.Tuple)):
            ts = [self.pure(self.expr(x), e, "element") for x in a.elts]
            if not ts or any(t.ty != Z for t in ts):
                self.fail(e, "array display whose elements are not ints")
            t = Tm("<display>", ZS)
            t.items = [x.s for x in ts]
            return t
        t = self.pure(self.expr(a), e, "argument")
        if t.ty == LLN:
            return Tm(f"gstack {t.s}", LLN, True)
        self.fail(e, f"{ast.unparse(e.func)} of a {t.ty}")

    def lib_permutation(self, e, name):
        k, n = self._scalars(e, 2)
        if (k.ty, n.ty) != (KEY, Z):
            self.fail(e, f"jax.random.permutation of a {k.ty} and a {n.ty}")
        self.pure(k, e, "key"), self.pure(n, e, "size")
        self.uses_oracle = True
        return Tm(f"(o_permutation {k.s} {n.s})", LN)

    def lib_array_split(self, e, name):
        x, k = self._scalars(e, 2)
        if (x.ty, k.ty) != (LN, Z):
            self.fail(e, f"array_split of a {x.ty} into a {k.ty}")
        self.pure(x, e, "array"), self.pure(k, e, "number of sections")
        return Tm(f"garray_split {x.s} {k.s}", LLN, True)

    # ---- statements ----------------------------------------------------------------------------------
    def body(self, stmts, ret_ty):
        if not stmts:
            self.fail(self.node, "function can fall off its end")
        s, rest = stmts[0], stmts[1:]
        if isinstance(s, ast.Expr) and isinstance(s.value, ast.Constant) and isinstance(s.value.value, str):
            return self.body(rest, ret_ty)
        if isinstance(s, ast.Return):
            if rest:
                self.fail(rest[0], "statement after return")
            if s.value is None:
                self.fail(s, "return without a value")
            t = self.expr(s.value)
            if t.ty != ret_ty:
                self.fail(s, f"returns a {t.ty}, expected {ret_ty}")
            return t.s if t.m else f"TOk {t.s}"
        if isinstance(s, ast.Assign):
            if len(s.targets) != 1 or not isinstance(s.targets[0], ast.Name):
                self.fail(s, "assignment target " + ast.unparse(s.targets[0]))
            name = s.targets[0].id
            if name == "self" or name in self.w.aliases:
                self.fail(s, f"local variable named {name}")
            t = self.expr(s.value)
            if t.ty == ZS:
                self.fail(s, "an int display is only supported directly inside jnp.max / jnp.min")
            if name in self.env and self.env[name] != t.ty:
                self.fail(s, f"variable {name} changes its type from {self.env[name]} to {t.ty}")
            self.env[name] = t.ty
            x = self.v(name)
            k = self.body(rest, ret_ty)
            if t.m:
                return f"tbind ({t.s}) (fun {x} =>\n{k})"
            return f"let {x} := {t.s} in\n{k}"
        self.fail(s, "statement " + type(s).__name__)


def _params(w, node, is_method, typing):
    a = node.args
    if a.vararg or a.kwarg or a.kwonlyargs or a.posonlyargs or a.defaults:
        w.m.fail(node, "parameter list with * / ** / keyword-only / defaults")
    if node.decorator_list:
        w.m.fail(node, "decorated function: " + ast.unparse(node.decorator_list[0]))
    args = list(a.args)
    if is_method:
        if not args or args[0].arg != "self":
            w.m.fail(node, "method without self")
        args = args[1:]
    out = []
    for x in args:
        ann = ast.unparse(x.annotation) if x.annotation is not None else None
        ty = typing(ann)
        if ty is None:
            w.m.fail(node, f"parameter {x.arg} annotated {ann}")
        if x.arg in w.aliases:
            w.m.fail(node, f"parameter named like the import {x.arg}")
        out.append((x.arg, ty))
    return out


def translate_method(w: World, pyname, gen, ret_ty):
    node = w.m.find("Stopper", pyname)
    params = _params(w, node, True, lambda ann: Z if ann in INT_ANN else LQ if ann == "Array" else None)
    if [ty for _, ty in params] != [Z, LQ]:
        w.m.fail(node, f"{pyname} takes {params}, expected (int, Array)")
    f = Fn(w, node, True)
    for n, ty in params:
        f.env[n] = ty
    body = f.body(list(node.body), ret_ty)
    txt = (f"Definition {gen} {SELF_PARAMS} ({f.v(params[0][0])} : Z) ({f.v(params[1][0])} : list Q) : tres {ret_ty} :=\n"
           f"{indent(body)}.")
    w.methods[pyname] = {"gen": gen, "params": params, "ret": ret_ty}
    return {"text": txt, "info": [w.m.info(node, "Stopper." + pyname)], "calls": sorted(set(f.calls))}


def translate_batch(w: World):
    node = w.m.find(None, "_generate_batch_indices")
    if w.aliases.get("KeyArray") != ".types.KeyArray":
        w.m.fail(node, "KeyArray is not imported from .types")
    params = _params(w, node, False, lambda ann: KEY if ann == "KeyArray" else Z if ann == "int" else None)
    if [ty for _, ty in params] != [KEY, Z, Z]:
        w.m.fail(node, f"_generate_batch_indices takes {params}, expected (KeyArray, int, int)")
    f = Fn(w, node, False)
    for n, ty in params:
        f.env[n] = ty
    body = f.body(list(node.body), LLN)
    ps = " ".join(f"({f.v(n)} : {ty})" for n, ty in params)
    txt = (f"Definition gen_generate_batch_indices {{K : Type}} (o_permutation : K -> Z -> list nat) {ps} "
           f": tres (list (list nat)) :=\n{indent(body)}.")
    return {"text": txt, "info": [w.m.info(node, "_generate_batch_indices")], "uses_oracle": f.uses_oracle}


SECTIONS = ("stop_early", "stop_now", "which_best", "batch")


def translate(root: str, what=SECTIONS):
    """returns {section: {"text": gallina, "info": [..]} or {"error": message}}"""
    res = {}
    try:
        w = World(root)
    except (Unsupported, OSError, SyntaxError, ValueError) as ex:
        return {k: {"error": str(ex)} for k in what}
    for sec in what:
        try:
            if sec == "stop_early":
                res[sec] = translate_method(w, "stop_early", "gen_stop_early", B)
            elif sec == "stop_now":
                res[sec] = translate_method(w, "stop_now", "gen_stop_now", B)
            elif sec == "which_best":
                res[sec] = translate_method(w, "which_best_in_recent_history", "gen_which_best", Z)
            elif sec == "batch":
                res[sec] = translate_batch(w)
        except Unsupported as ex:
            res[sec] = {"error": str(ex)}
        except RecursionError as ex:      # pathological nesting: fail closed
            res[sec] = {"error": "translator recursion limit: " + str(ex)}
    return res


if __name__ == "__main__":
    r = translate(sys.argv[1] if len(sys.argv) > 1 else "/repo")
    for sec, d in r.items():
        print(f"(* ---- {sec} ---- *)")
        if "error" in d:
            print("(* FAILED CLOSED:", d["error"], "*)")
        else:
            for i in d["info"]:
                print(f"(* {i['file']} {i['function']} lines {i['lines'][0]}-{i['lines'][1]} sha256 {i['sha256'][:16]} *)")
            print(d["text"])
