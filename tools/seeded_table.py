#!/usr/bin/env python3
"""Writes /verif/seeded/RESULTS.md: which registered check catches which seeded breaking change
(from seeded/<id>/meta.json, confirm.json, result_quick.json as written by tools/seeded.py)."""
import glob, json, os
rows = []
for d in sorted(glob.glob("/verif/seeded/C*-*")):
    sid = os.path.basename(d)
    def load(n):
        p = os.path.join(d, n)
        return json.load(open(p)) if os.path.exists(p) else {}
    meta, conf, res = load("meta.json"), load("confirm.json"), load("result_quick.json")
    checks = res.get("checks", {})
    det = []
    for p, r in sorted(checks.items()):
        if r.get("detected"):
            det.append(p + (" (concrete input)" if r.get("with_failing_input") else " (no-failing-input-found)"))
        else:
            det.append(p + " MISSED")
    what = (meta.get("description") or "").replace("\n", " ").replace("|", "/")
    needs = (meta.get("needs") or "").replace("\n", " ").replace("|", "/")
    rows.append((sid, meta.get("property", "?"), "yes" if conf.get("confirmed") else ("no" if conf else "?"),
                 "; ".join(det) or "not run", what[:260], needs[:200]))
with open("/verif/seeded/RESULTS.md", "w") as f:
    f.write("# Seeded breaking changes and the checks that catch them (quick tier)\n\n"
            "Each change was written by a fresh sub-agent that saw only the property text and its own scratch worktree; "
            "`confirmed` = patch applies to /repo HEAD, the unedited repo test suite still reports 373 passed with it, "
            "the demonstration passes on HEAD and fails with the patch (tools/seeded.py confirm).  "
            "`caught by` = result of `tools/seeded.py run <id>` (registered quick check against the patched tree).\n\n"
            "| id | property | confirmed | caught by | change | needs |\n|---|---|---|---|---|---|\n")
    for r in rows:
        f.write("| " + " | ".join(r) + " |\n")
    n = len(rows); c = sum(1 for r in rows if "MISSED" not in r[3] and r[3] != "not run")
    f.write(f"\n{c} of {n} seeded changes are caught by the registered quick check of their property.\n")
print("rows", len(rows))
