#!/usr/bin/env python3
"""py2gallina_c18 - a small FAIL-CLOSED translator from the Python source of liesel's custom bijector /
distributions to Gallina over the real numbers, used by the C18 check (harness/lv/c18.py -> c18_tie.py) on
every run to re-establish the C18 theorems for the code as it reads now:

  liesel/bijectors/algebraic_sigmoid.py   AlgebraicSigmoid._forward, _inverse, _inverse_log_det_jacobian,
                                          _forward_log_det_jacobian                     (model Analytic/Sigmoid.v)
  liesel/distributions/copulas.py         GaussianCopula.__init__: the validate_args guard, the scale_tril
                                          construction, the TransformedDistribution composition (Copula.v)
  liesel/distributions/mvn_degen.py       _rank, _log_pdet, the properties rank / log_pdet, _log_prob,
                                          from_penalty, from_penalty_smooth; the bindings of __init__ and the
                                          eig property are checked structurally        (MvnDegen.v)

The source is parsed with `ast` (helpers Module / Unsupported of tools/py2gallina.py).  Every number is a real
number (Coq R): Python floats and JAX scalars are read as the reals they denote, a float literal as the decimal
fraction written (`1e-6` is 1/1000000, `-1.5` is -(3/2)); rounding is covered by the behavioural correspondence
(tolerances), not by this tie.  A batch is read as independent evaluation per member (the translated text is
the computation of ONE batch member; only np.all in the copula guard ranges over the batch).

The degenerate MVN is translated in EIGEN-COORDINATES, as the model is written: a symmetric matrix is known
through its ascending eigenvalue vector (nat -> R, dimension n), a point / location through its coordinates in
the eigenbasis; eigh / eigvalsh are ORACLES returning that vector.

LIBRARY-CALL TABLE (canonical name after resolving the module's imports -> Gallina target; assumed semantics).
Anything not listed raises `Unsupported` with file:line - nothing is guessed.
  jax.numpy.sqrt / log / exp (x)          sqrt x / ln x / exp x over R (Coq's total functions; log of an eigenvalue
                                          vector is taken elementwise)
  x ** k, k a literal natural number      x ^ k            + - * / unary - on reals; jnp.pi -> PI
  x > y, x < y  (reals, vector vs scalar) g_gt / g_lt = the model's gtb / ltb (strict, decided by Rlt_dec)
  x >= y, x <= y (reals)                  g_ge / g_le (decided by Rle_dec);   on naturals: Nat.leb / Nat.ltb
  jax.numpy.sum(v, axis=-1)               bool vector: ncount n v (number of True); real vector: rsum n v
  jax.numpy.where(m, a, b)                elementwise / scalar `if m then a else b`
  jax.lax.fori_loop(0, v.shape[-1], fn, v) with a local `def fn(i, x): return x.at[..., i].set(e)`
                                          the vector (fun i => e): every position is overwritten; the float array
                                          that holds the 0/1 values is read back by jnp.where as truthiness
  v.shape[-1]                             the dimension n (a natural number)
  jax.numpy.linalg.eigvalsh(M)            the eigenvalue vector of M (ORACLE: ascending eigenvalues)
  self.eig  [= jax.numpy.linalg.eigh(self._prec), checked]   (evals d, eigenvectors)  (ORACLE)
  M / expand_dims(s, axis=(-2,-1)), M * expand_dims(s, ..)   eigenvalues lam_i / s, lam_i * s (same eigenvectors)
  squeeze(expand_dims(c,-2) @ self._prec @ swapaxes(expand_dims(c,-2),-2,-1), axis=(-2,-1))
                                          quad n lam c = sum_i lam_i c_i^2  (c in eigen-coordinates; the algebra
                                          behind this reading is C18_mvn_quadform_eigen)
  cls(loc=, prec=, rank=, log_pdet=, ..)  mkMvnd n lam rank log_pdet tol, with tol the default of __init__ and the
                                          bindings self._tol / _rank / _log_pdet / _prec / _loc of __init__ checked
  nat * real                              INR k * x;   n - k on naturals is truncated subtraction (as the model's)
  jax.numpy.shape / zeros / broadcast_to(c, batch_shape) / stack(axis=-1 | -2) / all
                                          per batch member: shape is opaque, zeros(batch_shape + (2,)) = (0, 0),
                                          broadcast_to(c, batch_shape) = c, stack of two scalars = a row, stack of
                                          two rows = a 2x2 matrix, all(e) = forallb over the batch
  tfd.MultivariateNormalTriL(loc, scale_tril).log_prob   g_mvn_tril loc L = the model's mvn_tril2_logpdf (closed
                                          form of the density with a lower-triangular scale; the upper entry is unused)
  tfd.TransformedDistribution(dist, tfb.NormalCDF()).log_prob   g_transformed_normal_cdf qnorm dist: dist at the
                                          normal scores minus log phi of the scores; qnorm is an ORACLE argument
  dict(locals()), self._parameters = .., validate_args / allow_nan_stats / name   ignored (bookkeeping; what tfp's
                                          validate_args does inside MultivariateNormalTriL is not modelled)

SUPPORTED SUBSET: straight-line function bodies of `name = expr`, `a, _ = self.eig`, `return expr`, docstrings,
the local `def fn` used by fori_loop; `if` / conditional expressions ONLY when the test is decided by which
optional arguments are None (`x is None`, `is not None`, `not`, `and`, `or`): the function is translated once per
combination of None / not None of its optional arguments (a `match` in the output); in GaussianCopula.__init__
additionally `if validate_args:` over `assert` statements and `if dependence is None` (dependence is taken as
given).  Refused among others: loops, other `if`s, augmented assignment, comprehensions, lambdas, decorators other
than property / cached_property / classmethod, attributes other than the ones listed, module-level statements
other than imports, simple `Name = Name` aliases, classes and functions.

Command line:  py2gallina_c18.py <repo-root>      prints the generated definitions.
"""
from __future__ import annotations

import ast
import importlib.util
import itertools
import os
import sys
from fractions import Fraction

_HERE = os.path.dirname(os.path.abspath(__file__))
_spec = importlib.util.spec_from_file_location("py2gallina", os.path.join(_HERE, "py2gallina.py"))
_base = importlib.util.module_from_spec(_spec)
_spec.loader.exec_module(_base)
Module, Unsupported, indent = _base.Module, _base.Unsupported, _base.indent

SIG_PY = "liesel/bijectors/algebraic_sigmoid.py"
COP_PY = "liesel/distributions/copulas.py"
MVN_PY = "liesel/distributions/mvn_degen.py"

R, B, N, INT, VR, VB = "R", "bool", "nat", "<int literal>", "nat -> R", "nat -> bool"
NONE, IGN, SHAPE, LOCALFN = "<None>", "<ignored>", "<shape>", "<local def>"
MAT, ROW, COL, ROWP, QF, EVECS = "<matrix>", "<1 x n>", "<n x 1>", "<1 x n times prec>", "<1 x 1>", "<eigenvectors>"
VEC2, ROW2, MAT2, DIST, BIJ = "g_row (loc)", "g_row", "g_mat2", "<mvn tril>", "<NormalCDF>"

TFP = "tensorflow_probability.substrates.jax."
LIBRARY = {
    "jax.numpy.sqrt": "un_sqrt", "jax.numpy.log": "un_ln", "jax.numpy.exp": "un_exp",
    "jax.numpy.sum": "sum", "jax.numpy.where": "where", "jax.lax.fori_loop": "fori_loop",
    "jax.numpy.linalg.eigvalsh": "eigvalsh", "jax.numpy.expand_dims": "expand_dims",
    "jax.numpy.swapaxes": "swapaxes", "jax.numpy.squeeze": "squeeze",
    "jax.numpy.shape": "shape", "jax.numpy.zeros": "zeros", "jax.numpy.broadcast_to": "broadcast_to",
    "jax.numpy.stack": "stack", "jax.numpy.all": "all",
    TFP + "distributions.MultivariateNormalTriL": "mvn_tril", TFP + "bijectors.NormalCDF": "normal_cdf",
}


def rlit(fr: Fraction) -> str:
    n, d = abs(fr.numerator), fr.denominator
    s = str(n) if d == 1 else f"({n} / {d})"
    return s if fr >= 0 else f"(- {s})"


class Tm:
    def __init__(self, s, ty, **kw):
        self.s, self.ty = s, ty
        self.__dict__.update(kw)

    def at(self, i):            # element i of a vector-like term
        return self.elt(i)


def vec(elt, ty, dim):
    return Tm(f"(fun i => {elt('i')})", ty, elt=elt, dim=dim)


def named_vec(name, ty, dim):
    return Tm(name, ty, elt=lambda i: f"{name} {i}", dim=dim)


class World:
    """one parsed module: import aliases, module-level layout check"""

    def __init__(self, root, rel):
        self.m = Module(root, rel)
        m, al, seen = self.m, {}, set()
        for st in m.tree.body:
            if isinstance(st, ast.Import):
                for a in st.names:
                    if a.asname:
                        al[a.asname] = a.name
                    else:
                        al[a.name.split(".")[0]] = a.name.split(".")[0]
            elif isinstance(st, ast.ImportFrom):
                for a in st.names:
                    if a.name == "*":
                        m.fail(st, "star import")
                    al[a.asname or a.name] = ("." * st.level) + (st.module or "") + "." + a.name
            elif isinstance(st, ast.Expr) and isinstance(st.value, ast.Constant) and isinstance(st.value.value, str):
                pass
            elif isinstance(st, (ast.ClassDef, ast.FunctionDef)):
                if st.name in seen:
                    m.fail(st, f"second definition of {st.name}")
                seen.add(st.name)
            elif (isinstance(st, ast.Assign) and len(st.targets) == 1 and isinstance(st.targets[0], ast.Name)
                  and isinstance(st.value, ast.Name) and st.targets[0].id[:1].isupper()):
                seen.add(st.targets[0].id)          # a type alias such as `Array = Any`; never a callable we resolve
            else:
                m.fail(st, "module level statement " + type(st).__name__)
        for n in seen:
            if n in al:
                m.fail(m.tree, f"{n} is both imported and defined")
        self.aliases, self.defined = al, seen
        self.funcs = {}         # python name -> signature record of a translated module-level function

    def canonical(self, e, local_names=()):
        parts = []
        while isinstance(e, ast.Attribute):
            parts.append(e.attr)
            e = e.value
        if not isinstance(e, ast.Name) or e.id in local_names or e.id not in self.aliases:
            return None
        return ".".join([self.aliases[e.id]] + list(reversed(parts)))


class Fn:
    """translation of one straight-line function body under one None / not-None combination"""

    def __init__(self, w: World, node, dim=None, selfobj=None):
        self.w, self.m, self.node = w, w.m, node
        self.env = {}
        self.dim = dim              # Gallina text of the dimension
        self.selfobj = selfobj      # dict attr -> Tm for self.<attr>, or None
        self.guard = None

    def fail(self, node, what):
        self.m.fail(node, what)

    # ---- static None tests ----------------------------------------------------------------------------
    def static(self, e):
        """True / False when the test is decided by None-ness, else None"""
        if isinstance(e, ast.Compare) and len(e.ops) == 1 and isinstance(e.ops[0], (ast.Is, ast.IsNot)) \
                and isinstance(e.comparators[0], ast.Constant) and e.comparators[0].value is None:
            t = self.expr(e.left)
            isnone = t.ty == NONE
            return isnone if isinstance(e.ops[0], ast.Is) else not isnone
        if isinstance(e, ast.UnaryOp) and isinstance(e.op, ast.Not):
            v = self.static(e.operand)
            return None if v is None else not v
        if isinstance(e, ast.BoolOp):
            vs = [self.static(x) for x in e.values]
            if any(v is None for v in vs):
                return None
            return any(vs) if isinstance(e.op, ast.Or) else all(vs)
        return None

    # ---- expressions ----------------------------------------------------------------------------------
    def num(self, t, node):
        """coerce an int literal to a real"""
        if t.ty == INT:
            return Tm(rlit(Fraction(t.val)), R)
        return t

    def expr(self, e) -> Tm:
        if isinstance(e, ast.Constant):
            if e.value is None:
                return Tm("None", NONE)
            if type(e.value) is int:
                return Tm(str(e.value), INT, val=e.value)
            if type(e.value) is float:
                txt = ast.get_source_segment(self.m.src, e)
                try:
                    return Tm(rlit(Fraction(txt)), R)
                except (ValueError, TypeError, ZeroDivisionError):
                    self.fail(e, f"float literal {txt!r}")
            self.fail(e, f"constant {e.value!r}")
        if isinstance(e, ast.Name):
            if e.id in self.env:
                return self.env[e.id]
            self.fail(e, f"name {e.id} (not a parameter or an assigned local)")
        if isinstance(e, ast.Attribute):
            return self.attribute(e)
        if isinstance(e, ast.UnaryOp):
            if isinstance(e.op, ast.USub):
                if isinstance(e.operand, ast.Constant) and type(e.operand.value) in (int, float):
                    t = self.num(self.expr(e.operand), e)
                    return Tm(f"(- {t.s})", R)
                t = self.num(self.expr(e.operand), e)
                if t.ty == R:
                    return Tm(f"(- {t.s})", R)
                if t.ty == VR:
                    return vec(lambda i: f"(- {t.at(i)})", VR, t.dim)
            self.fail(e, f"unary {type(e.op).__name__}")
        if isinstance(e, ast.BinOp):
            return self.binop(e)
        if isinstance(e, ast.Compare):
            return self.compare(e)
        if isinstance(e, ast.IfExp):
            v = self.static(e.test)
            if v is None:
                self.fail(e, "conditional expression whose test is not decided by None-ness")
            return self.expr(e.body if v else e.orelse)
        if isinstance(e, ast.Subscript):
            return self.subscript(e)
        if isinstance(e, ast.Call):
            return self.call(e)
        self.fail(e, "expression " + type(e).__name__)

    def attribute(self, e):
        if isinstance(e.value, ast.Name) and e.value.id == "self" and "self" not in self.env:
            if self.selfobj is not None and e.attr in self.selfobj:
                t = self.selfobj[e.attr]
                return t() if callable(t) else t
            self.fail(e, f"self.{e.attr}")
        name = self.w.canonical(e, self.env)
        if name in ("jax.numpy.pi", "numpy.pi", "math.pi"):
            return Tm("PI", R)
        if e.attr == "shape":
            t = self.expr(e.value)
            if t.ty in (VR, VB):
                return Tm("<shape of a vector>", SHAPE, last=t.dim)
        self.fail(e, "attribute " + ast.unparse(e))

    def subscript(self, e):
        t = self.expr(e.value)
        sl = e.slice
        if t.ty == SHAPE and getattr(t, "last", None) and isinstance(sl, ast.UnaryOp) and isinstance(sl.op, ast.USub) \
                and isinstance(sl.operand, ast.Constant) and sl.operand.value == 1:
            return Tm(t.last, N)
        self.fail(e, f"subscript [{ast.unparse(sl)}] of a {t.ty}")

    def binop(self, e):
        a, b = self.expr(e.left), self.expr(e.right)
        op = type(e.op)
        if op is ast.Pow:
            a = self.num(a, e)
            if b.ty == INT and b.val >= 0 and a.ty == R:
                return Tm(f"({a.s} ^ {b.val})", R)
            self.fail(e, f"power {a.ty} ** {ast.unparse(e.right)} (only a literal natural exponent)")
        if op is ast.MatMult:
            if (a.ty, b.ty) == (ROW, MAT) and getattr(b, "is_self_prec", False):
                return Tm("", ROWP, vec_of=a.vec_of, prec=b)
            if (a.ty, b.ty) == (ROWP, COL) and a.vec_of is b.vec_of:
                c = a.vec_of
                lam = getattr(a.prec, "fn", None) or f"(fun i => {a.prec.at('i')})"
                body = f"quad {c.dim} {lam} {c.s}"
                return Tm(f"({body})", QF)
            self.fail(e, f"matrix product of {a.ty} and {b.ty}")
        sym = {ast.Add: "+", ast.Sub: "-", ast.Mult: "*", ast.Div: "/"}.get(op)
        if sym is None:
            self.fail(e, "operator " + op.__name__)
        if (a.ty, b.ty) == (INT, INT):
            self.fail(e, "arithmetic on two int literals")
        # naturals
        if {a.ty, b.ty} <= {N, INT} and sym in "+-*":
            x = a.s if a.ty == N else str(a.val)
            y = b.s if b.ty == N else str(b.val)
            if (a.ty == INT and a.val < 0) or (b.ty == INT and b.val < 0):
                self.fail(e, "negative int literal in natural-number arithmetic")
            return Tm(f"({x} {sym} {y})%nat", N)
        # shape concatenation (copula): batch_shape + (2,)
        if a.ty == SHAPE and sym == "+" and isinstance(e.right, ast.Tuple):
            self.fail(e, "shape arithmetic outside np.zeros")
        # matrix scaled by a broadcast scalar
        if a.ty == MAT and b.ty == R and getattr(b, "bcast_mat", False) and sym in "*/":
            return Tm("", MAT, elt=lambda i: f"({a.at(i)} {sym} {b.s})", dim=a.dim)
        if a.ty == R and getattr(a, "bcast_mat", False) and b.ty == MAT and sym == "*":
            return Tm("", MAT, elt=lambda i: f"({a.s} * {b.at(i)})", dim=b.dim)
        a, b = self.num(a, e), self.num(b, e)
        if a.ty == N and b.ty == R:
            a = Tm(f"INR {a.s}" if a.s.isidentifier() else f"INR ({a.s})", R)
        if a.ty == R and b.ty == N:
            b = Tm(f"INR {b.s}" if b.s.isidentifier() else f"INR ({b.s})", R)
        if (a.ty, b.ty) == (R, R):
            return Tm(f"({a.s} {sym} {b.s})", R)
        if (a.ty, b.ty) == (VR, VR):
            if a.dim != b.dim:
                self.fail(e, "vectors of different dimension")
            return vec(lambda i: f"({a.at(i)} {sym} {b.at(i)})", VR, a.dim)
        if (a.ty, b.ty) == (VR, R):
            return vec(lambda i: f"({a.at(i)} {sym} {b.s})", VR, a.dim)
        if (a.ty, b.ty) == (R, VR):
            return vec(lambda i: f"({a.s} {sym} {b.at(i)})", VR, b.dim)
        self.fail(e, f"operator {sym} on {a.ty} and {b.ty}")

    def compare(self, e):
        if len(e.ops) != 1:
            self.fail(e, "chained comparison")
        a, b = self.expr(e.left), self.expr(e.comparators[0])
        op = type(e.ops[0])
        if {a.ty, b.ty} <= {N, INT} and N in (a.ty, b.ty):
            x = a.s if a.ty == N else str(a.val)
            y = b.s if b.ty == N else str(b.val)
            f = {ast.GtE: f"({y} <=? {x})%nat", ast.LtE: f"({x} <=? {y})%nat",
                 ast.Gt: f"({y} <? {x})%nat", ast.Lt: f"({x} <? {y})%nat"}.get(op)
            if f is None:
                self.fail(e, "comparison " + op.__name__ + " on naturals")
            return Tm(f, B)
        a, b = self.num(a, e), self.num(b, e)
        g = {ast.Gt: "g_gt", ast.Lt: "g_lt", ast.GtE: "g_ge", ast.LtE: "g_le"}.get(op)
        if g is None:
            self.fail(e, "comparison " + op.__name__)
        if (a.ty, b.ty) == (R, R):
            return Tm(f"({g} {a.s} {b.s})", B, batch=getattr(a, "batch", False) or getattr(b, "batch", False))
        if (a.ty, b.ty) == (VR, R):
            return vec(lambda i: f"({g} ({a.at(i)}) {b.s})", VB, a.dim)
        if (a.ty, b.ty) == (R, VR):
            return vec(lambda i: f"({g} {a.s} ({b.at(i)}))", VB, b.dim)
        self.fail(e, f"comparison of {a.ty} with {b.ty}")

    # ---- calls ----------------------------------------------------------------------------------------
    def bind(self, e: ast.Call, names, required=None):
        if any(isinstance(a, ast.Starred) for a in e.args) or any(k.arg is None for k in e.keywords):
            self.fail(e, "star arguments")
        if len(e.args) > len(names):
            self.fail(e, "too many arguments")
        got = dict(zip(names, e.args))
        for k in e.keywords:
            if k.arg not in names or k.arg in got:
                self.fail(e, f"keyword argument {k.arg}")
            got[k.arg] = k.value
        for n in (required if required is not None else names):
            if n not in got:
                self.fail(e, f"argument {n} is missing")
        return got

    def axis(self, node, want, what):
        try:
            v = ast.literal_eval(node)
        except (ValueError, SyntaxError):
            v = "?"
        if v != want:
            self.fail(node, f"{what} with axis {ast.unparse(node)} (expected {want})")

    def call(self, e: ast.Call) -> Tm:
        f = e.func
        if isinstance(f, ast.Name) and f.id in self.env and self.env[f.id].ty == LOCALFN:
            self.fail(e, "direct call of a local function")
        if isinstance(f, ast.Name) and f.id in self.w.funcs and f.id not in self.env:
            return self.call_translated(e, self.w.funcs[f.id])
        if isinstance(f, ast.Name) and f.id == "dict" and f.id not in self.env and f.id not in self.w.aliases \
                and ast.unparse(e) == "dict(locals())":
            return Tm("", IGN)
        if isinstance(f, ast.Name) and f.id == "cls" and getattr(self, "cls_ctor", None) and "cls" not in self.env:
            return self.cls_ctor(e)
        name = self.w.canonical(f, self.env)
        h = LIBRARY.get(name)
        if h is None:
            self.fail(e, f"call of {ast.unparse(f)}" + (f" (= {name}, not in the library table)" if name else ""))
        if h.startswith("un_"):
            return self.lib_unary(e, h[3:])
        return getattr(self, "lib_" + h)(e)

    def call_translated(self, e, sig):
        got = self.bind(e, [p["name"] for p in sig["params"]], required=[p["name"] for p in sig["params"] if p["default"] is None and not p["opt"]])
        args = []
        for p in sig["params"]:
            if p["name"] in got:
                t = self.num(self.expr(got[p["name"]]), e)
                if p["opt"]:
                    if t.ty == NONE:
                        args.append("None")
                    elif t.ty == p["ty"]:
                        args.append(f"(Some {t.s})")
                    else:
                        self.fail(e, f"argument {p['name']} is a {t.ty}, expected {p['ty']} or None")
                else:
                    if t.ty != p["ty"]:
                        self.fail(e, f"argument {p['name']} is a {t.ty}, expected {p['ty']}")
                    if t.ty == VR:
                        dim = t.dim
                    args.append(t.s)
            else:
                args.append("None" if p["opt"] else p["default"])
        return Tm(f"({sig['gen']} {dim} " + " ".join(args) + ")", sig["ret"])

    def lib_unary(self, e, fn):
        if len(e.args) != 1 or e.keywords:
            self.fail(e, f"{ast.unparse(e.func)} with other than one positional argument")
        t = self.num(self.expr(e.args[0]), e)
        if t.ty == R:
            return Tm(f"({fn} {t.s})", R)
        if t.ty == VR:
            return vec(lambda i: f"({fn} ({t.at(i)}))", VR, t.dim)
        self.fail(e, f"{ast.unparse(e.func)} of a {t.ty}")

    def lib_sum(self, e):
        got = self.bind(e, ["a", "axis"])
        self.axis(got["axis"], -1, "sum")
        t = self.expr(got["a"])
        if t.ty == VB:
            return Tm(f"(ncount {t.dim} {t.s})", N)
        if t.ty == VR:
            return Tm(f"(rsum {t.dim} {t.s})", R)
        self.fail(e, f"sum of a {t.ty}")

    def lib_where(self, e):
        if len(e.args) != 3 or e.keywords:
            self.fail(e, "where with other than three positional arguments")
        c, a, b = self.expr(e.args[0]), self.num(self.expr(e.args[1]), e), self.num(self.expr(e.args[2]), e)
        if c.ty == B and (a.ty, b.ty) == (R, R):
            return Tm(f"(if {c.s} then {a.s} else {b.s})", R)
        if c.ty == VB and a.ty in (R, VR) and b.ty in (R, VR):
            ga = (lambda i: a.at(i)) if a.ty == VR else (lambda i: a.s)
            gb = (lambda i: b.at(i)) if b.ty == VR else (lambda i: b.s)
            return vec(lambda i: f"(if {c.at(i)} then {ga(i)} else {gb(i)})", VR, c.dim)
        self.fail(e, f"where on {c.ty}, {a.ty}, {b.ty}")

    def lib_fori_loop(self, e):
        got = self.bind(e, ["lower", "upper", "body_fun", "init_val"])
        lo, up, init = self.expr(got["lower"]), self.expr(got["upper"]), self.expr(got["init_val"])
        if not (lo.ty == INT and lo.val == 0):
            self.fail(e, "fori_loop whose lower bound is not the literal 0")
        if init.ty != VR or up.ty != N or up.s != init.dim:
            self.fail(e, "fori_loop that does not run over all positions of its initial vector")
        fn = self.expr(got["body_fun"]) if isinstance(got["body_fun"], ast.Name) else None
        if fn is None or fn.ty != LOCALFN:
            self.fail(e, "fori_loop body that is not a local def")
        d = fn.node
        a = d.args
        if a.vararg or a.kwarg or a.kwonlyargs or a.posonlyargs or a.defaults or len(a.args) != 2 or d.decorator_list:
            self.fail(d, "loop body function that is not def fn(i, x)")
        pi, px = a.args[0].arg, a.args[1].arg
        body = [s for s in d.body if not (isinstance(s, ast.Expr) and isinstance(s.value, ast.Constant))]
        if len(body) != 1 or not isinstance(body[0], ast.Return) or body[0].value is None:
            self.fail(d, "loop body function that is not a single return")
        r = body[0].value
        # x.at[..., i].set(E)
        ok = (isinstance(r, ast.Call) and isinstance(r.func, ast.Attribute) and r.func.attr == "set" and len(r.args) == 1
              and not r.keywords and isinstance(r.func.value, ast.Subscript)
              and isinstance(r.func.value.value, ast.Attribute) and r.func.value.value.attr == "at"
              and isinstance(r.func.value.value.value, ast.Name) and r.func.value.value.value.id == px)
        if ok:
            sl = r.func.value.slice
            idx = sl.elts if isinstance(sl, ast.Tuple) else [sl]
            ok = (len(idx) in (1, 2) and isinstance(idx[-1], ast.Name) and idx[-1].id == pi
                  and (len(idx) == 1 or (isinstance(idx[0], ast.Constant) and idx[0].value is Ellipsis)))
        if not ok:
            self.fail(d, f"loop body other than `return {px}.at[..., {pi}].set(<expr>)`")

        def elt(i):
            sub = Fn(self.w, d, self.dim, self.selfobj)
            sub.env = dict(fn.env)
            sub.env[pi] = Tm(i, N)
            sub.env.pop(px, None)
            t = sub.expr(r.args[0])
            if t.ty != B:
                sub.fail(r, f"loop body sets a {t.ty} (only a boolean mask is supported)")
            return t.s
        elt("i")
        return vec(elt, VB, init.dim)

    def lib_eigvalsh(self, e):
        if len(e.args) != 1 or e.keywords:
            self.fail(e, "eigvalsh with other than one positional argument")
        t = self.expr(e.args[0])
        if t.ty != MAT or not getattr(t, "is_param", False):
            self.fail(e, f"eigvalsh of a {t.ty} that is not a matrix parameter")
        return Tm(t.name, VR, elt=t.elt, dim=t.dim)

    def lib_expand_dims(self, e):
        got = self.bind(e, ["a", "axis"])
        t = self.expr(got["a"])
        if t.ty == R:
            self.axis(got["axis"], (-2, -1), "expand_dims of a scalar")
            return Tm(t.s, R, bcast_mat=True)
        if t.ty == VR:
            self.axis(got["axis"], -2, "expand_dims of a vector")
            return Tm("", ROW, vec_of=t)
        self.fail(e, f"expand_dims of a {t.ty}")

    def lib_swapaxes(self, e):
        got = self.bind(e, ["a", "axis1", "axis2"])
        t = self.expr(got["a"])
        ax = sorted([ast.unparse(got["axis1"]), ast.unparse(got["axis2"])])
        if t.ty != ROW or ax != ["-1", "-2"]:
            self.fail(e, f"swapaxes of a {t.ty} over {ax}")
        return Tm("", COL, vec_of=t.vec_of)

    def lib_squeeze(self, e):
        got = self.bind(e, ["a", "axis"])
        self.axis(got["axis"], (-2, -1), "squeeze")
        t = self.expr(got["a"])
        neg = False
        if t.ty != QF:
            self.fail(e, f"squeeze of a {t.ty}")
        return Tm(t.s, R)

    # copula constructor
    def lib_shape(self, e):
        if len(e.args) != 1 or e.keywords:
            self.fail(e, "shape with other than one argument")
        t = self.expr(e.args[0])
        if not getattr(t, "batch", False):
            self.fail(e, f"shape of a {t.ty}")
        return Tm("<batch shape>", SHAPE, batch_shape=True)

    def lib_zeros(self, e):
        if len(e.args) != 1 or e.keywords:
            self.fail(e, "zeros with other than one argument")
        a = e.args[0]
        if isinstance(a, ast.BinOp) and isinstance(a.op, ast.Add) and ast.unparse(a.right) == "(2,)":
            t = self.expr(a.left)
            if t.ty == SHAPE and getattr(t, "batch_shape", False):
                return Tm("(0, 0)", VEC2)
        self.fail(e, "zeros of a shape other than batch_shape + (2,)")

    def lib_broadcast_to(self, e):
        got = self.bind(e, ["array", "shape"])
        t, s = self.num(self.expr(got["array"]), e), self.expr(got["shape"])
        if t.ty != R or s.ty != SHAPE or not getattr(s, "batch_shape", False):
            self.fail(e, f"broadcast_to of a {t.ty} to a {s.ty}")
        return Tm(t.s, R)

    def lib_stack(self, e):
        got = self.bind(e, ["arrays", "axis"])
        a = got["arrays"]
        if not isinstance(a, (ast.List, ast.Tuple)) or len(a.elts) != 2:
            self.fail(e, "stack of other than a two-element display")
        x, y = (self.num(self.expr(z), e) for z in a.elts)
        if (x.ty, y.ty) == (R, R):
            self.axis(got["axis"], -1, "stack of scalars")
            return Tm(f"({x.s}, {y.s})", ROW2)
        if (x.ty, y.ty) == (ROW2, ROW2):
            self.axis(got["axis"], -2, "stack of rows")
            return Tm(f"({x.s}, {y.s})", MAT2)
        self.fail(e, f"stack of {x.ty} and {y.ty}")

    def lib_all(self, e):
        if len(e.args) != 1 or e.keywords:
            self.fail(e, "all with other than one argument")
        t = self.expr(e.args[0])
        if t.ty != B or not getattr(t, "batch", False):
            self.fail(e, f"all of a {t.ty} that does not range over the batch")
        return Tm(f"(g_all (fun v_dependence => {t.s}) b_dependence)", B)

    def lib_mvn_tril(self, e):
        got = self.bind(e, ["loc", "scale_tril", "validate_args", "allow_nan_stats", "name"], required=["loc", "scale_tril"])
        loc, L = self.expr(got["loc"]), self.expr(got["scale_tril"])
        if (loc.ty, L.ty) != (VEC2, MAT2):
            self.fail(e, f"MultivariateNormalTriL of loc {loc.ty}, scale_tril {L.ty}")
        return Tm(f"(g_mvn_tril {loc.s} {L.s})", DIST)

    def lib_normal_cdf(self, e):
        got = self.bind(e, ["validate_args", "name"], required=[])
        return Tm("", BIJ)

    # ---- statements -----------------------------------------------------------------------------------
    def is_doc(self, s):
        return isinstance(s, ast.Expr) and isinstance(s.value, ast.Constant) and isinstance(s.value.value, str)

    def assign(self, name, t, node):
        """bind a local; returns the `let` line or None"""
        if name == "self" or name in self.w.aliases or name in self.w.defined:
            self.fail(node, f"local variable named {name}")
        x = "v_" + name
        self.used = getattr(self, "used", {})
        if name in self.env or name in self.used:      # a rebinding gets a fresh Gallina name: symbolic values built
            self.used[name] = self.used.get(name, 0) + 1   # from the old binding keep referring to the old one
            x = f"v_{name}_{self.used[name]}"
        else:
            self.used[name] = 0
        if t.ty in (R, B, N, ROW2, MAT2, VEC2):
            keep = {k: v for k, v in t.__dict__.items() if k in ("bcast_mat",)}
            self.env[name] = Tm(x, t.ty, **keep)
            return f"let {x} := {t.s} in"
        if t.ty in (VR, VB):
            self.env[name] = named_vec(x, t.ty, t.dim)
            return f"let {x} := {t.s} in"
        if t.ty == INT:
            self.fail(node, "local bound to an int literal")
        self.env[name] = t          # symbolic values are substituted
        return None

    def body(self, stmts, ret_ty, final=None):
        """returns Gallina text of the statement list; `final(self)` gives the result when the list ends"""
        lets = []
        for k, s in enumerate(stmts):
            if self.is_doc(s):
                continue
            if isinstance(s, ast.Return):
                if stmts[k + 1:]:
                    self.fail(stmts[k + 1], "statement after return")
                if s.value is None:
                    self.fail(s, "return without a value")
                t = self.num(self.expr(s.value), s)
                if getattr(self, "ret_name", None):
                    t = self.ret_name(t, s)
                if t.ty != ret_ty:
                    self.fail(s, f"returns a {t.ty}, expected {ret_ty}")
                return "\n".join(lets + [t.s])
            if isinstance(s, ast.FunctionDef):
                self.env[s.name] = Tm("", LOCALFN, node=s, env=dict(self.env))
                continue
            if isinstance(s, ast.If):
                v = self.static(s.test)
                if v is None:
                    self.fail(s, "`if` whose test is not decided by which optional arguments are None")
                taken = list(s.body if v else s.orelse)
                live = [x for x in taken if not self.is_doc(x)]
                rest = taken if (live and isinstance(live[-1], ast.Return)) else taken + list(stmts[k + 1:])
                return "\n".join(lets + [self.body(rest, ret_ty, final)])
            if isinstance(s, ast.Assign) and len(s.targets) == 1:
                tg = s.targets[0]
                if isinstance(tg, ast.Name):
                    line = self.assign(tg.id, self.expr(s.value), s)
                    if line:
                        lets.append(line)
                    continue
                if isinstance(tg, ast.Tuple) and len(tg.elts) == 2 and all(isinstance(x, ast.Name) for x in tg.elts):
                    t = self.expr(s.value)
                    if t.ty != "<eig pair>":
                        self.fail(s, f"tuple assignment from a {t.ty}")
                    for nm, part in zip(tg.elts, t.parts):
                        if nm.id == "_":
                            continue
                        line = self.assign(nm.id, part, s)
                        if line:
                            lets.append(line)
                    continue
            self.fail(s, "statement " + type(s).__name__ + (" to " + ast.unparse(s.targets[0]) if isinstance(s, ast.Assign) else ""))
        if final is None:
            self.fail(self.node, "function can fall off its end")
        return "\n".join(lets + [final(self)])


def plain_params(w, node, n_skip, allow_defaults=False):
    a = node.args
    if a.vararg or a.kwarg or a.kwonlyargs or a.posonlyargs or (a.defaults and not allow_defaults):
        w.m.fail(node, "parameter list with * / ** / keyword-only / defaults")
    args = list(a.args)
    defaults = [None] * (len(args) - len(a.defaults)) + list(a.defaults)
    return list(zip(args, defaults))[n_skip:]


def decorators(w, node, allowed):
    ds = [ast.unparse(d) for d in node.decorator_list]
    if any(d not in allowed for d in ds):
        w.m.fail(node, "decorator " + ", ".join(ds))
    return ds


# ------------------------------------------------------------------------------------------------- sigmoid
SIG_FUNCS = [("_forward", "gen_asig_forward"), ("_inverse", "gen_asig_inverse"),
             ("_forward_log_det_jacobian", "gen_asig_fldj"), ("_inverse_log_det_jacobian", "gen_asig_ildj")]


def translate_sigmoid(root):
    w = World(root, SIG_PY)
    c = w.m.cls("AlgebraicSigmoid")
    if [w.canonical(b) for b in c.bases] != [TFP + "bijectors.Bijector"] or c.keywords:
        w.m.fail(c, "AlgebraicSigmoid is not a plain subclass of tfb.Bijector")
    known = {"__init__", "_is_increasing"} | {p for p, _ in SIG_FUNCS}
    for st in c.body:
        if isinstance(st, ast.FunctionDef) and st.name not in known:
            w.m.fail(st, f"AlgebraicSigmoid defines {st.name} (it could override what forward / inverse mean)")
        if not isinstance(st, ast.FunctionDef) and not (isinstance(st, ast.Expr) and isinstance(st.value, ast.Constant)):
            w.m.fail(st, "statement in the class body: " + type(st).__name__)
    res = {}
    for py, gen in SIG_FUNCS:
        try:
            node = w.m.find("AlgebraicSigmoid", py)
            decorators(w, node, ())
            ps = plain_params(w, node, 1)
            if len(ps) != 1:
                w.m.fail(node, f"{py} does not take exactly one argument")
            f = Fn(w, node)
            f.env[ps[0][0].arg] = Tm("v_" + ps[0][0].arg, R)
            body = f.body(list(node.body), R)
            res["sig" + py] = {"text": f"Definition {gen} (v_{ps[0][0].arg} : R) : R :=\n{indent(body)}.",
                               "info": [w.m.info(node, "AlgebraicSigmoid." + py)]}
        except Unsupported as ex:
            res["sig" + py] = {"error": str(ex)}
    return res


# ------------------------------------------------------------------------------------------------- copula
def translate_copula(root):
    w = World(root, COP_PY)
    m = w.m
    c = m.cls("GaussianCopula")
    if [w.canonical(b) for b in c.bases] != [TFP + "distributions.TransformedDistribution"] or c.keywords:
        m.fail(c, "GaussianCopula is not a plain subclass of tfd.TransformedDistribution")
    for st in c.body:
        if isinstance(st, ast.FunctionDef) and st.name not in ("__init__", "_parameter_properties"):
            m.fail(st, f"GaussianCopula defines {st.name} (it could override what log_prob means)")
        if not isinstance(st, ast.FunctionDef) and not (isinstance(st, ast.Expr) and isinstance(st.value, ast.Constant)):
            m.fail(st, "statement in the class body: " + type(st).__name__)
    node = m.find("GaussianCopula", "__init__")
    decorators(w, node, ())
    ps = plain_params(w, node, 1, allow_defaults=True)
    names = [p.arg for p, _ in ps]
    if names != ["dependence", "validate_args", "allow_nan_stats", "name"]:
        m.fail(node, f"__init__ takes {names}")
    f = Fn(w, node)
    f.env["dependence"] = Tm("v_dependence", R, batch=True)
    f.env["validate_args"] = Tm("v_validate_args", B)
    f.env["allow_nan_stats"] = Tm("", IGN)
    f.env["name"] = Tm("", IGN)
    lets, guard, final = [], [], {}

    def asserts(stmts):
        out = []
        for s in stmts:
            if not isinstance(s, ast.Assert) or s.msg is not None:
                m.fail(s, "statement under `if validate_args:` that is not a plain assert")
            t = f.expr(s.test)
            if t.ty != B or getattr(t, "batch", False):
                m.fail(s, f"assert of a {t.ty} that is not reduced over the batch")
            out.append(t.s)
        return out

    def walk(stmts):
        for s in stmts:
            if f.is_doc(s):
                continue
            if final:
                if isinstance(s, ast.Assign) and ast.unparse(s.targets[0]) == "self._parameters":
                    continue
                m.fail(s, "statement after super().__init__")
            if isinstance(s, ast.If):
                v = f.static(s.test)
                if v is not None:
                    walk(s.body if v else s.orelse)
                    continue
                if isinstance(s.test, ast.Name) and s.test.id == "validate_args" and not s.orelse \
                        and f.env["validate_args"].s == "v_validate_args":
                    guard.append(asserts(s.body))
                    continue
                m.fail(s, "`if` other than `if validate_args:` over asserts / `if dependence is None`")
            if isinstance(s, ast.Assert):
                m.fail(s, "assert outside `if validate_args:`")
            if isinstance(s, ast.Assign) and len(s.targets) == 1 and isinstance(s.targets[0], ast.Name):
                if s.targets[0].id in ("dependence", "validate_args"):
                    m.fail(s, f"{s.targets[0].id} is reassigned")
                line = f.assign(s.targets[0].id, f.expr(s.value), s)
                if line:
                    lets.append(line)
                continue
            if isinstance(s, ast.Expr) and isinstance(s.value, ast.Call) and ast.unparse(s.value.func) == "super().__init__":
                got = f.bind(s.value, ["distribution", "bijector", "validate_args", "name"], required=["distribution", "bijector"])
                d, b = f.expr(got["distribution"]), f.expr(got["bijector"])
                if (d.ty, b.ty) != (DIST, BIJ):
                    m.fail(s, f"TransformedDistribution of a {d.ty} through a {b.ty}")
                final["dist"] = d.s
                continue
            m.fail(s, "statement " + type(s).__name__)

    walk(list(node.body))
    if not final:
        m.fail(node, "__init__ never calls super().__init__")
    if "scale_tril" not in f.env or f.env["scale_tril"].ty != MAT2:
        m.fail(node, "no local scale_tril of matrix type")
    k = "CtorOk"
    g = k
    for block in reversed(guard):
        inner = g
        for a in reversed(block):
            inner = f"g_assert {a} ({inner})" if inner != "CtorOk" else f"g_assert {a} CtorOk"
        g = f"(if v_validate_args then {inner} else {g})"
    chain = "\n".join(lets)
    text = (f"Definition gen_copula_ctor (v_validate_args : bool) (b_dependence : list R) : ctor_result :=\n  {g}.\n"
            f"Definition gen_copula_scale_tril (v_dependence : R) : g_mat2 :=\n{indent(chain)}\n  v_scale_tril.\n"
            f"Definition gen_copula_log_prob (qnorm : R -> R) (v_dependence u v : R) : R :=\n{indent(chain)}\n"
            f"  g_transformed_normal_cdf qnorm {final['dist']} u v.")
    return {"text": text, "info": [m.info(node, "GaussianCopula.__init__")]}


# ------------------------------------------------------------------------------------------------- mvn
def combos(opts, build):
    """nested match over the None-ness of the optional values; opts = [(scrutinee, binder)]"""
    if not opts:
        return build({})
    arms = []
    for pat in itertools.product([False, True], repeat=len(opts)):
        body = build({b: some for (_, b), some in zip(opts, pat)})
        pats = ", ".join((f"Some {b}" if some else "None") for (_, b), some in zip(opts, pat))
        arms.append(f"| {pats} =>\n{indent(body, 2)}")
    return "match " + ", ".join(s for s, _ in opts) + " with\n" + "\n".join(arms) + "\nend"


def float_default(w, node, d):
    f = Fn(w, node)
    t = f.num(f.expr(d), d)
    if t.ty != R:
        w.m.fail(d, "default value that is not a number literal")
    return t.s


def mvn_module_fn(w, py, gen, ret_ty):
    """_rank(eigenvalues, tol=..) / _log_pdet(eigenvalues, rank=None, tol=..)"""
    node = w.m.find(None, py)
    decorators(w, node, ())
    ps = plain_params(w, node, 0, allow_defaults=True)
    params, opts = [], []
    for a, d in ps:
        if a.arg == "eigenvalues" and d is None:
            params.append({"name": a.arg, "ty": VR, "opt": False, "default": None})
        elif a.arg == "tol" and d is not None:
            params.append({"name": a.arg, "ty": R, "opt": False, "default": float_default(w, node, d)})
        elif a.arg == "rank" and isinstance(d, ast.Constant) and d.value is None:
            params.append({"name": a.arg, "ty": N, "opt": True, "default": None})
            opts.append(("v_rank", "v_rank"))
        else:
            w.m.fail(node, f"parameter {a.arg} of {py}")
    if not params or params[0]["name"] != "eigenvalues":
        w.m.fail(node, f"{py} does not take eigenvalues first")

    def build(some):
        f = Fn(w, node, dim="n")
        for p in params:
            x = "v_" + p["name"]
            if p["ty"] == VR:
                f.env[p["name"]] = named_vec(x, VR, "n")
            elif p["opt"]:
                f.env[p["name"]] = Tm(x, p["ty"]) if some[x] else Tm("None", NONE)
            else:
                f.env[p["name"]] = Tm(x, p["ty"])
        return f.body(list(node.body), ret_ty)

    sig = " ".join(f"(v_{p['name']} : {('option ' + p['ty']) if p['opt'] else p['ty']})" for p in params)
    text = f"Definition {gen} (n : nat) {sig} : {ret_ty} :=\n{indent(combos(opts, build))}."
    w.funcs[py] = {"gen": gen, "params": params, "ret": ret_ty}
    return text, w.m.info(node, py)


SELF_FIELDS = {"_tol": "tol", "_rank": "rank", "_log_pdet": "log_pdet", "_prec": "prec", "_loc": "loc"}


def check_mvn_class(w):
    """the bindings the eigen-coordinate reading of `self` rests on; returns the default of tol"""
    m = w.m
    c = m.cls("MultivariateNormalDegenerate")
    if [w.canonical(b) for b in c.bases] != [TFP + "distributions.Distribution"] or c.keywords:
        m.fail(c, "MultivariateNormalDegenerate is not a plain subclass of tfd.Distribution")
    for st in c.body:
        if isinstance(st, ast.FunctionDef) and st.name in ("log_prob", "_call_log_prob", "__getattr__", "__getattribute__", "__setattr__"):
            m.fail(st, f"the class defines {st.name}")
        if not isinstance(st, ast.FunctionDef) and not (isinstance(st, ast.Expr) and isinstance(st.value, ast.Constant)):
            m.fail(st, "statement in the class body: " + type(st).__name__)
    init = m.find("MultivariateNormalDegenerate", "__init__")
    decorators(w, init, ())
    ps = plain_params(w, init, 1, allow_defaults=True)
    names = [a.arg for a, _ in ps]
    for need in ("loc", "prec", "rank", "log_pdet", "tol"):
        if need not in names:
            m.fail(init, f"__init__ has no parameter {need}")
    dflt = dict((a.arg, d) for a, d in ps)
    for o in ("rank", "log_pdet"):
        if not (isinstance(dflt[o], ast.Constant) and dflt[o].value is None):
            m.fail(init, f"default of {o} is not None")
    if dflt["tol"] is None:
        m.fail(init, "tol has no default")
    tol_default = float_default(w, init, dflt["tol"])
    seen = {}
    protected = {"prec", "rank", "log_pdet", "tol"}
    for s in init.body:
        if isinstance(s, ast.Expr) and isinstance(s.value, ast.Constant):
            continue
        if isinstance(s, ast.Assign) and len(s.targets) == 1:
            tg = s.targets[0]
            if isinstance(tg, ast.Attribute) and isinstance(tg.value, ast.Name) and tg.value.id == "self":
                if tg.attr in SELF_FIELDS:
                    src = SELF_FIELDS[tg.attr]
                    v = s.value
                    direct = isinstance(v, ast.Name) and v.id == src
                    expanded = (isinstance(v, ast.Call) and w.canonical(v.func) == "jax.numpy.expand_dims" and v.args
                                and isinstance(v.args[0], ast.Name) and v.args[0].id == src)
                    if tg.attr in seen or not (direct or (expanded and tg.attr in ("_prec", "_loc"))):
                        m.fail(s, f"binding of self.{tg.attr} other than from the parameter {src}")
                    seen[tg.attr] = True
                    continue
                if any(isinstance(x, ast.Name) and x.id in ("rank", "log_pdet", "tol") for x in ast.walk(s.value)):
                    m.fail(s, f"self.{tg.attr} depends on rank / log_pdet / tol")
                continue
            if isinstance(tg, ast.Name):
                if tg.id in protected:
                    m.fail(s, f"parameter {tg.id} is reassigned in __init__")
                if tg.id == "loc" and not (isinstance(s.value, ast.Call) and w.canonical(s.value.func) == "jax.numpy.atleast_1d"
                                           and ast.unparse(s.value.args[0] if s.value.args else s.value) == "loc"):
                    m.fail(s, "loc is reassigned other than by jnp.atleast_1d(loc)")
                continue
        if isinstance(s, ast.If) and all(isinstance(x, ast.Raise) for x in s.body) and not s.orelse:
            continue
        if isinstance(s, ast.Try) and all(isinstance(x, ast.Expr) for x in s.body) and not s.orelse and not s.finalbody \
                and all(all(isinstance(x, ast.Raise) for x in h.body) for h in s.handlers):
            continue
        if isinstance(s, ast.Expr) and isinstance(s.value, ast.Call) and ast.unparse(s.value.func) == "super().__init__":
            continue
        m.fail(s, "statement in __init__: " + type(s).__name__)
    if set(seen) != set(SELF_FIELDS):
        m.fail(init, f"__init__ binds {sorted(seen)}, expected {sorted(SELF_FIELDS)}")
    # no other store to these attributes anywhere in the class
    n_store = sum(1 for x in ast.walk(c) if isinstance(x, ast.Attribute) and isinstance(x.ctx, (ast.Store, ast.Del))
                  and x.attr in SELF_FIELDS)
    if n_store != len(SELF_FIELDS):
        m.fail(c, "self._tol / _rank / _log_pdet / _prec / _loc are stored to outside the five bindings of __init__")
    # eig = eigh(self._prec)
    eig = m.find("MultivariateNormalDegenerate", "eig")
    decorators(w, eig, ("cached_property", "property"))
    body = [s for s in eig.body if not (isinstance(s, ast.Expr) and isinstance(s.value, ast.Constant))]
    if not (len(body) == 1 and isinstance(body[0], ast.Return) and isinstance(body[0].value, ast.Call)
            and w.canonical(body[0].value.func) == "jax.numpy.linalg.eigh"
            and [ast.unparse(a) for a in body[0].value.args] == ["self._prec"] and not body[0].value.keywords):
        m.fail(eig, "eig is not `return jax.numpy.linalg.eigh(self._prec)`")
    return tol_default, [m.info(init, "MultivariateNormalDegenerate.__init__ (bindings checked)"),
                         m.info(eig, "MultivariateNormalDegenerate.eig (checked)")]


def self_object(w, some, props):
    """what self.<attr> means inside a method: d : mvnd in eigen-coordinates"""
    evals = Tm("", MAT, elt=lambda i: f"evals d {i}", dim="(dim d)", is_self_prec=True, fn="(evals d)")
    obj = {
        "_tol": Tm("(tolv d)", R),
        "_rank": Tm("s_rank", N) if some.get("s_rank") else Tm("None", NONE),
        "_log_pdet": Tm("s_log_pdet", R) if some.get("s_log_pdet") else Tm("None", NONE),
        "_prec": evals,
        "_loc": named_vec("s_loc", VR, "(dim d)"),
        "eig": Tm("", "<eig pair>", parts=[Tm("(evals d)", VR, elt=lambda i: f"evals d {i}", dim="(dim d)"), Tm("", EVECS)]),
    }
    for p, (gen, ty) in props.items():
        obj[p] = Tm(f"({gen} d)", ty)
    return obj


def mvn_property(w, py, gen, ret_ty, field, binder, props):
    node = w.m.find("MultivariateNormalDegenerate", py)
    decorators(w, node, ("cached_property", "property"))
    if plain_params(w, node, 1):
        w.m.fail(node, f"{py} takes arguments")
    opts = [(field, binder)]

    def build(some):
        f = Fn(w, node, dim="(dim d)", selfobj=self_object(w, some, props))
        return f.body(list(node.body), ret_ty)

    text = f"Definition {gen} (d : mvnd) : {ret_ty} :=\n{indent(combos(opts, build))}."
    return text, w.m.info(node, "MultivariateNormalDegenerate." + py)


def mvn_log_prob(w, props):
    node = w.m.find("MultivariateNormalDegenerate", "_log_prob")
    decorators(w, node, ())
    ps = plain_params(w, node, 1)
    if len(ps) != 1:
        w.m.fail(node, "_log_prob does not take exactly one argument")
    x = ps[0][0].arg
    f = Fn(w, node, dim="(dim d)", selfobj=self_object(w, {}, props))
    f.selfobj.pop("_rank"), f.selfobj.pop("_log_pdet")
    f.env[x] = named_vec("v_" + x, VR, "(dim d)")
    body = f.body(list(node.body), R)
    text = f"Definition gen_log_prob (d : mvnd) (v_{x} s_loc : nat -> R) : R :=\n{indent(body)}."
    return text, w.m.info(node, "MultivariateNormalDegenerate._log_prob")


def mvn_from_penalty(w, py, gen, scale_name, tol_default):
    node = w.m.find("MultivariateNormalDegenerate", py)
    if decorators(w, node, ("classmethod",)) != ["classmethod"]:
        w.m.fail(node, f"{py} is not a classmethod")
    ps = plain_params(w, node, 0, allow_defaults=True)
    names = [a.arg for a, _ in ps]
    if names != ["cls", "loc", scale_name, "pen", "rank", "log_pdet", "validate_args", "allow_nan_stats", "name"]:
        w.m.fail(node, f"{py} takes {names}")
    for a, d in ps:
        if a.arg in ("rank", "log_pdet") and not (isinstance(d, ast.Constant) and d.value is None):
            w.m.fail(node, f"default of {a.arg} is not None")
    opts = [("v_rank", "v_rank"), ("v_log_pdet", "v_log_pdet")]

    def build(some):
        f = Fn(w, node, dim="n")
        f.env["loc"] = Tm("", IGN)
        f.env[scale_name] = Tm("v_" + scale_name, R)
        f.env["pen"] = Tm("", MAT, elt=lambda i: f"v_pen {i}", dim="n", is_param=True, name="v_pen")
        f.env["rank"] = Tm("v_rank", N) if some["v_rank"] else Tm("None", NONE)
        f.env["log_pdet"] = Tm("v_log_pdet", R) if some["v_log_pdet"] else Tm("None", NONE)
        for k in ("validate_args", "allow_nan_stats", "name"):
            f.env[k] = Tm("", IGN)

        def cls_ctor(e):
            got = f.bind(e, ["loc", "prec", "rank", "log_pdet", "validate_args", "allow_nan_stats", "name", "tol"],
                         required=["loc", "prec"])
            if e.args:
                f.fail(e, "positional arguments to cls(...)")
            if "tol" in got:
                f.fail(e, "cls(..., tol=..) (the model's from_penalty uses the default)")
            for k in ("loc", "validate_args", "allow_nan_stats", "name"):
                if k in got and ast.unparse(got[k]) != k:
                    f.fail(e, f"cls({k}=...) is not the parameter {k}")
            prec = f.expr(got["prec"])
            if prec.ty != MAT:
                f.fail(e, f"prec is a {prec.ty}")
            fields = []
            for k, ty in (("rank", N), ("log_pdet", R)):
                if k not in got:
                    fields.append("None")
                    continue
                t = f.expr(got[k])
                if t.ty == NONE:
                    fields.append("None")
                elif t.ty == ty:
                    fields.append(f"(Some {t.s})")
                else:
                    f.fail(e, f"cls({k}=...) is a {t.ty}")
            return Tm(f"(mkMvnd n (fun i => {prec.at('i')}) {fields[0]} {fields[1]} {tol_default})", "mvnd")
        f.cls_ctor = cls_ctor
        return f.body(list(node.body), "mvnd")

    text = (f"Definition {gen} (n : nat) (v_pen : nat -> R) (v_{scale_name} : R) (v_rank : option nat) "
            f"(v_log_pdet : option R) : mvnd :=\n{indent(combos(opts, build))}.")
    return text, w.m.info(node, "MultivariateNormalDegenerate." + py)


def translate_mvn(root):
    """returns {section: result}; sections rank, log_pdet, props, log_prob, from_penalty, from_penalty_smooth"""
    res = {}
    try:
        w = World(root, MVN_PY)
    except (Unsupported, OSError, SyntaxError, ValueError) as ex:
        return {k: {"error": str(ex)} for k in MVN_SECTIONS}

    def attempt(sec, fn):
        try:
            res[sec] = fn()
        except Unsupported as ex:
            res[sec] = {"error": str(ex)}
        except RecursionError as ex:
            res[sec] = {"error": "translator recursion limit: " + str(ex)}

    def one(py, gen, ty):
        t, i = mvn_module_fn(w, py, gen, ty)
        return {"text": t, "info": [i]}
    attempt("rank", lambda: one("_rank", "gen_rank", N))
    attempt("log_pdet", lambda: one("_log_pdet", "gen_log_pdet", R))
    cls = {}

    try:
        cls["tol"], cls["info"] = check_mvn_class(w)
    except Unsupported as ex:
        cls["error"] = str(ex)

    def props():
        if "_rank" not in w.funcs or "_log_pdet" not in w.funcs:
            raise Unsupported("needs the translation of _rank and _log_pdet")
        if "error" in cls:
            raise Unsupported(cls["error"])
        info = cls["info"]
        t1, i1 = mvn_property(w, "rank", "gen_prop_rank", N, "rank_arg d", "s_rank", {})
        t2, i2 = mvn_property(w, "log_pdet", "gen_prop_log_pdet", R, "lpd_arg d", "s_log_pdet", {"rank": ("gen_prop_rank", N)})
        cls["props"] = {"rank": ("gen_prop_rank", N), "log_pdet": ("gen_prop_log_pdet", R)}
        return {"text": t1 + "\n" + t2, "info": info + [i1, i2]}
    attempt("props", props)

    def log_prob():
        if "props" not in cls:
            raise Unsupported("needs the translation of the class bindings and of the properties rank / log_pdet")
        t, i = mvn_log_prob(w, cls["props"])
        return {"text": t, "info": [i]}
    attempt("log_prob", log_prob)

    def fp(py, gen, scale):
        if "error" in cls:
            raise Unsupported(cls["error"])
        if "_rank" not in w.funcs or "_log_pdet" not in w.funcs:
            raise Unsupported("needs the translation of _rank and _log_pdet")
        t, i = mvn_from_penalty(w, py, gen, scale, cls["tol"])
        return {"text": t, "info": [i] + cls["info"][:1]}
    attempt("from_penalty", lambda: fp("from_penalty", "gen_from_penalty", "var"))
    attempt("from_penalty_smooth", lambda: fp("from_penalty_smooth", "gen_from_penalty_smooth", "smooth"))
    return res


MVN_SECTIONS = ("rank", "log_pdet", "props", "log_prob", "from_penalty", "from_penalty_smooth")
SIG_SECTIONS = tuple("sig" + py for py, _ in SIG_FUNCS)
SECTIONS = SIG_SECTIONS + ("copula",) + MVN_SECTIONS


def translate(root: str):
    """returns {section: {"text": gallina, "info": [..]} or {"error": message}}"""
    res = {}
    try:
        res.update(translate_sigmoid(root))
    except (Unsupported, OSError, SyntaxError, ValueError, RecursionError) as ex:
        res.update({k: {"error": str(ex)} for k in SIG_SECTIONS})
    try:
        res["copula"] = translate_copula(root)
    except (Unsupported, OSError, SyntaxError, ValueError, RecursionError) as ex:
        res["copula"] = {"error": str(ex)}
    try:
        res.update(translate_mvn(root))
    except RecursionError as ex:
        res.update({k: {"error": "translator recursion limit: " + str(ex)} for k in MVN_SECTIONS if k not in res})
    return res


if __name__ == "__main__":
    r = translate(sys.argv[1] if len(sys.argv) > 1 else "/repo")
    for sec in SECTIONS:
        d = r[sec]
        print(f"(* ---- {sec} ---- *)")
        if "error" in d:
            print("(* FAILED CLOSED:", d["error"], "*)")
        else:
            for i in d["info"]:
                print(f"(* {i['file']} {i['function']} lines {i['lines'][0]}-{i['lines'][1]} sha256 {i['sha256'][:16]} *)")
            print(d["text"])
