#!/bin/bash
# Re-checks the compiled property files (and everything they depend on) with Coq's independent
# checker and records the axioms it reports:  tools/coqchk.sh [C01 C05 ...]   (default: all)
# Output: /verif/coq/assumptions/coqchk_<id>.txt ; takes 1-5 minutes and up to ~4 GB per property.
cd /verif/coq || exit 2
mkdir -p assumptions
ids="$@"; [ -z "$ids" ] && ids=$(ls Properties/*.v | sed 's|Properties/||;s|\.v||')
rc=0
for id in $ids; do
  [ -f Properties/$id.vo ] || { echo "$id: not built"; rc=1; continue; }
  if timeout 1800 coqchk -silent -o -Q . LV LV.Properties.$id > assumptions/coqchk_$id.txt 2>&1; then
    echo "$id: coqchk ok; axioms: $(sed -n '/^\* Axioms:/,/^\* /p' assumptions/coqchk_$id.txt | grep -c '^    ')"
  else echo "$id: coqchk FAILED (see assumptions/coqchk_$id.txt)"; rc=1; fi
done
exit $rc
