#!/usr/bin/env python3
"""py2gallina_c05 - a small FAIL-CLOSED translator from the Python source of liesel/goose/mh.py : mh_step
and of the `_standard_transition` bodies of RWKernel (rw.py), MHKernel (mh_kernel.py) and IWLSKernel
(iwls.py) to Gallina, used by the C05 check (harness/lv/c05_tie.py) on every run to re-establish the C05
theorems for the code as it reads now.  Same design as tools/py2gallina.py (C16), from which it borrows the
`Unsupported` exception; nothing is guessed: every construct and every library call outside the subset /
table below raises `Unsupported` with file:line.

Subset
  statements   docstring; `x = e`; `a, b = e` (tuple unpacking of a tuple-typed value, translated with
               fst / snd); `return e`; `return a, b`.  The body must be straight-line and end in `return`.
  expressions  float / int / bool literals; parameters and assigned locals; `-x`; `+`, `-` on floats; one-operator
               comparisons `< <= > >=` on floats; `& | ~` on bools; tuples; zero-argument lambdas as the branches of
               `jax.lax.cond`; attribute reads and calls listed in the table.
  typing       every value has one of the types  X (float scalar, Coq `xnum` of Base/Xnum.v: NaN, +-inf, exact
               rationals), N (int literal / error code, `nat`), B (bool), K (PRNG key), S (model state), P (position),
               M (model interface: record of log_prob / update_state), I (DefaultTransitionInfo = the model's mh_out),
               KS (kernel state), E (epoch state), U (any array / function value the model does not look into), MHP
               (MHProposal), O (TransitionOutcome = the model's kernel_out), tuples.  Parameter types are read from
               the annotations (KeyArray, ModelInterface, Position, ModelState, float, *KernelState, EpochState, all
               imported from where the source imports them today).  An int literal meets a float by promotion (`1 - u`).

Library-call table (canonical name after resolving the module's import aliases -> Gallina; assumed semantics)
  jax.numpy.isnan / isinf / isfinite (X) -> xisnan / xisinf / xisfinite       IEEE classification
  jax.numpy.exp (X)                      -> exp_o  (oracle, a parameter of the generated function; the theorems
                                            assume `exp_ok exp_o` where the hand-written ones do)
  jax.numpy.clip(x, max=c), minimum(a,b) -> xmin    (NaN propagates; xmin x 1 = the model's xclip_max1)
  jax.numpy.fmin (a, b)                  -> xfmin   (a NaN operand is ignored)
  jax.numpy.maximum (a, b)               -> xmax
  jax.numpy.where (c, a, b)              -> if c then a else b      (scalar condition)
  jax.numpy.nan_to_num (x)               -> xnan_to_num (Goose/MHKernel.v: NaN -> 0, +-inf -> +-float32 max)
  jax.numpy.logical_and / or / not       -> andb / orb / negb
  jax.numpy.inf / jax.numpy.nan          -> XPosInf / XNaN
  jax.lax.cond (c, lambda: a, lambda: b) -> if c then a else b      (both branches are pure expressions)
  jax.random.uniform (key)               -> uniform_o key  (oracle; the theorems assume the draw is in [0,1))
  <M>.log_prob (s), <M>.update_state (p, s) -> m_log_prob / m_update_state of the model record (pure functions)
  .kernel.DefaultTransitionInfo (..)     -> mkMH, arguments matched to the dataclass fields of the source
                                            (error_code -> code, acceptance_prob -> prob, position_moved -> accept)
 kernel level only (all of these are UNINTERPRETED oracles, fields of the record `koracles` of GenC05Tie.v; assumed:
 each is a pure function of its arguments; their meaning is the subject of other properties, e.g. C06):
  jax.random.split (key)                 -> o_split : K -> K * K
  <KS>.step_size                         -> o_step_size
  self.position (s)                      -> o_position : S -> P
  self.model                             -> the model record the kernel was given
  jax.flatten_util.ravel_pytree (p)      -> o_ravel : P -> U * (U -> P);  calling the returned function applies it
  <U>.shape, jax.random.normal (key, shape) -> o_shape, o_normal
  + - * / ** on U (int literals via o_lit) -> o_add o_sub o_mul o_div o_pow
  self._proposal_fn (key, s, step)       -> o_proposal_fn : K -> S -> U -> MHP;  <MHP>.position / .log_correction
  self._flat_log_prob_fn, jax.grad, jax.jacfwd, self._score, self._chol_info, .iwls_utils.solve / mvn_sample
                                         -> o_flat_log_prob_fn, o_grad, o_jacfwd, o_score, o_chol_info, o_solve, o_mvn_sample
  .iwls_utils.mvn_log_prob (x, mu, chol) -> o_mvn_log_prob : U -> U -> U -> xnum
  .mh.mh_step (..)                       -> gen_mh_step (the translated function; a missing log_correction is the
                                            default read from its signature)
  .kernel.TransitionOutcome (..)         -> mkKO, arguments matched to the dataclass fields (info, kernel_state, model_state)

Command line:  py2gallina_c05.py <repo-root>      prints the generated definitions.
"""
from __future__ import annotations

import ast
import hashlib
import importlib.util
import os
import sys
from fractions import Fraction

_here = os.path.dirname(os.path.abspath(__file__))
_spec = importlib.util.spec_from_file_location("py2gallina", os.path.join(_here, "py2gallina.py"))
_base = importlib.util.module_from_spec(_spec)
_spec.loader.exec_module(_base)
Unsupported = _base.Unsupported
indent = _base.indent

MH_PY = "liesel/goose/mh.py"
KERNEL_PY = "liesel/goose/kernel.py"
KERNELS = {"rw": ("liesel/goose/rw.py", "RWKernel"), "mhk": ("liesel/goose/mh_kernel.py", "MHKernel"),
           "iwls": ("liesel/goose/iwls.py", "IWLSKernel")}

GTYPE = {"X": "xnum", "N": "nat", "B": "bool", "K": "K", "S": "S", "P": "P", "M": "gmodel S P", "I": "mh_out",
         "U": "U", "KS": "KS", "E": "E", "MHP": "MHP", "O": "kernel_out S KS", "UF": "U -> P"}

ANNOT = {".types.KeyArray": "K", ".types.ModelInterface": "M", ".types.Position": "P", ".types.ModelState": "S",
         "float": "X", ".epoch.EpochState": "E"}


def gty(t):
    if isinstance(t, tuple):
        return "(" + " * ".join(gty(x) for x in t[1:]) + ")"
    return GTYPE[t]


def qlit(x: float) -> str:
    f = Fraction(x)
    n = f"({f.numerator})" if f.numerator < 0 else str(f.numerator)
    return f"(XFin ({n} # {f.denominator}))"


class Tm:
    def __init__(self, s, ty, intlit=None):
        self.s, self.ty, self.intlit = s, ty, intlit


class Module:
    """one parsed source file with its import aliases"""

    def __init__(self, root, rel):
        self.rel = rel
        self.path = os.path.join(root, rel)
        self.src = open(self.path, encoding="utf8").read()
        self.tree = ast.parse(self.src, filename=self.path)
        self.alias = {}          # local name -> canonical dotted name
        self.bound = {}          # module level name -> number of bindings
        self._toplevel()

    def fail(self, node, what):
        raise Unsupported(f"{self.rel}:{getattr(node, 'lineno', '?')}: unsupported: {what}")

    def _bind(self, name):
        self.bound[name] = self.bound.get(name, 0) + 1

    def _toplevel(self):
        """module level: docstrings, imports, classes, functions, plain assignments; anything else (conditional
        definitions, monkey patching, try/except imports) could change what a name means"""
        for st in self.tree.body:
            if isinstance(st, ast.Import):
                for a in st.names:
                    if a.asname:
                        self.alias[a.asname] = a.name
                        self._bind(a.asname)
                    else:
                        top = a.name.split(".")[0]
                        self.alias[top] = top
                        if self.bound.get(top, 0) == 0:
                            self._bind(top)
            elif isinstance(st, ast.ImportFrom):
                mod = "." * st.level + (st.module or "")
                for a in st.names:
                    if a.name == "*":
                        self.fail(st, "star import")
                    self.alias[a.asname or a.name] = mod + "." + a.name
                    self._bind(a.asname or a.name)
            elif isinstance(st, (ast.ClassDef, ast.FunctionDef)):
                self._bind(st.name)
            elif isinstance(st, ast.Expr) and isinstance(st.value, ast.Constant) and isinstance(st.value.value, str):
                pass
            elif isinstance(st, ast.Assign) and all(isinstance(t, ast.Name) for t in st.targets):
                for t in st.targets:
                    self._bind(t.id)
            elif isinstance(st, ast.AnnAssign) and isinstance(st.target, ast.Name):
                self._bind(st.target.id)
            else:
                self.fail(st, "module level statement " + type(st).__name__)

    def canon(self, node, locals_):
        """canonical dotted name of a Name / Attribute chain rooted in an imported name, else None"""
        parts = []
        n = node
        while isinstance(n, ast.Attribute):
            parts.append(n.attr)
            n = n.value
        if not isinstance(n, ast.Name) or n.id in locals_:
            return None
        if n.id in ("float", "int", "bool") and not parts and n.id not in self.bound:
            return n.id
        if n.id not in self.alias:
            return None
        if self.bound.get(n.id, 0) != 1:
            self.fail(node, f"module level name {n.id} is bound {self.bound.get(n.id, 0)} times")
        return ".".join([self.alias[n.id]] + list(reversed(parts)))

    def find(self, cls, func):
        body = self.tree.body
        if cls is not None:
            cs = [n for n in body if isinstance(n, ast.ClassDef) and n.name == cls]
            if len(cs) != 1:
                raise Unsupported(f"{self.rel}: class {cls} not found exactly once")
            body = cs[0].body
        fs = [n for n in body if isinstance(n, (ast.FunctionDef, ast.AsyncFunctionDef)) and n.name == func]
        if len(fs) != 1 or not isinstance(fs[0], ast.FunctionDef):
            raise Unsupported(f"{self.rel}: function {(cls + '.') if cls else ''}{func} not found exactly once")
        if cls is None and self.bound.get(func, 0) != 1:
            raise Unsupported(f"{self.rel}: module level name {func} is bound {self.bound.get(func, 0)} times")
        return fs[0]

    def info(self, node, what):
        seg = ast.get_source_segment(self.src, node) or ""
        return {"file": self.rel, "function": what, "lines": [node.lineno, node.end_lineno],
                "sha256": hashlib.sha256(seg.encode("utf8")).hexdigest()}


def dataclass_fields(m: Module, name, want):
    """positional field order of a plain @dataclass of kernel.py"""
    cs = [n for n in m.tree.body if isinstance(n, ast.ClassDef) and n.name == name]
    if len(cs) != 1:
        raise Unsupported(f"{m.rel}: class {name} not found exactly once")
    c = cs[0]
    decos = [ast.unparse(d) for d in c.decorator_list]
    if "dataclass" not in decos or any(d not in ("dataclass", "register_dataclass_as_pytree") for d in decos):
        m.fail(c, f"{name} is not a plain @dataclass (decorators {decos})")
    for b in c.bases:
        if not ast.unparse(b).startswith("Generic["):
            m.fail(c, f"{name} has the base class {ast.unparse(b)}")
    fields = []
    for st in c.body:
        if isinstance(st, ast.AnnAssign) and isinstance(st.target, ast.Name):
            if st.value is not None:
                m.fail(st, "dataclass field with a default value")
            fields.append(st.target.id)
        elif isinstance(st, ast.FunctionDef):
            if st.name.startswith("__"):
                m.fail(st, f"{name} defines {st.name}")
        elif isinstance(st, ast.Expr) and isinstance(st.value, ast.Constant) and isinstance(st.value.value, str):
            pass
        else:
            m.fail(st, f"statement in the {name} class body: " + type(st).__name__)
    if sorted(fields) != sorted(want):
        m.fail(c, f"{name} fields are {fields}, expected {want}")
    return fields


class World:
    def __init__(self, root):
        self.root = root
        self.kernel = Module(root, KERNEL_PY)
        self.info_fields = dataclass_fields(self.kernel, "DefaultTransitionInfo", ["error_code", "acceptance_prob", "position_moved"])
        self.out_fields = dataclass_fields(self.kernel, "TransitionOutcome", ["info", "kernel_state", "model_state"])
        self.mh_sig = None       # parameters of the translated mh_step: [(name, type)], default of the X parameter


U_OPS = {ast.Add: "o_add", ast.Sub: "o_sub", ast.Mult: "o_mul", ast.Div: "o_div", ast.Pow: "o_pow"}


class Fn:
    """translation of one straight-line function body"""

    def __init__(self, world: World, mod: Module, node: ast.FunctionDef, kernel=False):
        self.w, self.m, self.node, self.kernel = world, mod, node, kernel
        self.env = {}
        self.tmp = 0
        self.uses = set()

    def fail(self, node, what):
        self.m.fail(node, what)

    @staticmethod
    def v(name):
        return "v_" + name

    # ---- helpers ---------------------------------------------------------------------------------
    def to_x(self, t: Tm, node):
        """a float operand; an int literal is promoted"""
        if t.ty == "X":
            return t
        if t.ty == "N" and t.intlit is not None:
            return Tm(qlit(float(t.intlit)), "X")
        self.fail(node, f"a {t.ty} where a float scalar is needed")

    def to_u(self, t: Tm, node):
        if t.ty == "U":
            return t
        if t.ty == "N" and t.intlit is not None:
            n = t.intlit
            return Tm(f"(o_lit o ({n})%Z)", "U")
        self.fail(node, f"a {t.ty} where an array value is needed")

    def unify(self, a: Tm, b: Tm, node):
        if a.ty == b.ty:
            return a, b
        if a.ty == "X" or b.ty == "X":
            return self.to_x(a, node), self.to_x(b, node)
        self.fail(node, f"branches of different types {a.ty} / {b.ty}")

    def args_only(self, e: ast.Call, n, what, kw=()):
        if any(isinstance(a, ast.Starred) for a in e.args) or any(k.arg is None for k in e.keywords):
            self.fail(e, f"star arguments in the call of {what}")
        if len(e.args) != n or sorted(k.arg for k in e.keywords) != sorted(kw):
            self.fail(e, f"{what} called with {len(e.args)} positional / {[k.arg for k in e.keywords]} keyword arguments "
                         f"(supported: {n} positional, keywords {list(kw)})")
        return [self.expr(a) for a in e.args], {k.arg: self.expr(k.value) for k in e.keywords}

    def thunk(self, e, what):
        if not isinstance(e, ast.Lambda):
            self.fail(e, f"{what} branch that is not a lambda")
        a = e.args
        if a.args or a.vararg or a.kwarg or a.kwonlyargs or a.posonlyargs:
            self.fail(e, f"{what} branch lambda with parameters")
        return self.expr(e.body)

    # ---- expressions -----------------------------------------------------------------------------
    def expr(self, e) -> Tm:
        if isinstance(e, ast.Constant):
            if type(e.value) is bool:
                return Tm("true" if e.value else "false", "B")
            if type(e.value) is int:
                if not 0 <= e.value < 5000:
                    return Tm(f"({e.value})%Z", "Zlit", intlit=e.value) if self.kernel else self.fail(e, f"int literal {e.value}")
                return Tm(f"{e.value}%nat", "N", intlit=e.value)
            if type(e.value) is float:
                return Tm(qlit(e.value), "X")
            self.fail(e, f"constant {e.value!r}")
        if isinstance(e, ast.Name):
            if e.id in self.env:
                return Tm(self.v(e.id), self.env[e.id])
            self.fail(e, f"name {e.id} (not a parameter or an assigned local)")
        if isinstance(e, ast.Tuple):
            ts = [self.expr(x) for x in e.elts]
            if len(ts) < 2:
                self.fail(e, "tuple with fewer than two elements")
            return Tm("(" + ", ".join(t.s for t in ts) + ")", ("T",) + tuple(t.ty for t in ts))
        if isinstance(e, ast.UnaryOp):
            t = self.expr(e.operand)
            if isinstance(e.op, ast.USub):
                if t.ty == "X":
                    return Tm(f"(xneg {t.s})", "X")
                if t.ty == "U":
                    self.fail(e, "unary minus on an array value")
                self.fail(e, f"unary minus on a {t.ty}")
            if isinstance(e.op, ast.Invert) and t.ty == "B":
                return Tm(f"(negb {t.s})", "B")
            self.fail(e, "unary operator " + type(e.op).__name__ + f" on a {t.ty}")
        if isinstance(e, ast.BinOp):
            a, b = self.expr(e.left), self.expr(e.right)
            if a.ty == "B" and b.ty == "B" and isinstance(e.op, (ast.BitAnd, ast.BitOr)):
                return Tm(f"({'andb' if isinstance(e.op, ast.BitAnd) else 'orb'} {a.s} {b.s})", "B")
            if "U" in (a.ty, b.ty) and type(e.op) in U_OPS and self.kernel:
                a, b = self.to_u(a, e), self.to_u(b, e)
                self.uses.add("o")
                return Tm(f"({U_OPS[type(e.op)]} o {a.s} {b.s})", "U")
            if "X" in (a.ty, b.ty) and isinstance(e.op, (ast.Add, ast.Sub)):
                a, b = self.to_x(a, e), self.to_x(b, e)
                return Tm(f"({'xadd' if isinstance(e.op, ast.Add) else 'xsub'} {a.s} {b.s})", "X")
            self.fail(e, f"operator {type(e.op).__name__} on {a.ty} and {b.ty}")
        if isinstance(e, ast.Compare):
            if len(e.ops) != 1:
                self.fail(e, "chained comparison")
            a, b = self.expr(e.left), self.expr(e.comparators[0])
            if "X" not in (a.ty, b.ty):
                self.fail(e, f"comparison of {a.ty} with {b.ty} (only float scalars)")
            a, b = self.to_x(a, e), self.to_x(b, e)
            ops = {ast.Lt: "xlt", ast.LtE: "xle", ast.Gt: "xgt", ast.GtE: "xge"}
            f = ops.get(type(e.ops[0]))
            if f is None:
                self.fail(e, "comparison operator " + type(e.ops[0]).__name__)
            return Tm(f"({f} {a.s} {b.s})", "B")
        if isinstance(e, ast.Attribute):
            return self.attribute(e)
        if isinstance(e, ast.Call):
            return self.call(e)
        self.fail(e, "expression " + type(e).__name__)

    def attribute(self, e: ast.Attribute) -> Tm:
        c = self.m.canon(e, self.env)
        if c == "jax.numpy.inf":
            return Tm("XPosInf", "X")
        if c == "jax.numpy.nan":
            return Tm("XNaN", "X")
        if c is not None:
            self.fail(e, f"library attribute {c} (not in the table)")
        if self.kernel and isinstance(e.value, ast.Name) and e.value.id == "self" and "self" not in self.env:
            if e.attr == "model":
                return Tm("v_self_model", "M")
            self.fail(e, f"self.{e.attr} (not in the table)")
        t = self.expr(e.value)
        if self.kernel:
            tab = {("KS", "step_size"): ("o_step_size", "U"), ("U", "shape"): ("o_shape", "U"),
                   ("MHP", "position"): ("o_mhp_position", "P"), ("MHP", "log_correction"): ("o_mhp_log_correction", "X")}
            if (t.ty, e.attr) in tab:
                f, ty = tab[(t.ty, e.attr)]
                return Tm(f"({f} o {t.s})", ty)
        self.fail(e, f"attribute .{e.attr} of a {t.ty if not isinstance(t.ty, tuple) else 'tuple'}")

    def call(self, e: ast.Call) -> Tm:
        c = self.m.canon(e.func, self.env)
        if c is not None:
            return self.libcall(e, c)
        f = e.func
        # method calls on typed values
        if isinstance(f, ast.Attribute):
            if self.kernel and isinstance(f.value, ast.Name) and f.value.id == "self" and "self" not in self.env:
                tab = {"position": ("o_position", ["S"], "P"), "_proposal_fn": ("o_proposal_fn", ["K", "S", "U"], "MHP"),
                       "_flat_log_prob_fn": ("o_flat_log_prob_fn", ["S", "UF"], "U"), "_score": ("o_score", ["S", "U"], "U"),
                       "_chol_info": ("o_chol_info", ["S", "U"], "U")}
                if f.attr not in tab:
                    self.fail(e, f"call of self.{f.attr} (not in the table)")
                return self.oracle(e, f"self.{f.attr}", *tab[f.attr])
            recv = self.expr(f.value)
            if recv.ty == "M" and f.attr in ("log_prob", "update_state"):
                if f.attr == "log_prob":
                    (a,), _ = self.args_only(e, 1, "model.log_prob")
                    if a.ty != "S":
                        self.fail(e, f"model.log_prob of a {a.ty}")
                    return Tm(f"(m_log_prob {recv.s} {a.s})", "X")
                (a, b), _ = self.args_only(e, 2, "model.update_state")
                if (a.ty, b.ty) != ("P", "S"):
                    self.fail(e, f"model.update_state of ({a.ty}, {b.ty})")
                return Tm(f"(m_update_state {recv.s} {a.s} {b.s})", "S")
            self.fail(e, f"method .{f.attr} of a {recv.ty}")
        if isinstance(f, ast.Name) and f.id in self.env and self.env[f.id] == "UF":
            (a,), _ = self.args_only(e, 1, f.id)
            if a.ty != "U":
                self.fail(e, f"unravel function applied to a {a.ty}")
            return Tm(f"({self.v(f.id)} {a.s})", "P")
        self.fail(e, f"call of {ast.unparse(f)[:40]} (not in the table)")

    def oracle(self, e, what, name, argtys, ret):
        args, _ = self.args_only(e, len(argtys), what)
        out = []
        for a, ty in zip(args, argtys):
            if ty == "U":
                a = self.to_u(a, e)
            if a.ty != ty:
                self.fail(e, f"{what}: argument of type {a.ty}, expected {ty}")
            out.append(a.s)
        return Tm(f"({name} o {' '.join(out)})", ret)

    def libcall(self, e: ast.Call, c: str) -> Tm:
        x1 = {"jax.numpy.isnan": ("xisnan", "B"), "jax.numpy.isinf": ("xisinf", "B"), "jax.numpy.isfinite": ("xisfinite", "B"),
              "jax.numpy.exp": ("exp_o", "X"), "jax.numpy.nan_to_num": ("xnan_to_num", "X")}
        if c in x1:
            (a,), _ = self.args_only(e, 1, c)
            a = self.to_x(a, e)
            if c == "jax.numpy.exp":
                self.uses.add("exp_o")
            return Tm(f"({x1[c][0]} {a.s})", x1[c][1])
        x2 = {"jax.numpy.minimum": "xmin", "jax.numpy.fmin": "xfmin", "jax.numpy.maximum": "xmax"}
        if c in x2:
            (a, b), _ = self.args_only(e, 2, c)
            return Tm(f"({x2[c]} {self.to_x(a, e).s} {self.to_x(b, e).s})", "X")
        if c == "jax.numpy.clip":
            (a,), kw = self.args_only(e, 1, c, kw=("max",))
            return Tm(f"(xmin {self.to_x(a, e).s} {self.to_x(kw['max'], e).s})", "X")
        b2 = {"jax.numpy.logical_and": "andb", "jax.numpy.logical_or": "orb"}
        if c in b2:
            (a, b), _ = self.args_only(e, 2, c)
            if (a.ty, b.ty) != ("B", "B"):
                self.fail(e, f"{c} on {a.ty}, {b.ty}")
            return Tm(f"({b2[c]} {a.s} {b.s})", "B")
        if c == "jax.numpy.logical_not":
            (a,), _ = self.args_only(e, 1, c)
            if a.ty != "B":
                self.fail(e, f"{c} on {a.ty}")
            return Tm(f"(negb {a.s})", "B")
        if c in ("jax.numpy.where", "jax.lax.cond"):
            if len(e.args) != 3 or e.keywords:
                self.fail(e, f"{c} with other than three positional arguments")
            t = self.expr(e.args[0])
            if t.ty != "B":
                self.fail(e, f"{c} on a condition of type {t.ty}")
            if c == "jax.lax.cond":
                a, b = self.thunk(e.args[1], c), self.thunk(e.args[2], c)
            else:
                a, b = self.expr(e.args[1]), self.expr(e.args[2])
            if isinstance(a.ty, tuple) and isinstance(b.ty, tuple) and len(a.ty) == len(b.ty) and a.ty != b.ty:
                self.fail(e, f"{c}: tuple branches of different types")
            a, b = self.unify(a, b, e)
            return Tm(f"(if {t.s} then {a.s} else {b.s})", a.ty)
        if c == "jax.random.uniform":
            (a,), _ = self.args_only(e, 1, c)
            if a.ty != "K":
                self.fail(e, f"{c} of a {a.ty}")
            self.uses.add("uniform_o")
            return Tm(f"(uniform_o {a.s})", "X")
        if c == ".kernel.DefaultTransitionInfo":
            ts = self.by_fields(e, self.w.info_fields, c)
            want = {"error_code": "N", "acceptance_prob": "X", "position_moved": "B"}
            for f, ty in want.items():
                if ts[f].ty != ty:
                    self.fail(e, f"DefaultTransitionInfo.{f} given a {ts[f].ty}, expected {ty}")
            return Tm(f"(mkMH {ts['error_code'].s} {ts['acceptance_prob'].s} {ts['position_moved'].s})", "I")
        if self.kernel:
            return self.kernel_libcall(e, c)
        self.fail(e, f"call of {c} (not in the table)")

    def by_fields(self, e: ast.Call, fields, what):
        if any(isinstance(a, ast.Starred) for a in e.args) or any(k.arg is None for k in e.keywords):
            self.fail(e, f"star arguments in the call of {what}")
        given = {}
        if len(e.args) > len(fields):
            self.fail(e, f"too many arguments for {what}")
        for f, a in zip(fields, e.args):
            given[f] = a
        for k in e.keywords:
            if k.arg in given or k.arg not in fields:
                self.fail(e, f"keyword argument {k.arg} of {what}")
            given[k.arg] = k.value
        if sorted(given) != sorted(fields):
            self.fail(e, f"{what} call that does not give every field")
        return {f: self.expr(a) for f, a in given.items()}

    def kernel_libcall(self, e, c):
        tab = {"jax.random.split": ("o_split", ["K"], ("T", "K", "K")),
               "jax.flatten_util.ravel_pytree": ("o_ravel", ["P"], ("T", "U", "UF")),
               "jax.random.normal": ("o_normal", ["K", "U"], "U"),
               "jax.grad": ("o_grad", ["U"], "U"), "jax.jacfwd": ("o_jacfwd", ["U"], "U"),
               ".iwls_utils.solve": ("o_solve", ["U", "U"], "U"),
               ".iwls_utils.mvn_sample": ("o_mvn_sample", ["K", "U", "U"], "U"),
               ".iwls_utils.mvn_log_prob": ("o_mvn_log_prob", ["U", "U", "U"], "X")}
        if c in tab:
            return self.oracle(e, c, *tab[c])
        if c == ".mh.mh_step":
            sig = self.w.mh_sig
            if sig is None:
                self.fail(e, "call of mh_step, whose translation failed")
            params, default = sig
            given = self.by_fields_default(e, [p for p, _ in params], "mh_step", default)
            args = []
            for p, ty in params:
                t = given[p]
                if ty == "X":
                    t = self.to_x(t, e) if not isinstance(t, str) else Tm(t, "X")
                if t.ty != ty:
                    self.fail(e, f"mh_step: argument {p} of type {t.ty}, expected {ty}")
                args.append(t.s)
            self.uses.update(("exp_o", "uniform_o"))
            return Tm(f"(gen_mh_step exp_o uniform_o {' '.join(args)})", ("T", "I", "S"))
        if c == ".kernel.TransitionOutcome":
            ts = self.by_fields(e, self.w.out_fields, c)
            want = {"info": "I", "kernel_state": "KS", "model_state": "S"}
            for f, ty in want.items():
                if ts[f].ty != ty:
                    self.fail(e, f"TransitionOutcome.{f} given a {ts[f].ty}, expected {ty}")
            return Tm(f"(mkKO {ts['info'].s} {ts['kernel_state'].s} {ts['model_state'].s})", "O")
        self.fail(e, f"call of {c} (not in the table)")

    def by_fields_default(self, e, fields, what, default):
        if any(isinstance(a, ast.Starred) for a in e.args) or any(k.arg is None for k in e.keywords):
            self.fail(e, f"star arguments in the call of {what}")
        given = {}
        if len(e.args) > len(fields):
            self.fail(e, f"too many arguments for {what}")
        for f, a in zip(fields, e.args):
            given[f] = self.expr(a)
        for k in e.keywords:
            if k.arg in given or k.arg not in fields:
                self.fail(e, f"keyword argument {k.arg} of {what}")
            given[k.arg] = self.expr(k.value)
        for f in fields:
            if f not in given:
                if default is None or f != default[0]:
                    self.fail(e, f"{what}: argument {f} missing")
                given[f] = Tm("gen_mh_step_default_" + f, "X")
        return given

    # ---- statements ------------------------------------------------------------------------------
    def bind(self, name, t: Tm, node):
        if name in ("self", "jax", "jnp") or name in self.m.alias:
            self.fail(node, f"local variable named {name}")
        if t.ty == "Zlit":
            self.fail(node, "variable holding a large int literal")
        self.env[name] = t.ty
        return f"let {self.v(name)} := {t.s} in"

    def body(self, stmts):
        lines = []
        for k, s in enumerate(stmts):
            if isinstance(s, ast.Expr) and isinstance(s.value, ast.Constant) and isinstance(s.value.value, str):
                continue
            if isinstance(s, ast.Return):
                if k != len(stmts) - 1:
                    self.fail(stmts[k + 1], "statement after return")
                if s.value is None:
                    self.fail(s, "return without a value")
                t = self.expr(s.value)
                lines.append(t.s)
                return "\n".join(lines), t.ty
            if isinstance(s, ast.Assign):
                if len(s.targets) != 1:
                    self.fail(s, "multiple assignment targets")
                tg = s.targets[0]
                t = self.expr(s.value)
                if isinstance(tg, ast.Name):
                    lines.append(self.bind(tg.id, t, s))
                    continue
                if isinstance(tg, ast.Tuple) and all(isinstance(x, ast.Name) for x in tg.elts):
                    if not isinstance(t.ty, tuple) or len(t.ty) - 1 != len(tg.elts):
                        self.fail(s, f"unpacking a {t.ty if not isinstance(t.ty, tuple) else str(len(t.ty) - 1) + '-tuple'} into {len(tg.elts)} names")
                    if len({x.id for x in tg.elts}) != len(tg.elts):
                        self.fail(s, "a name twice in one unpacking")
                    self.tmp += 1
                    tn = f"t{self.tmp}_"
                    lines.append(f"let {tn} := {t.s} in")
                    n = len(tg.elts)
                    for i, x in enumerate(tg.elts):
                        # (a, b, c) is ((a, b), c)
                        proj = tn
                        for _ in range(n - 1 - i):
                            proj = f"(fst {proj})"
                        if i > 0:
                            proj = f"(snd {proj})"
                        lines.append(self.bind(x.id, Tm(proj, t.ty[i + 1]), s))
                    continue
                self.fail(s, "assignment target " + ast.unparse(tg)[:40])
            self.fail(s, "statement " + type(s).__name__)
        self.fail(self.node, "function can fall off its end")


def params_of(m: Module, node: ast.FunctionDef, extra=None, first_self=False):
    a = node.args
    if a.vararg or a.kwarg or a.kwonlyargs or a.posonlyargs or a.kw_defaults:
        m.fail(node, "parameter list with * / ** / keyword-only / positional-only parameters")
    if node.decorator_list:
        m.fail(node, "decorated function: " + ast.unparse(node.decorator_list[0])[:40])
    args = list(a.args)
    if first_self:
        if not args or args[0].arg != "self":
            m.fail(node, "method without self")
        args = args[1:]
    out = []
    for x in args:
        if x.annotation is None:
            m.fail(node, f"parameter {x.arg} has no annotation")
        c = m.canon(x.annotation, set())
        ty = ANNOT.get(c) or (extra or {}).get(c)
        if ty is None:
            m.fail(node, f"parameter {x.arg} is annotated {ast.unparse(x.annotation)} (= {c}), not a type of the subset")
        out.append((x.arg, ty))
    return out


def translate_mh_step(w: World):
    m = Module(w.root, MH_PY)
    node = m.find(None, "mh_step")
    params = params_of(m, node)
    roles = sorted(ty for _, ty in params)
    if roles != sorted(["K", "M", "P", "S", "X"]):
        m.fail(node, f"mh_step parameters have the types {[t for _, t in params]}, expected one each of key, model, position, state, float")
    defaults = node.args.defaults
    default = None
    if defaults:
        if len(defaults) != 1 or params[-1][1] != "X":
            m.fail(node, "default values other than one for the trailing float parameter")
        d = defaults[0]
        if not (isinstance(d, ast.Constant) and type(d.value) in (float, int) and type(d.value) is not bool):
            m.fail(node, "default value that is not a number literal")
        default = (params[-1][0], float(d.value))
    f = Fn(w, m, node)
    for p, ty in params:
        f.env[p] = ty
    body, ty = f.body(node.body)
    if ty != ("T", "I", "S"):
        m.fail(node, f"mh_step returns a {ty}, expected (DefaultTransitionInfo, model state)")
    ps = " ".join(f"({f.v(p)} : {gty(t)})" for p, t in params)
    txt = (f"Definition gen_mh_step {{K S P : Type}} (exp_o : xnum -> xnum) (uniform_o : K -> xnum)\n    {ps}\n"
           f"    : mh_out * S :=\n{indent(body)}.")
    if default is not None:
        txt += f"\nDefinition gen_mh_step_default_{default[0]} : xnum := {qlit(default[1])}."
    w.mh_sig = (params, default)
    info = m.info(node, "mh_step")
    info["params"] = [[p, t] for p, t in params]
    info["default"] = list(default) if default else None
    info["oracles"] = sorted(f.uses)
    return txt, info


def translate_kernel(w: World, key):
    rel, cls = KERNELS[key]
    m = Module(w.root, rel)
    node = m.find(cls, "_standard_transition")
    cnode = [n for n in m.tree.body if isinstance(n, ast.ClassDef) and n.name == cls][0]
    if cnode.decorator_list or cnode.keywords:
        m.fail(cnode, f"decorated class / metaclass: {cls}")
    bases = [ast.unparse(b).split("[")[0] for b in cnode.bases]
    if bases != ["ModelMixin", "TransitionMixin"] or m.alias.get("ModelMixin") != ".kernel.ModelMixin" \
            or m.alias.get("TransitionMixin") != ".kernel.TransitionMixin":
        m.fail(cnode, f"{cls} has the base classes {bases}, expected kernel.ModelMixin, kernel.TransitionMixin")
    ks_names = {".rw.RWKernelState": "KS"}
    # the kernel state class of the module itself (RWKernelState in rw.py, IWLSKernelState in iwls.py)
    for n in m.tree.body:
        if isinstance(n, ast.ClassDef) and n.name.endswith("KernelState"):
            m.alias.setdefault(n.name, "." + os.path.basename(rel)[:-3] + "." + n.name)
            ks_names["." + os.path.basename(rel)[:-3] + "." + n.name] = "KS"
    params = params_of(m, node, extra=ks_names, first_self=True)
    if [t for _, t in params] != ["K", "KS", "S", "E"]:
        m.fail(node, f"_standard_transition parameters have the types {[t for _, t in params]}, expected key, kernel state, model state, epoch")
    f = Fn(w, m, node, kernel=True)
    for p, ty in params:
        f.env[p] = ty
    body, ty = f.body(node.body)
    if ty != "O":
        m.fail(node, f"_standard_transition returns a {ty}, expected a TransitionOutcome")
    ps = " ".join(f"({f.v(p)} : {gty(t)})" for p, t in params)
    name = f"gen_{key}_standard_transition"
    txt = (f"Definition {name} {{K S P U KS MHP E : Type}} (exp_o : xnum -> xnum) (uniform_o : K -> xnum)\n"
           f"    (o : koracles K S P U KS MHP) (v_self_model : gmodel S P)\n    {ps}\n"
           f"    : kernel_out S KS :=\n{indent(body)}.")
    info = m.info(node, f"{cls}._standard_transition")
    info["params"] = [[p, t] for p, t in params]
    return txt, info


SECTIONS = ("mh_step", "rw", "mhk", "iwls")


def translate(root: str, what=SECTIONS):
    """returns {section: {"text": gallina, "info": [..]} or {"error": message}}"""
    res = {}
    try:
        w = World(root)
    except (Unsupported, OSError, SyntaxError) as ex:
        return {k: {"error": str(ex)} for k in what}
    for sec in what:
        try:
            if sec == "mh_step":
                t, i = translate_mh_step(w)
            else:
                t, i = translate_kernel(w, sec)
            res[sec] = {"text": t, "info": [i]}
        except Unsupported as ex:
            res[sec] = {"error": str(ex)}
        except (OSError, SyntaxError) as ex:
            res[sec] = {"error": f"{type(ex).__name__}: {ex}"}
        except RecursionError as ex:
            res[sec] = {"error": "translator recursion limit: " + str(ex)}
    return res


if __name__ == "__main__":
    r = translate(sys.argv[1] if len(sys.argv) > 1 else "/repo")
    for sec, d in r.items():
        print(f"(* ---- {sec} ---- *)")
        if "error" in d:
            print("(* FAILED CLOSED:", d["error"], "*)")
        else:
            for i in d["info"]:
                print(f"(* {i['file']} {i['function']} lines {i['lines'][0]}-{i['lines'][1]} sha256 {i['sha256'][:16]} *)")
            print(d["text"])
