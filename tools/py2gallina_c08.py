#!/usr/bin/env python3
"""py2gallina_c08 - a small FAIL-CLOSED translator from the Python source of the chain storage classes of
liesel (liesel/goose/chain.py: ListChain, ListEpochChain, EpochChainManager) to Gallina, used by the C08
check (harness/lv/c08_tie.py) on every run to re-establish the chain theorems of C08 for the code as it
reads now.  It follows tools/py2gallina.py (the C16 translator; only its small helpers are imported).

Objects.  An object of a translated class is the tuple of its attributes, in the order of the CLASSES table
below (ListEpochChain: the model's record `mkEC epoch apply_thinning states_counter chunks_list`;
ListChain: its one attribute; EpochChainManager: the pair (chains, apply_thinning)).  A method
`def m(self, a, ...) -> R` becomes  `gen_<Class>_<m> {A} (self_ : <object>) (v_a : ..) ... : gres (<object> * R)`
(the object as the method leaves it, and the returned value); `__init__` becomes `gen_<Class>_init {A} (v_a ..) :
gres <object>`; a `@property` (body: `return <expression without calls that raise or mutate>`) becomes a pure
function of the object.  `A` is the type of one time slice of a chunk: a chunk (a pytree whose leaves have the
axes [chain, time, ...]) is viewed as the list of its slices along the time axis, as in the model.

Supported subset (anything else raises `Unsupported` with file:line and the construct - nothing is guessed):

  expressions   int / bool constants; locals and parameters (typed by their annotations: TPyTree, EpochConfig,
                bool, int, Option[TPyTree], ListEpochChain[TPyTree], ListChain[TPyTree],
                Callable[[EpochConfig], bool]); `self.<attr>` for the attributes of the CLASSES table;
                `self.<property>` / `<epoch chain>.epoch`; `<EpochConfig>.thinning / .duration`;
                `-x`, `+ - *` on ints; `%`, `//` on ints (ZeroDivisionError); one-operator comparisons on
                ints; `not` / `and` / `or` on bools (short-circuit); `xs[-1]`, `xs[0]` (IndexError); `[x]`,
                `[]`; calls of a `Callable` parameter; constructor calls of the translated classes; and the
                LIBRARY-CALL TABLE:

                  Python / numpy / liesel                              Gallina (coq/Goose/GenC08Tie.v)
                  ---------------------------------------------------  ------------------------------------------
                  len(xs)                                              glen xs            (Z.of_nat (length xs))
                  jax.tree_util.tree_leaves(chunk)[0].shape[1]         glen chunk         (size of the time axis)
                  np.arange(n)                                         garange n          ([0; ..; n-1], [] if n <= 0)
                  <int> + <int array>, <int array> + <int>, - , *      map (fun x_ => ..) (broadcast)
                  <int array> % <int>                                  map (fun x_ => npmod x_ b)  (0 for b = 0)
                  <int array> <cmp> <int>                              map (fun x_ => x_ <cmp> b)  (bool array)
                  <array>[<bool array>]                                gmask v m          (IndexError on a length mismatch)
                  slice_leaves(chunk, np.s_[:, idx, ...])              gtake chunk idx    (negative wrap, IndexError)
                  concatenate_leaves(chunks, 1)                        gconcat chunks     (Some (concat ..); TypeError on [])
                  Option(None) / Option(x)                             None / Some x  (x itself if x is an Option value)
                  o.is_some() / o.is_none() / o.unwrap()               gis_some o / negb .. / gunwrap o (RuntimeError)
                  x is None / x is not None  (x an Option value's payload) match on the option, narrowing x in the branch
                  usedocs(...) decorators, Generic[...] bases          no effect on behaviour

  statements    docstrings, `pass`; `x = e`, `x: T = e`, `x op= e`, `self.<attr> = e`; `xs.append(e)`;
                `if / elif / else`; `return`, `return e`; method calls as statements, as the value of an
                assignment or of a `return`: `self.m(..)`, `super().m(..)`, `<local object>.m(..)`,
                `self.<list attr>[-1].m(..)` (the callee is translated too and called with the object, which is
                re-bound to the state the callee leaves); `for x in <list place>: ...` (no return / raise /
                break / continue inside; the loop variable may be mutated through method calls, which updates
                the list element: Python's aliasing of the loop variable with the list element) translated to `gfor`.

Refused among others: `while`, `try`, `raise`, `assert`, `with`, lambdas, comprehensions, generators, star
arguments, chained comparisons, nested functions, decorators other than `property` / `usedocs(..)`, dunder
methods other than `__init__`, class attributes, module-level statements other than imports / classes /
functions / TypeVar aliases, a subclass overriding something its base class calls on `self`, a local named
like a library name of the table, three-argument `np.arange`, method calls with effects inside expressions.

Command line:  py2gallina_c08.py <repo-root>      prints the generated definitions.
"""
from __future__ import annotations

import ast
import importlib.util
import os
import sys

_here = os.path.dirname(os.path.abspath(__file__))
_spec = importlib.util.spec_from_file_location("py2gallina", os.path.join(_here, "py2gallina.py"))
_base = importlib.util.module_from_spec(_spec)
_spec.loader.exec_module(_base)
Unsupported, Tm, Module, zlit, indent = _base.Unsupported, _base.Tm, _base.Module, _base.zlit, _base.indent

CHAIN_PY = "liesel/goose/chain.py"

# type tags -> Gallina types
GTY = {"Z": "Z", "bool": "bool", "unit": "unit", "econf": "econf", "chunk": "list A", "lchunk": "list (list A)",
       "ochunk": "option (list A)", "zv": "list Z", "bv": "list bool", "echain": "echain A",
       "lechain": "list (echain A)", "pred": "econf -> bool", "listchain": "list (list A)",
       "mgr": "(list (echain A) * bool)"}
ELEM = {"lchunk": "chunk", "lechain": "echain", "zv": "Z", "bv": "bool"}
# annotations of the source -> tags
ANN = {"TPyTree": "chunk", "EpochConfig": "econf", "bool": "bool", "int": "Z", "None": "unit",
       "Option[TPyTree]": "ochunk", "ListEpochChain[TPyTree]": "echain", "ListChain[TPyTree]": "listchain",
       "Callable[[EpochConfig], bool]": "pred", "list[TPyTree]": "lchunk",
       "list[ListEpochChain[TPyTree]]": "lechain"}
# translated classes: attributes in the order of the object tuple
CLASSES = {
    "ListChain": {"base": None, "bases": ["Generic[TPyTree]"], "tag": "listchain",
                  "attrs": [("_chunks_list", "lchunk")], "ctor": None},
    "ListEpochChain": {"base": "ListChain", "bases": ["ListChain[TPyTree]"], "tag": "echain",
                       "attrs": [("_epoch", "econf"), ("_apply_thinning", "bool"), ("_states_counter", "Z"),
                                 ("_chunks_list", "lchunk")], "ctor": "mkEC"},
    "EpochChainManager": {"base": None, "bases": ["Generic[TPyTree]"], "tag": "mgr",
                          "attrs": [("_chains", "lechain"), ("_apply_thinning", "bool")], "ctor": "pair"},
}
TAG_CLASS = {c["tag"]: n for n, c in CLASSES.items()}
ECONF_ATTR = {"thinning": "thin", "duration": "dur"}
LIBRARY = {"np", "jax", "len", "Option", "slice_leaves", "concatenate_leaves", "super", "self", "usedocs"}


def unify(want, got):
    if want == got:
        return True
    if got == "optnone" and want == "ochunk":
        return True
    if got == "emptylist" and want in ELEM:
        return True
    return False


def obj_text(cls, name_of):
    """the object tuple of class cls with attribute a rendered as name_of(a) (term and pattern alike)"""
    c = CLASSES[cls]
    names = [name_of(a) for a, _ in c["attrs"]]
    if c["ctor"] is None:
        return names[0]
    if c["ctor"] == "pair":
        return "(" + ", ".join(names) + ")"
    return "(" + c["ctor"] + " " + " ".join(names) + ")"


def let_pat(pat, rhs):
    if pat == "tt":
        return f"let _ := {rhs} in"
    if pat.replace("_", "").isalnum():
        return f"let {pat} := {rhs} in"
    return f"let '{pat} := {rhs} in"


def tuple_pat(names):
    names = list(names)
    if not names:
        return "tt"
    if len(names) == 1:
        return names[0]
    return "(" + ", ".join(names) + ")"


class World:
    """the parsed chain.py, the checks on what surrounds the translated text, and the translated methods"""

    def __init__(self, root):
        self.m = Module(root, CHAIN_PY)
        self.bound = {}          # module level name -> how it is bound
        self._toplevel()
        self.cls = {}
        for name in CLASSES:
            self.cls[name] = self._class(name)
        self._overrides()
        self.done = {}           # (class, method) -> record
        self.busy = set()
        self.order = []

    def fail(self, node, what):
        self.m.fail(node, what)

    def _toplevel(self):
        m = self.m
        for st in m.tree.body:
            if isinstance(st, ast.Import):
                for a in st.names:
                    self._bind(st, a.asname or a.name.split(".")[0], "import " + a.name)
                continue
            if isinstance(st, ast.ImportFrom):
                for a in st.names:
                    self._bind(st, a.asname or a.name, f"from {'.' * st.level}{st.module or ''} import {a.name}")
                continue
            if isinstance(st, ast.Expr) and isinstance(st.value, ast.Constant) and isinstance(st.value.value, str):
                continue
            if isinstance(st, (ast.ClassDef, ast.FunctionDef)):
                self._bind(st, st.name, "def")
                continue
            if (isinstance(st, ast.Assign) and len(st.targets) == 1 and isinstance(st.targets[0], ast.Name)
                    and isinstance(st.value, ast.Call) and ast.unparse(st.value.func) == "TypeVar"):
                self._bind(st, st.targets[0].id, "TypeVar")
                continue
            m.fail(st, "module level statement " + type(st).__name__)

    def _bind(self, node, name, how):
        if name in self.bound:
            self.m.fail(node, f"second module level binding of {name}")
        self.bound[name] = how

    def need(self, node, name):
        """the library name is bound at module level exactly as the table assumes"""
        want = {"np": "import numpy", "jax": "import jax", "Option": "from liesel.option import Option",
                "slice_leaves": "from .pytree import slice_leaves",
                "concatenate_leaves": "from .pytree import concatenate_leaves",
                "usedocs": "from ..docs import usedocs", "EpochConfig": "from .epoch import EpochConfig",
                "len": None, "super": None}[name]
        if self.bound.get(name) != want:
            self.m.fail(node, f"{name} is bound by `{self.bound.get(name)}`, the library table assumes `{want}`")

    def _class(self, name):
        m = self.m
        c = m.cls(name)
        for d in c.decorator_list:
            if not (isinstance(d, ast.Call) and ast.unparse(d.func) == "usedocs"):
                m.fail(c, f"class decorator {ast.unparse(d)}")
            self.need(d, "usedocs")
        if c.keywords or [ast.unparse(b) for b in c.bases] != CLASSES[name]["bases"]:
            m.fail(c, f"bases of {name} are {[ast.unparse(b) for b in c.bases]}, expected {CLASSES[name]['bases']}")
        meths = {}
        for st in c.body:
            if isinstance(st, ast.Expr) and isinstance(st.value, ast.Constant) and isinstance(st.value.value, str):
                continue
            if not isinstance(st, ast.FunctionDef):
                m.fail(st, f"statement in the body of class {name}: " + type(st).__name__)
            if st.name.startswith("__") and st.name != "__init__":
                m.fail(st, f"{name} defines {st.name}")
            if st.name in meths:
                m.fail(st, f"second definition of {name}.{st.name}")
            if st.name in [a for a, _ in CLASSES[name]["attrs"]]:
                m.fail(st, f"method named like the attribute {st.name}")
            kind = "method"
            for d in st.decorator_list:
                if ast.unparse(d) == "property":
                    kind = "property"
                elif isinstance(d, ast.Call) and ast.unparse(d.func) == "usedocs":
                    self.need(d, "usedocs")
                else:
                    m.fail(st, f"decorator {ast.unparse(d)} on {name}.{st.name}")
            meths[st.name] = (st, kind)
        return meths

    def _overrides(self):
        """a subclass must not redefine what a base class method reaches through `self`"""
        for name, c in CLASSES.items():
            b = c["base"]
            if b is None:
                continue
            reached = set()
            for st, _ in self.cls[b].values():
                for n in ast.walk(st):
                    if isinstance(n, ast.Attribute) and isinstance(n.value, ast.Name) and n.value.id == "self":
                        reached.add(n.attr)
            for meth, (st, _) in self.cls[name].items():
                if meth in reached:
                    self.m.fail(st, f"{name}.{meth} overrides what {b} reaches through self.{meth}")

    def resolve(self, cls, meth, node):
        c = cls
        while c is not None:
            if meth in self.cls[c]:
                return c
            c = CLASSES[c]["base"]
        self.m.fail(node, f"{cls} has no method {meth}")

    def method(self, cls, meth, node=None):
        key = (cls, meth)
        if key in self.done:
            return self.done[key]
        if key in self.busy:
            self.m.fail(node or self.cls[cls][meth][0], f"recursive call of {cls}.{meth}")
        self.busy.add(key)
        try:
            rec = Fn(self, cls, *self.cls[cls][meth]).translate()
        finally:
            self.busy.discard(key)
        self.done[key] = rec
        self.order.append(key)
        return rec


class Fn:
    """translation of one method"""

    def __init__(self, world: World, cls: str, node: ast.FunctionDef, kind: str):
        self.w, self.cls, self.node = world, cls, node
        self.kind = "init" if node.name == "__init__" else kind
        self.attrs = dict(CLASSES[cls]["attrs"])
        self.defined = set() if self.kind == "init" else set(self.attrs)
        self.env = {}
        self.tmp = 0
        self.calls = []
        self.ret_tag = None

    # ---- names ---------------------------------------------------------------------------------
    @staticmethod
    def v(name):
        return "v_" + name

    @staticmethod
    def sv(attr):
        return "s_" + attr.lstrip("_")

    def fresh(self, stem):
        self.tmp += 1
        return f"{stem}{self.tmp}_"

    def fail(self, node, what):
        self.w.fail(node, what)

    def is_self(self, e):
        return isinstance(e, ast.Name) and e.id == "self" and "self" not in self.env

    def lib(self, node, name):
        if name in self.env:
            self.fail(node, f"local variable named like the library name {name}")
        self.w.need(node, name)

    # ---- header --------------------------------------------------------------------------------
    def translate(self):
        node, w = self.node, self.w
        a = node.args
        if a.vararg or a.kwarg or a.kwonlyargs or a.posonlyargs:
            self.fail(node, "parameter list with * / ** / keyword-only parameters")
        args = list(a.args)
        if not args or args[0].arg != "self":
            self.fail(node, "method without self")
        params, defaults = [], {}
        nd = len(a.defaults)
        for k, p in enumerate(args[1:]):
            if p.annotation is None or ast.unparse(p.annotation) not in ANN:
                self.fail(node, f"parameter {p.arg} is annotated {ast.unparse(p.annotation) if p.annotation else 'not at all'}")
            tag = ANN[ast.unparse(p.annotation)]
            if p.arg in LIBRARY or p.arg in CLASSES:
                self.fail(node, f"parameter named {p.arg}")
            params.append((p.arg, tag))
            self.env[p.arg] = tag
            j = k - (len(args) - 1 - nd)
            if j >= 0:
                d = a.defaults[j]
                if not (isinstance(d, ast.Constant) and type(d.value) in (bool, int)):
                    self.fail(node, "default value that is not a bool / int literal")
                defaults[p.arg] = d.value
        gname = f"gen_{self.cls}_{'init' if self.kind == 'init' else node.name}"
        oty = GTY[CLASSES[self.cls]["tag"]]
        if self.kind == "init":
            self.ret_tag = "unit"
        elif node.returns is not None:
            r = ast.unparse(node.returns)
            if r not in ANN:
                self.fail(node, f"return annotation {r}")
            self.ret_tag = ANN[r]
        else:
            self.fail(node, "method without a return annotation")
        ptxt = "".join(f" ({self.v(n)} : {GTY[t]})" for n, t in params)
        self_pat = obj_text(self.cls, self.sv)
        if self.kind == "property":
            body = [s for s in node.body
                    if not (isinstance(s, ast.Expr) and isinstance(s.value, ast.Constant) and isinstance(s.value.value, str))]
            if params or len(body) != 1 or not isinstance(body[0], ast.Return) or body[0].value is None:
                self.fail(node, "property that is not `return <expression>`")
            t = self.expr(body[0].value)
            if t.m or not unify(self.ret_tag, t.ty):
                self.fail(node, f"property returns a {t.ty}" + (" that can raise" if t.m else ""))
            txt = (f"Definition {gname} {{A : Type}} (self_ : {oty}) : {GTY[self.ret_tag]} :=\n"
                   f"  {let_pat(self_pat, 'self_')}\n  {t.s}.")
        elif self.kind == "init":
            body = self.seq(node.body, lambda: self.ret(None, None))
            txt = f"Definition {gname} {{A : Type}}{ptxt} : gres ({oty}) :=\n{indent(body)}."
        else:
            body = self.seq(node.body, lambda: self.ret(None, None))
            txt = (f"Definition {gname} {{A : Type}} (self_ : {oty}){ptxt} : gres ({oty} * {GTY[self.ret_tag]}) :=\n"
                   f"  {let_pat(self_pat, 'self_')}\n{indent(body)}.")
        info = w.m.info(node, f"{self.cls}.{node.name}")
        return {"gname": gname, "params": params, "defaults": defaults, "ret": self.ret_tag, "kind": self.kind,
                "text": txt, "info": info, "calls": list(self.calls)}

    def ret(self, s, t):
        """the term for `return <t>` (t = None: returns None / falls off the end)"""
        node = s or self.node
        if self.kind == "init":
            if t is not None and t.ty != "unit":
                self.fail(node, "__init__ returns a value")
            missing = [a for a in self.attrs if a not in self.defined]
            if missing:
                self.fail(node, f"__init__ can end without assigning {missing}")
            return f"GOk {obj_text(self.cls, self.sv)}"
        if t is None:
            t = Tm("tt", "unit")
        if not unify(self.ret_tag, t.ty):
            self.fail(node, f"returns a {t.ty}, the annotation says {self.ret_tag}")
        return f"GOk ({obj_text(self.cls, self.sv)}, {t.s})"

    # ---- expressions ---------------------------------------------------------------------------
    def lift(self, parts, build, ty):
        if not any(p.m for p in parts):
            return Tm(build([p.s for p in parts]), ty, False)
        names, binds = [], []
        for p in parts:
            if p.m:
                x = self.fresh("x")
                binds.append((x, p.s))
                names.append(x)
            else:
                names.append(p.s)
        inner = f"GOk ({build(names)})"
        for x, s in reversed(binds):
            inner = f"gbind ({s}) (fun {x} => {inner})"
        return Tm(inner, ty, True)

    def expr(self, e) -> Tm:
        if isinstance(e, ast.Constant):
            if type(e.value) is bool:
                return Tm("true" if e.value else "false", "bool")
            if type(e.value) is int:
                return Tm(zlit(e.value), "Z")
            self.fail(e, f"constant {e.value!r}")
        if isinstance(e, ast.Name):
            if e.id in self.env:
                return Tm(self.v(e.id), self.env[e.id])
            self.fail(e, f"name {e.id} (not a parameter or an assigned local)")
        if isinstance(e, ast.Attribute):
            return self.attribute(e)
        if isinstance(e, ast.UnaryOp):
            if isinstance(e.op, ast.Not):
                t = self.test(e.operand)
                return self.lift([t], lambda a: f"(negb {a[0]})", "bool")
            if isinstance(e.op, ast.USub):
                t = self.expr(e.operand)
                if t.ty != "Z":
                    self.fail(e, "unary minus on a non-int")
                return self.lift([t], lambda a: f"(- {a[0]})", "Z")
            self.fail(e, "unary operator " + type(e.op).__name__)
        if isinstance(e, ast.BinOp):
            return self.binop(e, e.op, self.expr(e.left), self.expr(e.right))
        if isinstance(e, ast.Compare):
            return self.compare(e)
        if isinstance(e, ast.BoolOp):
            ts = [self.expr(x) for x in e.values]
            if any(t.ty != "bool" for t in ts):
                self.fail(e, "and/or whose value (not only its truth value) is used on non-bool operands")
            return self.boolop(e, ts)
        if isinstance(e, ast.Subscript):
            return self.subscript(e)
        if isinstance(e, ast.List):
            if not e.elts:
                return Tm("[]", "emptylist")
            ts = [self.expr(x) for x in e.elts]
            if any(t.ty != "chunk" for t in ts):
                self.fail(e, "list display whose elements are not chunks")
            return self.lift(ts, lambda a: "[" + "; ".join(a) + "]", "lchunk")
        if isinstance(e, ast.Call):
            return self.call(e)
        self.fail(e, "expression " + type(e).__name__)

    ARITH = {ast.Add: "({} + {})", ast.Sub: "({} - {})", ast.Mult: "({} * {})"}

    def binop(self, node, op, a, b):
        if a.ty == "Z" and b.ty == "Z":
            if type(op) in self.ARITH:
                f = self.ARITH[type(op)]
                return self.lift([a, b], lambda x: f.format(x[0], x[1]), "Z")
            part = {ast.Mod: "gmod", ast.FloorDiv: "gdiv"}
            if type(op) in part:
                g = part[type(op)]
                if not (a.m or b.m):
                    return Tm(f"{g} {a.s} {b.s}", "Z", True)
                inner = self.lift([a, b], lambda x: f"({x[0]}, {x[1]})", "pair")
                return Tm(f"gbind ({inner.s}) (fun p_ => {g} (fst p_) (snd p_))", "Z", True)
            self.fail(node, "operator " + type(op).__name__)
        # numpy broadcasting of an int against an int array
        if {a.ty, b.ty} == {"Z", "zv"}:
            if type(op) in self.ARITH:
                f = self.ARITH[type(op)]
            elif isinstance(op, ast.Mod) and a.ty == "zv":
                f = "(npmod {} {})"
            else:
                self.fail(node, f"operator {type(op).__name__} on {a.ty} and {b.ty}")
            if a.ty == "zv":
                return self.lift([a, b], lambda x: f"(map (fun x_ => {f.format('x_', x[1])}) {x[0]})", "zv")
            return self.lift([a, b], lambda x: f"(map (fun x_ => {f.format(x[0], 'x_')}) {x[1]})", "zv")
        self.fail(node, f"arithmetic on {a.ty} and {b.ty}")

    CMP = {ast.Lt: "({} <? {})", ast.LtE: "({} <=? {})", ast.Gt: "({} >? {})", ast.GtE: "({} >=? {})",
           ast.Eq: "({} =? {})", ast.NotEq: "(negb ({} =? {}))"}

    def compare(self, e):
        if len(e.ops) != 1:
            self.fail(e, "chained comparison")
        f = self.CMP.get(type(e.ops[0]))
        if f is None:
            self.fail(e, "comparison operator " + type(e.ops[0]).__name__ + " (outside an `if x is [not] None` test)")
        a, b = self.expr(e.left), self.expr(e.comparators[0])
        if a.ty == "Z" and b.ty == "Z":
            return self.lift([a, b], lambda x: f.format(x[0], x[1]), "bool")
        if a.ty == "zv" and b.ty == "Z":
            return self.lift([a, b], lambda x: f"(map (fun x_ => {f.format('x_', x[1])}) {x[0]})", "bv")
        if a.ty == "Z" and b.ty == "zv":
            return self.lift([a, b], lambda x: f"(map (fun x_ => {f.format(x[0], 'x_')}) {x[1]})", "bv")
        self.fail(e, f"comparison of {a.ty} with {b.ty}")

    def boolop(self, node, ts):
        is_and = isinstance(node.op, ast.And)
        acc = ts[-1]
        for t in reversed(ts[:-1]):
            if not acc.m and not t.m:
                acc = Tm(f"({'andb' if is_and else 'orb'} {t.s} {acc.s})", "bool")
                continue
            rest = acc.s if acc.m else f"GOk {acc.s}"
            stop = "GOk false" if is_and else "GOk true"
            br = f"if {{}} then {rest} else {stop}" if is_and else f"if {{}} then {stop} else {rest}"
            if t.m:
                x = self.fresh("x")
                acc = Tm(f"gbind ({t.s}) (fun {x} => {br.format(x)})", "bool", True)
            else:
                acc = Tm("(" + br.format(t.s) + ")", "bool", True)
        return acc

    def test(self, e) -> Tm:
        if isinstance(e, ast.BoolOp):
            return self.boolop(e, [self.test(x) for x in e.values])
        if isinstance(e, ast.UnaryOp) and isinstance(e.op, ast.Not):
            t = self.test(e.operand)
            return self.lift([t], lambda a: f"(negb {a[0]})", "bool")
        t = self.expr(e)
        if t.ty == "bool":
            return t
        if t.ty == "Z":
            return self.lift([t], lambda a: f"(negb ({a[0]} =? 0))", "bool")
        self.fail(e, f"truth value of a {t.ty}")

    def attribute(self, e: ast.Attribute) -> Tm:
        if self.is_self(e.value):
            if e.attr in self.attrs:
                if e.attr not in self.defined:
                    self.fail(e, f"self.{e.attr} is read before __init__ assigns it")
                return Tm(self.sv(e.attr), self.attrs[e.attr])
            return self.prop(e, self.cls, obj_text(self.cls, self.sv), set(self.attrs) <= self.defined)
        t = self.expr(e.value)
        if t.ty == "econf" and e.attr in ECONF_ATTR:
            return self.lift([t], lambda a: f"({ECONF_ATTR[e.attr]} {a[0]})", "Z")
        if t.ty in TAG_CLASS:
            if t.m:
                self.fail(e, "property of a raising expression")
            return self.prop(e, TAG_CLASS[t.ty], t.s, True)
        self.fail(e, f"attribute .{e.attr} of a {t.ty}")

    def prop(self, e, cls, obj, ready):
        c = cls
        while c is not None and e.attr not in self.w.cls[c]:
            c = CLASSES[c]["base"]
        if c is None or self.w.cls[c][e.attr][1] != "property":
            self.fail(e, f".{e.attr} is not an attribute of the table or a property of {cls}")
        if c != cls:
            self.fail(e, f"inherited property {c}.{e.attr}")
        if not ready:
            self.fail(e, "property read inside __init__ before every attribute is assigned")
        rec = self.w.method(c, e.attr, e)
        self.calls.append(rec["gname"])
        return Tm(f"({rec['gname']} (A:=A) {obj})", rec["ret"])

    def subscript(self, e: ast.Subscript) -> Tm:
        # jax.tree_util.tree_leaves(chunk)[0].shape[1] is an Attribute/Subscript chain handled here
        if (isinstance(e.value, ast.Attribute) and e.value.attr == "shape" and isinstance(e.value.value, ast.Subscript)
                and isinstance(e.value.value.value, ast.Call)
                and ast.unparse(e.value.value.value.func) == "jax.tree_util.tree_leaves"):
            call = e.value.value.value
            self.lib(e, "jax")
            if ast.unparse(e.slice) != "1" or ast.unparse(e.value.value.slice) != "0" or len(call.args) != 1 or call.keywords:
                self.fail(e, "tree_leaves(..)[i].shape[j] other than tree_leaves(chunk)[0].shape[1] (the time axis)")
            t = self.expr(call.args[0])
            if t.ty != "chunk":
                self.fail(e, f"tree_leaves of a {t.ty}")
            return self.lift([t], lambda a: f"(glen {a[0]})", "Z")
        xs = self.expr(e.value)
        sl = ast.unparse(e.slice)
        if xs.ty in ELEM and sl in ("-1", "0"):
            g = "glast" if sl == "-1" else "gfirst"
            if xs.m:
                x = self.fresh("x")
                return Tm(f"gbind ({xs.s}) (fun {x} => {g} {x})", ELEM[xs.ty], True)
            return Tm(f"{g} {xs.s}", ELEM[xs.ty], True)
        if xs.ty in ("zv", "bv"):
            ix = self.expr(e.slice)
            if ix.ty != "bv":
                self.fail(e, f"array subscript by a {ix.ty} (only a boolean mask)")
            if not (xs.m or ix.m):
                return Tm(f"gmask {xs.s} {ix.s}", xs.ty, True)
            inner = self.lift([xs, ix], lambda x: f"({x[0]}, {x[1]})", "pair")
            return Tm(f"gbind ({inner.s}) (fun p_ => gmask (fst p_) (snd p_))", xs.ty, True)
        self.fail(e, f"subscript [{sl}] of a {xs.ty}")

    def args_of(self, e: ast.Call, n, what):
        if e.keywords or len(e.args) != n or any(isinstance(a, ast.Starred) for a in e.args):
            self.fail(e, f"{what} with other than {n} positional argument(s)")
        return [self.expr(a) for a in e.args]

    def call(self, e: ast.Call) -> Tm:
        """calls without effects on objects"""
        fn = ast.unparse(e.func)
        if fn == "len":
            self.lib(e, "len")
            (a,) = self.args_of(e, 1, "len")
            if a.ty not in ELEM and a.ty != "chunk":
                self.fail(e, f"len of a {a.ty}")
            return self.lift([a], lambda x: f"(glen {x[0]})", "Z")
        if fn == "np.arange":
            self.lib(e, "np")
            (a,) = self.args_of(e, 1, "np.arange")
            if a.ty != "Z":
                self.fail(e, f"np.arange of a {a.ty}")
            return self.lift([a], lambda x: f"(garange {x[0]})", "zv")
        if fn == "slice_leaves":
            self.lib(e, "slice_leaves")
            self.lib(e, "np")
            if e.keywords or len(e.args) != 2:
                self.fail(e, "slice_leaves with other than 2 positional arguments")
            ix = e.args[1]
            if not (isinstance(ix, ast.Subscript) and ast.unparse(ix.value) == "np.s_" and isinstance(ix.slice, ast.Tuple)
                    and len(ix.slice.elts) in (2, 3) and ast.unparse(ix.slice.elts[0]) == ":"
                    and (len(ix.slice.elts) == 2 or ast.unparse(ix.slice.elts[2]) == "...")):
                self.fail(e, "slice_leaves index other than np.s_[:, idx, ...] (time axis)")
            c, i = self.expr(e.args[0]), self.expr(ix.slice.elts[1])
            if c.ty != "chunk" or i.ty != "zv":
                self.fail(e, f"slice_leaves of a {c.ty} by a {i.ty}")
            if not (c.m or i.m):
                return Tm(f"gtake {c.s} {i.s}", "chunk", True)
            inner = self.lift([c, i], lambda x: f"({x[0]}, {x[1]})", "pair")
            return Tm(f"gbind ({inner.s}) (fun p_ => gtake (fst p_) (snd p_))", "chunk", True)
        if fn == "concatenate_leaves":
            self.lib(e, "concatenate_leaves")
            if e.keywords or len(e.args) != 2 or ast.unparse(e.args[1]) != "1":
                self.fail(e, "concatenate_leaves other than concatenate_leaves(chunks, 1) (time axis)")
            a = self.expr(e.args[0])
            if a.ty != "lchunk" or a.m:
                self.fail(e, f"concatenate_leaves of a {a.ty}")
            return Tm(f"gconcat {a.s}", "ochunk", True)
        if fn == "Option":
            self.lib(e, "Option")
            if e.keywords or len(e.args) != 1:
                self.fail(e, "Option with other than one positional argument")
            if isinstance(e.args[0], ast.Constant) and e.args[0].value is None:
                return Tm("None", "optnone")
            a = self.expr(e.args[0])
            if a.ty == "ochunk":
                return a
            if a.ty == "chunk":
                return self.lift([a], lambda x: f"(Some {x[0]})", "ochunk")
            self.fail(e, f"Option of a {a.ty}")
        if isinstance(e.func, ast.Name) and self.env.get(fn) == "pred":
            (a,) = self.args_of(e, 1, fn)
            if a.ty != "econf":
                self.fail(e, f"{fn} applied to a {a.ty}")
            return self.lift([a], lambda x: f"({self.v(fn)} {x[0]})", "bool")
        if isinstance(e.func, ast.Attribute) and e.func.attr in ("is_some", "is_none", "unwrap"):
            o = self.expr(e.func.value)
            if o.ty == "ochunk":
                self.args_of(e, 0, "." + e.func.attr)
                if e.func.attr == "unwrap":
                    if o.m:
                        x = self.fresh("x")
                        return Tm(f"gbind ({o.s}) (fun {x} => gunwrap {x})", "chunk", True)
                    return Tm(f"gunwrap {o.s}", "chunk", True)
                f = "(gis_some {})" if e.func.attr == "is_some" else "(negb (gis_some {}))"
                return self.lift([o], lambda x: f.format(x[0]), "bool")
        self.fail(e, f"call of {fn} inside an expression (not in the library table; method calls with effects must be statements)")

    # ---- calls with effects ----------------------------------------------------------------------
    def place_of(self, t):
        """('v', name) / ('s', attr) if t is an assignable place, else None"""
        if isinstance(t, ast.Name) and t.id in self.env:
            return ("v", t.id)
        if isinstance(t, ast.Attribute) and self.is_self(t.value) and t.attr in self.attrs:
            return ("s", t.attr)
        return None

    def place(self, key):
        return self.v(key[1]) if key[0] == "v" else self.sv(key[1])

    def place_tag(self, key, node):
        if key[0] == "s":
            if key[1] not in self.defined:
                self.fail(node, f"self.{key[1]} is used before it is assigned")
            return self.attrs[key[1]]
        if key[1] not in self.env:
            self.fail(node, f"variable {key[1]} is not assigned on every path to here")
        return self.env[key[1]]

    def bind_args(self, call, rec, k):
        """evaluate the arguments of a call of a translated method / constructor; k(list of texts)"""
        params = rec["params"]
        if any(isinstance(a, ast.Starred) for a in call.args) or any(kw.arg is None for kw in call.keywords):
            self.fail(call, "star arguments")
        given = {}
        for i, a in enumerate(call.args):
            if i >= len(params):
                self.fail(call, f"too many arguments for {rec['gname']}")
            given[params[i][0]] = a
        for kw in call.keywords:
            if kw.arg in given or kw.arg not in dict(params):
                self.fail(call, f"keyword argument {kw.arg}")
            given[kw.arg] = kw.value
        reordered = bool(call.keywords) and list(given) != [p for p, _ in params][:len(given)]
        texts, binds = [], []
        for p, tag in params:
            if p in given:
                t = self.expr(given[p])
                if not unify(tag, t.ty):
                    self.fail(call, f"argument {p} of {rec['gname']} is a {t.ty}, expected {tag}")
                if t.m:
                    x = self.fresh("x")
                    binds.append((x, t.s))
                    texts.append(x)
                else:
                    texts.append(t.s)
            elif p in rec["defaults"]:
                d = rec["defaults"][p]
                texts.append(("true" if d else "false") if type(d) is bool else zlit(d))
            else:
                self.fail(call, f"argument {p} of {rec['gname']} is missing")
        if reordered and binds:      # the arguments would be evaluated in another order than the parameters
            self.fail(call, "keyword arguments out of parameter order with an argument that can raise")
        inner = k(texts)
        for x, s in reversed(binds):
            inner = f"gbind ({s}) (fun {x} =>\n{inner})"
        return inner

    def call_on(self, call, cls, var, meth, k):
        """<var>.<meth>(args) where the Gallina variable var holds an object of class cls; var is re-bound"""
        d = self.w.resolve(cls, meth, call)
        if self.w.cls[d][meth][1] == "property":
            self.fail(call, f"call of the property {d}.{meth}")
        if meth == "__init__":
            self.fail(call, "explicit __init__ call")
        rec = self.w.method(d, meth, call)
        self.calls.append(rec["gname"])
        r = self.fresh("r")

        def body(args):
            a = "".join(" " + x for x in args)
            if d == cls:
                return f"gbind ({rec['gname']} (A:=A) {var}{a}) (fun '({var}, {r}) =>\n{k(Tm(r, rec['ret']))})"
            def t(attr):
                return "t_" + attr.lstrip("_")
            o = self.fresh("o")
            return (f"{let_pat(obj_text(cls, t), var)}\n"
                    f"gbind ({rec['gname']} (A:=A) {obj_text(d, t)}{a}) (fun '({o}, {r}) =>\n"
                    f"{let_pat(obj_text(d, t), o)}\nlet {var} := {obj_text(cls, t)} in\n{k(Tm(r, rec['ret']))})")
        return self.bind_args(call, rec, body)

    def eff_call(self, call: ast.Call, k):
        """a call in statement position (statement, value of an assignment / return); k(result Tm) -> text"""
        f = call.func
        if isinstance(f, ast.Attribute):
            recv = f.value
            key = self.place_of(recv)
            # plain list .append
            if key is not None and f.attr == "append" and self.place_tag(key, call) in ("lchunk", "lechain"):
                tag = self.place_tag(key, call)
                (a,) = self.args_of(call, 1, "list.append")
                if a.ty != ELEM[tag]:
                    self.fail(call, f"append of a {a.ty} to a {tag}")
                x = self.place(key)
                t = self.lift([a], lambda v: f"({x} ++ [{v[0]}])", tag)
                return self.bind(key, t, call, lambda: k(Tm("tt", "unit")))
            # super().m(..)
            if isinstance(recv, ast.Call) and ast.unparse(recv) == "super()":
                self.lib(call, "super")
                b = CLASSES[self.cls]["base"]
                if b is None:
                    self.fail(call, f"super() in {self.cls}, which has no translated base class")
                if f.attr == "__init__":
                    if self.kind != "init" or self.defined:
                        self.fail(call, "super().__init__() not at the start of __init__")
                    rec = self.w.method(b, "__init__", call)
                    self.calls.append(rec["gname"])
                    o = self.fresh("o")

                    def body(args):
                        for a_, _ in CLASSES[b]["attrs"]:
                            self.defined.add(a_)
                        return (f"gbind ({rec['gname']} (A:=A){''.join(' ' + x for x in args)}) (fun {o} =>\n"
                                f"{let_pat(obj_text(b, self.sv), o)}\n{k(Tm('tt', 'unit'))})")
                    return self.bind_args(call, rec, body)
                return self.self_call(call, b, f.attr, k)
            if self.is_self(recv):
                return self.self_call(call, self.cls, f.attr, k)
            # <local object>.m(..)
            if key is not None and key[0] == "v" and self.env[key[1]] in TAG_CLASS:
                return self.call_on(call, TAG_CLASS[self.env[key[1]]], self.v(key[1]), f.attr, k)
            # self.<list attr>[-1].m(..)
            if isinstance(recv, ast.Subscript) and ast.unparse(recv.slice) == "-1":
                lk = self.place_of(recv.value)
                if lk is not None and ELEM.get(self.place_tag(lk, call)) in TAG_CLASS:
                    cls = TAG_CLASS[ELEM[self.place_tag(lk, call)]]
                    e_ = self.fresh("e")
                    lst = self.place(lk)
                    inner = self.call_on(call, cls, e_, f.attr,
                                         lambda r: f"let {lst} := gset_last {lst} {e_} in\n{k(r)}")
                    return f"gbind (glast {lst}) (fun {e_} =>\n{inner})"
        if isinstance(f, ast.Name) and f.id in CLASSES and f.id not in self.env:
            if self.w.bound.get(f.id) != "def":
                self.fail(call, f"{f.id} is not the class defined in this module")
            rec = self.w.method(f.id, "__init__", call)
            self.calls.append(rec["gname"])
            o = self.fresh("o")
            return self.bind_args(call, rec, lambda args: (
                f"gbind ({rec['gname']} (A:=A){''.join(' ' + x for x in args)}) (fun {o} =>\n"
                f"{k(Tm(o, CLASSES[f.id]['tag']))})"))
        t = self.expr(call)
        if t.m:
            x = self.fresh("x")
            return f"gbind ({t.s}) (fun {x} =>\n{k(Tm(x, t.ty))})"
        return k(t)

    def self_call(self, call, static_cls, meth, k):
        """self.m(..) (static_cls = own class) or super().m(..) (static_cls = base class)"""
        if self.kind == "init" and set(self.attrs) - self.defined:
            self.fail(call, "method call on self inside __init__ before every attribute is assigned")
        o = self.fresh("o")
        inner = self.call_on(call, self.cls if static_cls == self.cls else static_cls, o, meth,
                             lambda r: f"{let_pat(obj_text(static_cls, self.sv), o)}\n{k(r)}")
        return f"let {o} := {obj_text(static_cls, self.sv)} in\n{inner}"

    def effects(self, call):
        """places a call in statement position may re-bind"""
        f = call.func
        out = []
        if isinstance(f, ast.Attribute):
            recv = f.value
            if isinstance(recv, ast.Call) and ast.unparse(recv) == "super()" or self.is_self(recv):
                out += [("s", a) for a in self.attrs]
            elif isinstance(recv, ast.Name):
                out.append(("v", recv.id))
            elif isinstance(recv, ast.Attribute) and self.is_self(recv.value):
                out.append(("s", recv.attr))
            elif isinstance(recv, ast.Subscript):
                inner = recv.value
                if isinstance(inner, ast.Name):
                    out.append(("v", inner.id))
                elif isinstance(inner, ast.Attribute) and self.is_self(inner.value):
                    out.append(("s", inner.attr))
        return out

    # ---- statements ------------------------------------------------------------------------------
    def terminates(self, stmts):
        if not stmts:
            return False
        s = stmts[-1]
        if isinstance(s, ast.Return):
            return True
        if isinstance(s, ast.If):
            return self.terminates(s.body) and self.terminates(s.orelse)
        return False

    def target_key(self, t):
        if isinstance(t, ast.Name):
            return ("v", t.id)
        if isinstance(t, ast.Attribute) and self.is_self(t.value) and t.attr in self.attrs:
            return ("s", t.attr)
        self.fail(t, "assignment target " + ast.unparse(t))

    def assigned(self, stmts, out=None):
        out = [] if out is None else out

        def add(n):
            if n not in out:
                out.append(n)
        for s in stmts:
            val = None
            if isinstance(s, ast.Assign):
                for t in s.targets:
                    add(self.target_key(t))
                val = s.value
            elif isinstance(s, ast.AnnAssign):
                add(self.target_key(s.target))
                val = s.value
            elif isinstance(s, ast.AugAssign):
                add(self.target_key(s.target))
            elif isinstance(s, (ast.Expr, ast.Return)):
                val = s.value
            elif isinstance(s, ast.If):
                self.assigned(s.body, out)
                self.assigned(s.orelse, out)
            elif isinstance(s, ast.For):
                self.assigned(s.body, out)
                if isinstance(s.iter, (ast.Name, ast.Attribute)):
                    k_ = self.place_of(s.iter)
                    if k_:
                        add(k_)
            if isinstance(val, ast.Call):
                for k_ in self.effects(val):
                    add(k_)
        return out

    def bind(self, key, t: Tm, node, k):
        if t.ty in ("pair",):
            self.fail(node, f"variable of type {t.ty}")
        if key[0] == "v":
            name = key[1]
            if name in LIBRARY or name in CLASSES or name in self.w.bound:
                self.fail(node, f"local variable named {name}")
            if name in self.env:
                if not unify(self.env[name], t.ty):
                    self.fail(node, f"variable {name} changes its type from {self.env[name]} to {t.ty}")
            else:
                if t.ty in ("optnone", "emptylist"):
                    self.fail(node, f"variable {name} of undetermined type ({t.ty})")
                self.env[name] = t.ty
        else:
            if not unify(self.attrs[key[1]], t.ty):
                self.fail(node, f"self.{key[1]} assigned a {t.ty}, the table says {self.attrs[key[1]]}")
            self.defined.add(key[1])
        x = self.place(key)
        if t.m:
            return f"gbind ({t.s}) (fun {x} =>\n{k()})"
        return f"let {x} := {t.s} in\n{k()}"

    def assign(self, s, target, value, ann, k):
        key = self.target_key(target)
        want = None
        if ann is not None:
            a = ast.unparse(ann)
            if a not in ANN:
                self.fail(s, f"annotation {a}")
            want = ANN[a]
            if key[0] == "s" and want != self.attrs[key[1]]:
                self.fail(s, f"self.{key[1]} annotated {a}")

        def after(t):
            if want is not None:
                if not unify(want, t.ty):
                    self.fail(s, f"value of type {t.ty} for the annotation {ast.unparse(ann)}")
                t = Tm(t.s, want, t.m)
            return self.bind(key, t, s, k)
        if isinstance(value, ast.Call):
            return self.eff_call(value, after)
        return after(self.expr(value))

    def seq(self, stmts, tail):
        if not stmts:
            return tail()
        s, rest = stmts[0], stmts[1:]

        def k():
            return self.seq(rest, tail)

        if isinstance(s, ast.Expr) and isinstance(s.value, ast.Constant) and isinstance(s.value.value, str):
            return k()
        if isinstance(s, ast.Pass):
            return k()
        if isinstance(s, ast.Return):
            if rest:
                self.fail(rest[0], "statement after return")
            if s.value is None or (isinstance(s.value, ast.Constant) and s.value.value is None):
                return self.ret(s, None)
            if isinstance(s.value, ast.Call):
                return self.eff_call(s.value, lambda t: self.ret(s, t))
            t = self.expr(s.value)
            if t.m:
                x = self.fresh("x")
                return f"gbind ({t.s}) (fun {x} =>\n{self.ret(s, Tm(x, t.ty))})"
            return self.ret(s, t)
        if isinstance(s, ast.Assign):
            if len(s.targets) != 1:
                self.fail(s, "multiple assignment targets")
            return self.assign(s, s.targets[0], s.value, None, k)
        if isinstance(s, ast.AnnAssign):
            if s.value is None:
                self.fail(s, "annotation without a value")
            return self.assign(s, s.target, s.value, s.annotation, k)
        if isinstance(s, ast.AugAssign):
            key = self.target_key(s.target)
            cur = Tm(self.place(key), self.place_tag(key, s))
            return self.bind(key, self.binop(s, s.op, cur, self.expr(s.value)), s, k)
        if isinstance(s, ast.Expr) and isinstance(s.value, ast.Call):
            return self.eff_call(s.value, lambda t: k())
        if isinstance(s, ast.If):
            return self.if_(s, rest, tail)
        if isinstance(s, ast.For):
            return self.for_(s, k)
        self.fail(s, "statement " + type(s).__name__)

    def narrowing(self, test):
        """`x is None` / `x is not None` on a local of option type -> (name, True if the body sees Some)"""
        if (isinstance(test, ast.Compare) and len(test.ops) == 1 and isinstance(test.ops[0], (ast.Is, ast.IsNot))
                and isinstance(test.left, ast.Name) and isinstance(test.comparators[0], ast.Constant)
                and test.comparators[0].value is None):
            if self.env.get(test.left.id) != "ochunk":
                self.fail(test, f"`is None` test of {test.left.id}, which is not an optional chunk")
            return test.left.id, isinstance(test.ops[0], ast.IsNot)
        return None

    def if_(self, s: ast.If, rest, tail):
        nar = self.narrowing(s.test)
        if nar:
            name, body_some = nar
            v = self.v(name)

            def mk(then, els):
                some, none = (then, els) if body_some else (els, then)
                return f"match {v} with\n| Some {v} => {some}\n| None => {none}\nend"

            def enter(which):
                if (which == "body") == body_some:
                    self.env[name] = "chunk"
        else:
            t = self.test(s.test)

            def mk(then, els):
                if t.m:
                    c = self.fresh("c")
                    return f"gbind ({t.s}) (fun {c} =>\nif {c} then {then}\nelse {els})"
                return f"if {t.s} then {then}\nelse {els}"

            def enter(which):
                pass
        env0, def0 = dict(self.env), set(self.defined)

        def dead():
            raise AssertionError("unreachable continuation used")

        def restore():
            self.env, self.defined = dict(env0), set(def0)

        if self.terminates(s.body):
            enter("body")
            then = self.seq(s.body, dead)
            restore()
            enter("orelse")
            els = self.seq(list(s.orelse) + list(rest), tail)
            return mk(then, els)
        if s.orelse and self.terminates(s.orelse):
            enter("orelse")
            els = self.seq(s.orelse, dead)
            restore()
            enter("body")
            then = self.seq(list(s.body) + list(rest), tail)
            return mk(then, els)
        # both branches may fall through: they yield the places they (re)bind that exist before the `if`;
        # names first bound inside a branch are local to it (a later use fails closed as an unknown name)
        keys = [k_ for k_ in self.assigned(list(s.body) + list(s.orelse))
                if (k_[0] == "s" and k_[1] in def0) or (k_[0] == "v" and k_[1] in env0)]
        if self.kind == "init" and any(k_[0] == "s" and k_[1] not in def0 for k_ in self.assigned(list(s.body) + list(s.orelse))):
            self.fail(s, "attribute first assigned inside a branch of __init__")
        if nar and ("v", nar[0]) in keys:
            self.fail(s, f"{nar[0]} is re-bound inside its own `is None` test")
        pat = tuple_pat(self.place(k_) for k_ in keys)

        def out():
            return f"GOk {pat}"
        enter("body")
        then = self.seq(s.body, out)
        restore()
        enter("orelse")
        els = self.seq(s.orelse, out)
        restore()
        x = self.fresh("m")
        return f"gbind ({mk(then, els)}) (fun {x} =>\n{let_pat(pat, x)}\n{self.seq(rest, tail)})"

    def no_exit(self, stmts):
        for s in stmts:
            for n in ast.walk(s):
                if isinstance(n, (ast.Return, ast.Raise, ast.Break, ast.Continue, ast.While, ast.Try, ast.With)):
                    self.fail(n, type(n).__name__ + " inside a for loop")

    def for_(self, s: ast.For, k):
        if s.orelse:
            self.fail(s, "for ... else")
        if not isinstance(s.target, ast.Name):
            self.fail(s, "loop target " + ast.unparse(s.target))
        x = s.target.id
        if x in self.env or x in LIBRARY or x in CLASSES or x in self.w.bound:
            self.fail(s, f"loop variable {x} shadows another name")
        it = self.place_of(s.iter)
        if it is None:
            self.fail(s, "loop over something that is not a local list or a list attribute: " + ast.unparse(s.iter))
        tag = self.place_tag(it, s)
        if tag not in ELEM:
            self.fail(s, f"loop over a {tag}")
        self.no_exit(s.body)
        touched = self.assigned(s.body)
        if it in touched:
            self.fail(s, "the loop body changes the list it iterates over")
        for n in ast.walk(s):
            if n is not s.target and isinstance(n, ast.Name) and n.id == x and isinstance(n.ctx, ast.Store):
                self.fail(n, f"the loop body re-binds the loop variable {x}")
        env0, def0 = dict(self.env), set(self.defined)
        keys = [k_ for k_ in touched if k_ != ("v", x) and ((k_[0] == "s" and k_[1] in def0) or (k_[0] == "v" and k_[1] in env0))]
        if any(k_[0] == "s" and k_[1] not in def0 for k_ in touched):
            self.fail(s, "attribute first assigned inside a loop")
        pat = tuple_pat(self.place(k_) for k_ in keys)
        self.env[x] = ELEM[tag]
        body = self.seq(s.body, lambda: f"GOk ({self.v(x)}, {pat})")
        self.env, self.defined = dict(env0), set(def0)
        lst = self.place(it)
        st, r = self.fresh("st"), self.fresh("r")
        return (f"gbind (gfor (fun {self.v(x)} {st} =>\n{indent(let_pat(pat, st) + chr(10) + body)})\n  {lst} {pat}) (fun {r} =>\n"
                f"let {lst} := fst {r} in\n{let_pat(pat, 'snd ' + r)}\n{k()})")


# the methods the C08 tie states lemmas about (everything they call is translated with them)
TARGETS = {
    "listchain": [("ListChain", "__init__"), ("ListChain", "append"), ("ListChain", "_concatenate"), ("ListChain", "get")],
    "epochchain": [("ListEpochChain", "__init__"), ("ListEpochChain", "epoch"), ("ListEpochChain", "append")],
    "manager": [("EpochChainManager", "__init__"), ("EpochChainManager", "advance_epoch"),
                ("EpochChainManager", "append"), ("EpochChainManager", "get_current_chain")],
    "combine": [("EpochChainManager", "combine_all"), ("EpochChainManager", "combine_filtered")],
}
SECTION_DEPS = {"listchain": [], "epochchain": ["listchain"], "manager": ["epochchain"], "combine": ["epochchain"]}


def translate(root: str, what=("listchain", "epochchain", "manager", "combine")):
    """returns {section: {"text": gallina, "info": [..], "functions": {(class.method): gallina name}} or {"error": message}}"""
    res = {}
    try:
        w = World(root)
    except (Unsupported, OSError, SyntaxError) as ex:
        return {k: {"error": str(ex)} for k in what}
    emitted = set()
    for sec in what:
        try:
            for cls, meth in TARGETS[sec]:
                if meth not in w.cls[cls]:
                    raise Unsupported(f"{CHAIN_PY}: {cls}.{meth} not found")
                w.method(cls, meth)
            # everything translated so far and not yet emitted belongs to this section (callees first)
            keys = [k for k in w.order if k not in emitted]
            emitted.update(keys)
            res[sec] = {"text": "\n".join(w.done[k]["text"] for k in keys),
                        "info": [w.done[k]["info"] for k in keys],
                        "functions": {f"{c}.{m_}": w.done[(c, m_)]["gname"] for c, m_ in keys},
                        "defaults": {w.done[k]["gname"]: w.done[k]["defaults"] for k in keys if w.done[k]["defaults"]},
                        "params": {w.done[k]["gname"]: [t for _, t in w.done[k]["params"]] for k in keys}}
        except Unsupported as ex:
            res[sec] = {"error": str(ex)}
            # methods translated before the failure stay available to later sections through w.done
        except RecursionError as ex:
            res[sec] = {"error": "translator recursion limit: " + str(ex)}
    return res


if __name__ == "__main__":
    r = translate(sys.argv[1] if len(sys.argv) > 1 else "/repo")
    for sec, d in r.items():
        print(f"(* ---- {sec} ---- *)")
        if "error" in d:
            print("(* FAILED CLOSED:", d["error"], "*)")
        else:
            for i in d["info"]:
                print(f"(* {i['file']} {i['function']} lines {i['lines'][0]}-{i['lines'][1]} sha256 {i['sha256'][:16]} *)")
            print(d["text"])
