#!/usr/bin/env python3
"""py2gallina - a small FAIL-CLOSED translator from the Python source of a few pure integer functions
of liesel (goose/epoch.py, goose/warmup.py) to Gallina, used by the C16 check (harness/lv/c16.py) on
every run to re-establish the C16 theorems for the code as it reads now.

It parses the source with `ast` and supports exactly the constructs the translated functions use:

  expressions   int / bool constants; local names; parameters; `-x`; `+ - *` on ints; `%`, `//` on ints
                (raise ZeroDivisionError on a zero divisor); `*` on two bools (conjunction; the 0/1
                value is only used for its truth value); one-operator comparisons `< <= > >= == !=` on
                ints; `not`, `and`, `or` (short-circuit, truthiness of bools / ints / lists);
                `cfg.type / .duration / .thinning` on an EpochConfig; `self.<attr>` for the declared
                state attributes; `EpochType.<MEMBER>` (its integer value, read from the enum in the
                source); `xs[-1]` (raises IndexError on the empty list); list displays;
                `EpochConfig(...)` / a module level `partial(EpochConfig, optional=None)` alias with
                positional / keyword arguments resolved against the dataclass fields of the source;
                `EpochType.is_warmup(x)` / `is_adaptation(x)` (calls of translated functions);
                `typing.cast(T, x)` (= x)
  statements    docstrings, `pass`; `x = e`, `x op= e` (op in + - * % //); `self.<attr> = e`;
                `xs.append(e)`, `xs.extend(e)`; `if / elif / else`; `raise RuntimeError(..)` /
                `raise ValueError(..)`; `return`, `return e`; `while test: <assignments/appends/ifs>`
                (no raise / return / break / continue / else inside), translated to `gwhile` on a fuel
                parameter of the generated function

Anything else raises `Unsupported` with the file, line and construct: nothing is guessed.  Python ints
are Coq `Z` (unbounded); the subset is given its usual meaning (see notes/C16.md, "Source tie").

Command line:  py2gallina.py <repo-root>      prints the generated definitions.
"""
from __future__ import annotations

import ast
import hashlib
import os
import sys

EPOCH_PY = "liesel/goose/epoch.py"
WARMUP_PY = "liesel/goose/warmup.py"

Z, B, CONF, LCONF, UNIT = "Z", "bool", "econf", "list econf", "unit"
RAISABLE = {"RuntimeError": "E_RuntimeError", "ValueError": "E_ValueError"}


class Unsupported(Exception):
    pass


class Tm:
    """a translated expression: Gallina text, type, and whether it is in the gres monad"""

    def __init__(self, s, ty, m=False):
        self.s, self.ty, self.m = s, ty, m


def zlit(n: int) -> str:
    return f"({n})" if n < 0 else str(n)


def tuple_pat(names):
    names = list(names)
    if not names:
        return "tt"
    if len(names) == 1:
        return names[0]
    return "(" + ", ".join(names) + ")"


def tuple_ty(tys):
    tys = list(tys)
    if not tys:
        return UNIT
    return "(" + " * ".join(f"({t})" if " " in t else t for t in tys) + ")" if len(tys) > 1 else tys[0]


def fun_pat(names):
    names = list(names)
    if not names:
        return "fun _ =>"
    if len(names) == 1:
        return f"fun {names[0]} =>"
    return f"fun '{tuple_pat(names)} =>"


class Module:
    """one parsed source file"""

    def __init__(self, root, rel):
        self.rel = rel
        self.path = os.path.join(root, rel)
        self.src = open(self.path, encoding="utf8").read()
        self.tree = ast.parse(self.src, filename=self.path)

    def fail(self, node, what):
        ln = getattr(node, "lineno", "?")
        raise Unsupported(f"{self.rel}:{ln}: unsupported: {what}")

    def find(self, cls, func):
        body = self.tree.body
        if cls is not None:
            cs = [n for n in body if isinstance(n, ast.ClassDef) and n.name == cls]
            if len(cs) != 1:
                raise Unsupported(f"{self.rel}: class {cls} not found exactly once")
            body = cs[0].body
        fs = [n for n in body if isinstance(n, ast.FunctionDef) and n.name == func]
        if len(fs) != 1:
            raise Unsupported(f"{self.rel}: function {(cls + '.') if cls else ''}{func} not found exactly once")
        return fs[0]

    def cls(self, name):
        cs = [n for n in self.tree.body if isinstance(n, ast.ClassDef) and n.name == name]
        if len(cs) != 1:
            raise Unsupported(f"{self.rel}: class {name} not found exactly once")
        return cs[0]

    def imports_from(self, module_suffix, name):
        for n in self.tree.body:
            if isinstance(n, ast.ImportFrom) and (n.module or "").split(".")[-1] == module_suffix:
                for a in n.names:
                    if a.name == name and a.asname in (None, name):
                        return True
        return False

    def info(self, node, what):
        seg = ast.get_source_segment(self.src, node) or ""
        return {"file": self.rel, "function": what, "lines": [node.lineno, node.end_lineno],
                "sha256": hashlib.sha256(seg.encode("utf8")).hexdigest()}


class World:
    """what the translator knows about the source tree: enum values, dataclass fields, aliases"""

    def __init__(self, root):
        self.root = root
        self.epoch = Module(root, EPOCH_PY)
        self.warmup = Module(root, WARMUP_PY)
        for m in (self.epoch, self.warmup):
            self._toplevel(m)
        for c in ("EpochType", "EpochManager", "EpochState"):
            node = self.epoch.cls(c)
            if node.decorator_list and c != "EpochState" or node.keywords:
                self.epoch.fail(node, f"decorated class / metaclass: {c}")
        if self.epoch.cls("EpochManager").bases:
            self.epoch.fail(self.epoch.cls("EpochManager"), "EpochManager has base classes")
        self.enum = self._enum()
        self.fields = self._fields()
        self.translated = {}      # gallina name -> (text, info)
        self.order = []

    def _toplevel(self, m):
        """module level: docstring, imports, classes, functions and partial(...) aliases only - anything
        else (monkey patching, rebinding, conditional definitions) could change what the names mean"""
        seen = set()
        for st in m.tree.body:
            if isinstance(st, (ast.Import, ast.ImportFrom)):
                continue
            if isinstance(st, ast.Expr) and isinstance(st.value, ast.Constant) and isinstance(st.value.value, str):
                continue
            if isinstance(st, (ast.ClassDef, ast.FunctionDef)):
                if st.name in seen:
                    m.fail(st, f"second definition of {st.name}")
                seen.add(st.name)
                continue
            if (isinstance(st, ast.Assign) and len(st.targets) == 1 and isinstance(st.targets[0], ast.Name)
                    and isinstance(st.value, ast.Call) and ast.unparse(st.value.func) == "partial"):
                if st.targets[0].id in seen:
                    m.fail(st, f"second definition of {st.targets[0].id}")
                seen.add(st.targets[0].id)
                continue
            m.fail(st, "module level statement " + type(st).__name__)

    def _enum(self):
        m = self.epoch
        c = m.cls("EpochType")
        if [ast.unparse(b) for b in c.bases] != ["IntEnum"] or not m.imports_from("enum", "IntEnum"):
            m.fail(c, "EpochType is not a plain enum.IntEnum")
        vals = {}
        for st in c.body:
            if isinstance(st, ast.Assign):
                if (len(st.targets) != 1 or not isinstance(st.targets[0], ast.Name)
                        or not isinstance(st.value, ast.Constant) or type(st.value.value) is not int):
                    m.fail(st, "enum member that is not NAME = <int literal>")
                vals[st.targets[0].id] = st.value.value
            elif isinstance(st, ast.FunctionDef):
                if [ast.unparse(d) for d in st.decorator_list] != ["staticmethod"]:
                    m.fail(st, "EpochType method that is not a staticmethod")
            elif isinstance(st, ast.Expr) and isinstance(st.value, ast.Constant) and isinstance(st.value.value, str):
                pass
            else:
                m.fail(st, "statement in the EpochType class body: " + type(st).__name__)
        if len(set(vals.values())) != len(vals):
            m.fail(c, "enum aliases (two members with one value)")
        return vals

    def _fields(self):
        m = self.epoch
        c = m.cls("EpochConfig")
        decos = [ast.unparse(d) for d in c.decorator_list]
        if "dataclass" not in decos or c.bases:
            m.fail(c, "EpochConfig is not a plain @dataclass")
        fields = []
        for st in c.body:
            if isinstance(st, ast.AnnAssign):
                if st.value is not None or not isinstance(st.target, ast.Name):
                    m.fail(st, "dataclass field with a default value")
                fields.append((st.target.id, ast.unparse(st.annotation)))
            elif isinstance(st, ast.FunctionDef):
                if st.name.startswith("__"):
                    m.fail(st, "EpochConfig defines " + st.name)
            elif isinstance(st, ast.Expr) and isinstance(st.value, ast.Constant) and isinstance(st.value.value, str):
                pass
            else:
                m.fail(st, "statement in the EpochConfig class body: " + type(st).__name__)
        names = [f for f, _ in fields]
        if sorted(names) != ["duration", "optional", "thinning", "type"]:
            m.fail(c, f"EpochConfig fields are {names}, expected type / duration / thinning / optional")
        want = {"type": "EpochType", "duration": "int", "thinning": "int"}
        for f, a in fields:
            if f in want and a != want[f]:
                m.fail(c, f"EpochConfig.{f} is annotated {a}, expected {want[f]}")
        return names

    def conf_aliases(self, m: Module):
        """names that construct an EpochConfig in module m: name -> preset keyword arguments"""
        al = {}
        if m is self.epoch or m.imports_from("epoch", "EpochConfig"):
            al["EpochConfig"] = {}
        for st in m.tree.body:
            if (isinstance(st, ast.Assign) and len(st.targets) == 1 and isinstance(st.targets[0], ast.Name)
                    and isinstance(st.value, ast.Call) and ast.unparse(st.value.func) == "partial"):
                call = st.value
                if not m.imports_from("functools", "partial"):
                    m.fail(st, "partial is not functools.partial")
                if (len(call.args) == 1 and ast.unparse(call.args[0]) == "EpochConfig" and "EpochConfig" in al
                        and all(k.arg is not None for k in call.keywords)):
                    al[st.targets[0].id] = {k.arg: k.value for k in call.keywords}
        # a later rebinding of an alias name at module level would change its meaning
        for st in m.tree.body:
            tg = []
            if isinstance(st, ast.Assign):
                tg = [ast.unparse(t) for t in st.targets]
            elif isinstance(st, (ast.FunctionDef, ast.ClassDef)):
                tg = [st.name]
            for t in tg:
                if t in al and not (isinstance(st, ast.Assign) and ast.unparse(st.value.func if isinstance(st.value, ast.Call) else st.value) == "partial"):
                    if not (m is self.epoch and t == "EpochConfig" and isinstance(st, ast.ClassDef)):
                        m.fail(st, f"module level rebinding of {t}")
        return al


class Fn:
    """translation of one function body"""

    def __init__(self, world: World, mod: Module, node: ast.FunctionDef, *, self_state=(), cfg_self=None):
        self.w, self.m, self.node = world, mod, node
        self.self_state = dict(self_state)      # attribute name -> type, for `self.<attr>`
        self.cfg_self = cfg_self                # attribute of self that is an EpochConfig (EpochState.config)
        self.env = {}                           # python local name -> type
        self.uses_fuel = False
        self.calls = []
        self.aliases = world.conf_aliases(mod)

    # ---- names -------------------------------------------------------------------------------
    @staticmethod
    def v(name):
        return "v_" + name

    def sv(self, attr):
        return "s_" + attr.lstrip("_")

    def fail(self, node, what):
        self.m.fail(node, what)

    # ---- expressions -------------------------------------------------------------------------
    def lift(self, parts, build, ty):
        """combine sub-terms; if any is monadic bind them left to right (Python evaluation order)"""
        if not any(p.m for p in parts):
            return Tm(build([p.s for p in parts]), ty, False)
        names, binds = [], []
        for k, p in enumerate(parts):
            if p.m:
                self.tmp = getattr(self, "tmp", 0) + 1
                x = f"x{self.tmp}"
                binds.append((x, p.s))
                names.append(x)
            else:
                names.append(p.s)
        inner = f"GOk ({build(names)})"
        for x, s in reversed(binds):
            inner = f"gbind ({s}) (fun {x} => {inner})"
        return Tm(inner, ty, True)

    def expr(self, e) -> Tm:
        if isinstance(e, ast.Constant):
            if type(e.value) is bool:
                return Tm("true" if e.value else "false", B)
            if type(e.value) is int:
                return Tm(zlit(e.value), Z)
            self.fail(e, f"constant {e.value!r}")
        if isinstance(e, ast.Name):
            if e.id in self.env:
                return Tm(self.v(e.id), self.env[e.id])
            self.fail(e, f"name {e.id} (not a parameter or an assigned local)")
        if isinstance(e, ast.Attribute):
            return self.attribute(e)
        if isinstance(e, ast.UnaryOp):
            if isinstance(e.op, ast.Not):
                t = self.test(e.operand)
                return self.lift([t], lambda a: f"negb {a[0]}", B)
            if isinstance(e.op, ast.USub):
                t = self.expr(e.operand)
                if t.ty != Z:
                    self.fail(e, "unary minus on a non-int")
                return self.lift([t], lambda a: f"(- {a[0]})", Z)
            self.fail(e, "unary operator " + type(e.op).__name__)
        if isinstance(e, ast.BinOp):
            return self.binop(e, e.op, self.expr(e.left), self.expr(e.right))
        if isinstance(e, ast.Compare):
            if len(e.ops) != 1:
                self.fail(e, "chained comparison")
            a, b = self.expr(e.left), self.expr(e.comparators[0])
            if a.ty != Z or b.ty != Z:
                self.fail(e, f"comparison of {a.ty} with {b.ty} (only ints)")
            ops = {ast.Lt: "({} <? {})", ast.LtE: "({} <=? {})", ast.Gt: "({} >? {})", ast.GtE: "({} >=? {})",
                   ast.Eq: "({} =? {})", ast.NotEq: "(negb ({} =? {}))"}
            f = ops.get(type(e.ops[0]))
            if f is None:
                self.fail(e, "comparison operator " + type(e.ops[0]).__name__)
            return self.lift([a, b], lambda x: f.format(x[0], x[1]), B)
        if isinstance(e, ast.BoolOp):
            ts = [self.expr(x) for x in e.values]
            if any(t.ty != B for t in ts):
                self.fail(e, "and/or whose value (not only its truth value) is used on non-bool operands")
            return self.boolop(e, ts)
        if isinstance(e, ast.Subscript):
            xs = self.expr(e.value)
            if xs.ty != LCONF or ast.unparse(e.slice) != "-1":
                self.fail(e, "subscript other than <list of EpochConfig>[-1]")
            if xs.m:
                self.fail(e, "subscript of a raising expression")
            return Tm(f"glast {xs.s}", CONF, True)
        if isinstance(e, ast.List):
            ts = [self.expr(x) for x in e.elts]
            if any(t.ty != CONF for t in ts):
                self.fail(e, "list display whose elements are not EpochConfig objects")
            return self.lift(ts, lambda a: "[" + "; ".join(a) + "]", LCONF)
        if isinstance(e, ast.Call):
            return self.call(e)
        self.fail(e, "expression " + type(e).__name__)

    def binop(self, node, op, a, b):
        if a.ty == B and b.ty == B and isinstance(op, ast.Mult):
            return self.lift([a, b], lambda x: f"(andb {x[0]} {x[1]})", B)
        if a.ty != Z or b.ty != Z:
            self.fail(node, f"arithmetic on {a.ty} and {b.ty}")
        pure = {ast.Add: "({} + {})", ast.Sub: "({} - {})", ast.Mult: "({} * {})"}
        if type(op) in pure:
            f = pure[type(op)]
            return self.lift([a, b], lambda x: f.format(x[0], x[1]), Z)
        part = {ast.Mod: "gmod", ast.FloorDiv: "gdiv"}
        if type(op) in part:
            g = part[type(op)]
            if not (a.m or b.m):
                return Tm(f"{g} {a.s} {b.s}", Z, True)
            inner = self.lift([a, b], lambda x: f"({x[0]}, {x[1]})", "pair")
            return Tm(f"gbind ({inner.s}) (fun '(p1, p2) => {g} p1 p2)", Z, True)
        self.fail(node, "operator " + type(op).__name__)

    def boolop(self, node, ts):
        """short-circuit and / or over bool-typed terms"""
        is_and = isinstance(node.op, ast.And)
        acc = ts[-1]
        for t in reversed(ts[:-1]):
            if not acc.m and not t.m:
                acc = Tm(f"({'andb' if is_and else 'orb'} {t.s} {acc.s})", B)
                continue
            rest = acc.s if acc.m else f"GOk {acc.s}"
            stop = "GOk false" if is_and else "GOk true"
            br = f"if {{}} then {rest} else {stop}" if is_and else f"if {{}} then {stop} else {rest}"
            if t.m:
                self.tmp = getattr(self, "tmp", 0) + 1
                x = f"x{self.tmp}"
                acc = Tm(f"gbind ({t.s}) (fun {x} => {br.format(x)})", B, True)
            else:
                acc = Tm("(" + br.format(t.s) + ")", B, True)
        return acc

    def test(self, e) -> Tm:
        """truth value of e"""
        if isinstance(e, ast.BoolOp):
            return self.boolop(e, [self.test(x) for x in e.values])
        if isinstance(e, ast.UnaryOp) and isinstance(e.op, ast.Not):
            t = self.test(e.operand)
            return self.lift([t], lambda a: f"(negb {a[0]})", B)
        t = self.expr(e)
        if t.ty == B:
            return t
        if t.ty == Z:
            return self.lift([t], lambda a: f"(negb ({a[0]} =? 0))", B)
        if t.ty == LCONF:
            return self.lift([t], lambda a: f"(negb (gempty {a[0]}))", B)
        self.fail(e, f"truth value of a {t.ty}")

    def attribute(self, e: ast.Attribute) -> Tm:
        base = e.value
        if isinstance(base, ast.Name) and base.id == "EpochType" and "EpochType" not in self.env:
            if not (self.m is self.w.epoch or self.m.imports_from("epoch", "EpochType")):
                self.fail(e, "EpochType is not imported from .epoch")
            if e.attr not in self.w.enum:
                self.fail(e, f"EpochType.{e.attr} is not an enum member")
            return Tm(f"gen_EpochType_{e.attr}", Z)
        if isinstance(base, ast.Name) and base.id == "self" and "self" not in self.env:
            if e.attr in self.self_state:
                return Tm(self.sv(e.attr), self.self_state[e.attr])
            if e.attr == self.cfg_self:
                return Tm("s_config", CONF)
            self.fail(e, f"self.{e.attr} (not a declared state attribute)")
        t = self.expr(base)
        if t.ty == CONF:
            acc = {"type": ("gtype {}", Z), "duration": ("dur {}", Z), "thinning": ("thin {}", Z)}
            if e.attr not in acc:
                self.fail(e, f"EpochConfig attribute .{e.attr}")
            f, ty = acc[e.attr]
            return self.lift([t], lambda a: "(" + f.format(a[0]) + ")", ty)
        self.fail(e, f"attribute .{e.attr} of a {t.ty}")

    def call(self, e: ast.Call) -> Tm:
        fn = ast.unparse(e.func)
        if fn == "cast":
            if not self.m.imports_from("typing", "cast") or len(e.args) != 2 or e.keywords:
                self.fail(e, "cast that is not typing.cast(T, x)")
            return self.expr(e.args[1])
        if fn in ("EpochType.is_warmup", "EpochType.is_adaptation") and "EpochType" not in self.env:
            if len(e.args) != 1 or e.keywords:
                self.fail(e, fn + " with other than one positional argument")
            a = self.expr(e.args[0])
            if a.ty != Z:
                self.fail(e, fn + " on a non-enum value")
            g = "gen_" + fn.split(".")[1]
            self.calls.append(fn.split(".")[1])
            return self.lift([a], lambda x: f"({g} {x[0]})", B)
        if fn in self.aliases and fn not in self.env:
            preset = dict(self.aliases[fn])
            if any(isinstance(a, ast.Starred) for a in e.args) or any(k.arg is None for k in e.keywords):
                self.fail(e, "star arguments")
            given = {}
            free = [f for f in self.w.fields if f not in preset]
            # positional arguments fill the dataclass fields in order (functools.partial keywords do
            # not consume positions; a positional argument landing on a preset keyword is a TypeError)
            for k, a in enumerate(e.args):
                if k >= len(self.w.fields):
                    self.fail(e, "too many arguments for EpochConfig")
                f = self.w.fields[k]
                if f in preset:
                    self.fail(e, f"positional argument for the preset field {f}")
                given[f] = a
            for k in e.keywords:
                if k.arg in given or k.arg not in self.w.fields:
                    self.fail(e, f"keyword argument {k.arg}")
                given[k.arg] = k.value
            for f, val in preset.items():
                given.setdefault(f, val)
            del free
            if sorted(given) != sorted(self.w.fields):
                self.fail(e, "EpochConfig call that does not give every field")
            opt = given["optional"]
            if not (isinstance(opt, ast.Constant) and opt.value is None):
                self.fail(e, "EpochConfig with optional other than None")
            # evaluation order: positional, then keywords, as written
            order = [f for f in self.w.fields[:len(e.args)]] + [k.arg for k in e.keywords]
            order = [f for f in order if f != "optional"]
            for f in ("type", "duration", "thinning"):
                if f not in order:
                    order.append(f)
            ts = {f: self.expr(given[f]) for f in order}
            for f in ("type", "duration", "thinning"):
                if ts[f].ty != Z:
                    self.fail(e, f"EpochConfig field {f} given a {ts[f].ty}")
            idx = {f: k for k, f in enumerate(order)}
            return self.lift([ts[f] for f in order],
                             lambda a: f"(gconf {a[idx['type']]} {a[idx['duration']]} {a[idx['thinning']]})", CONF)
        self.fail(e, f"call of {fn}")

    # ---- statements --------------------------------------------------------------------------
    def terminates(self, stmts):
        if not stmts:
            return False
        s = stmts[-1]
        if isinstance(s, (ast.Raise, ast.Return)):
            return True
        if isinstance(s, ast.If):
            return self.terminates(s.body) and self.terminates(s.orelse)
        return False

    def assigned(self, stmts, out=None):
        """local / state names (re)bound by the statements, in order of first appearance"""
        out = [] if out is None else out

        def add(n):
            if n not in out:
                out.append(n)
        for s in stmts:
            if isinstance(s, ast.Assign):
                for t in s.targets:
                    add(self.target_name(t))
            elif isinstance(s, ast.AugAssign):
                add(self.target_name(s.target))
            elif isinstance(s, ast.Expr) and isinstance(s.value, ast.Call) and isinstance(s.value.func, ast.Attribute) \
                    and s.value.func.attr in ("append", "extend"):
                add(self.target_name(s.value.func.value))
            elif isinstance(s, ast.If):
                self.assigned(s.body, out)
                self.assigned(s.orelse, out)
            elif isinstance(s, ast.While):
                self.assigned(s.body, out)
        return out

    def target_name(self, t):
        """key of an assignable place: ('v', name) for a local, ('s', attr) for self.<attr>"""
        if isinstance(t, ast.Name):
            return ("v", t.id)
        if isinstance(t, ast.Attribute) and isinstance(t.value, ast.Name) and t.value.id == "self" \
                and t.attr in self.self_state and "self" not in self.env:
            return ("s", t.attr)
        self.fail(t, "assignment target " + ast.unparse(t))

    def place(self, key):
        return self.v(key[1]) if key[0] == "v" else self.sv(key[1])

    def place_ty(self, key, node):
        if key[0] == "s":
            return self.self_state[key[1]]
        if key[1] not in self.env:
            self.fail(node, f"variable {key[1]} is first assigned inside a branch or loop")
        return self.env[key[1]]

    def bind(self, key, t: Tm, node, k):
        """let <place> := t in k()"""
        if key[0] == "v":
            if key[1] in self.env and self.env[key[1]] != t.ty:
                self.fail(node, f"variable {key[1]} changes its type from {self.env[key[1]]} to {t.ty}")
            if key[1] in ("self", "EpochType", "EpochConfig", "cast") or key[1] in self.aliases:
                self.fail(node, f"local variable named {key[1]}")
            if t.ty not in (Z, B, CONF, LCONF):
                self.fail(node, f"variable of type {t.ty}")
            self.env[key[1]] = t.ty
        elif self.self_state[key[1]] != t.ty:
            self.fail(node, f"self.{key[1]} assigned a {t.ty}")
        x = self.place(key)
        if t.m:
            return f"gbind ({t.s}) (fun {x} =>\n{k()})"
        return f"let {x} := {t.s} in\n{k()}"

    def seq(self, stmts, tail):
        """translate statements; tail() gives the term for what follows their normal completion"""
        if not stmts:
            return tail()
        s, rest = stmts[0], stmts[1:]

        def k():
            return self.seq(rest, tail)

        if isinstance(s, ast.Expr) and isinstance(s.value, ast.Constant) and isinstance(s.value.value, str):
            return k()
        if isinstance(s, ast.Pass):
            return k()
        if isinstance(s, ast.Raise):
            if rest:
                self.fail(rest[0], "statement after raise")
            if s.cause is not None or s.exc is None:
                self.fail(s, "raise ... from / bare raise")
            ex = s.exc
            name = ex.func.id if isinstance(ex, ast.Call) and isinstance(ex.func, ast.Name) else (ex.id if isinstance(ex, ast.Name) else None)
            if name not in RAISABLE or name in self.env:
                self.fail(s, "raise of " + ast.unparse(ex)[:40])
            if isinstance(ex, ast.Call):
                for a in list(ex.args) + [kw.value for kw in ex.keywords]:
                    if not (isinstance(a, ast.Constant) and isinstance(a.value, str)):
                        self.fail(s, "exception argument that is not a string literal")
            return f"GRaise {RAISABLE[name]}"
        if isinstance(s, ast.Return):
            if rest:
                self.fail(rest[0], "statement after return")
            return self.ret(s)
        if isinstance(s, ast.Assign):
            if len(s.targets) != 1:
                self.fail(s, "multiple assignment targets")
            key = self.target_name(s.targets[0])
            return self.bind(key, self.expr(s.value), s, k)
        if isinstance(s, ast.AnnAssign):
            self.fail(s, "annotated assignment")
        if isinstance(s, ast.AugAssign):
            key = self.target_name(s.target)
            cur = Tm(self.place(key), self.place_ty(key, s))
            return self.bind(key, self.binop(s, s.op, cur, self.expr(s.value)), s, k)
        if isinstance(s, ast.Expr) and isinstance(s.value, ast.Call) and isinstance(s.value.func, ast.Attribute) \
                and s.value.func.attr in ("append", "extend"):
            c = s.value
            key = self.target_name(c.func.value)
            if self.place_ty(key, s) != LCONF or len(c.args) != 1 or c.keywords:
                self.fail(s, "append / extend on something that is not a list of EpochConfig")
            a = self.expr(c.args[0])
            want = CONF if c.func.attr == "append" else LCONF
            if a.ty != want:
                self.fail(s, f"{c.func.attr} of a {a.ty}")
            x = self.place(key)
            t = self.lift([a], (lambda v: f"({x} ++ [{v[0]}])") if want == CONF else (lambda v: f"({x} ++ {v[0]})"), LCONF)
            return self.bind(key, t, s, k)
        if isinstance(s, ast.If):
            return self.if_(s, rest, tail)
        if isinstance(s, ast.While):
            return self.while_(s, k)
        self.fail(s, "statement " + type(s).__name__)

    def cond(self, t: Tm, then, els):
        if t.m:
            return f"gbind ({t.s}) (fun c_ =>\nif c_ then {then}\nelse {els})"
        return f"if {t.s} then {then}\nelse {els}"

    def if_(self, s: ast.If, rest, tail):
        t = self.test(s.test)
        env0 = dict(self.env)

        def dead():
            raise AssertionError("unreachable continuation used")

        if self.terminates(s.body):
            then = self.seq(s.body, dead)
            self.env = dict(env0)
            els = self.seq(list(s.orelse) + list(rest), tail)
            return self.cond(t, then, els)
        if s.orelse and self.terminates(s.orelse):
            els = self.seq(s.orelse, dead)
            self.env = dict(env0)
            then = self.seq(list(s.body) + list(rest), tail)
            return self.cond(t, then, els)
        # both branches may fall through: they yield the places they (re)bind, the rest follows once
        keys = self.assigned(list(s.body) + list(s.orelse))
        for key in keys:
            self.place_ty(key, s)
        pat = tuple_pat(self.place(key) for key in keys)

        def out():
            return f"GOk {pat}"
        then = self.seq(s.body, out)
        self.env = dict(env0)
        els = self.seq(s.orelse, out)
        self.env = dict(env0)
        inner = self.cond(t, then, els)
        return f"gbind ({inner}) ({fun_pat(self.place(key) for key in keys)}\n{self.seq(rest, tail)})"

    def loop_ok(self, stmts):
        for s in stmts:
            if isinstance(s, (ast.Assign, ast.AugAssign, ast.Pass)):
                continue
            if isinstance(s, ast.Expr):
                continue            # checked by seq (append / extend / docstring only)
            if isinstance(s, ast.If):
                self.loop_ok(s.body)
                self.loop_ok(s.orelse)
                continue
            self.fail(s, type(s).__name__ + " inside a while loop")

    def while_(self, s: ast.While, k):
        if s.orelse:
            self.fail(s, "while ... else")
        self.loop_ok(s.body)
        # state: the places the body rebinds, ordered by first appearance in test, then body
        bound = self.assigned(s.body)
        # ast.walk is breadth first; use source position for a stable, rename-independent order
        names_in_test = sorted((n for n in ast.walk(s.test) if isinstance(n, ast.Name)), key=lambda n: (n.lineno, n.col_offset))
        order = []
        for n in names_in_test:
            if ("v", n.id) in bound and ("v", n.id) not in order:
                order.append(("v", n.id))
        keys = order + [b for b in bound if b not in order]
        tys = [self.place_ty(key, s) for key in keys]
        pat = tuple_pat(self.place(key) for key in keys)
        env0 = dict(self.env)
        t = self.test(s.test)
        if t.m:
            self.fail(s, "loop test that can raise")
        body = self.seq(s.body, lambda: f"GOk {pat}")
        if self.env != env0:
            self.fail(s, "loop body introduces a new variable")
        # the body must be pure (no gbind / GRaise) so that gwhile's body is a total function
        if "GRaise" in body or "gbind" in body:
            self.fail(s, "loop body that can raise")
        pure_body = self.unwrap_ok(body, s)
        self.uses_fuel = True
        sty = tuple_ty(tys)
        # test and body become top-level definitions over the free variables they read (ordered by
        # first appearance), so that the generated file can state an induction lemma about the loop
        names = sorted((n for st in [s.test] + list(s.body) for n in ast.walk(st) if isinstance(n, ast.Name)),
                       key=lambda n: (n.lineno, n.col_offset))
        free = []
        for n in names:
            if n.id in env0 and ("v", n.id) not in keys and n.id not in free:
                free.append(n.id)
        self.loops = getattr(self, "loops", [])
        base = f"gen_{self.node.name}_loop{len(self.loops) + 1}"
        fparams = "".join(f" ({self.v(n)} : {env0[n]})" for n in free)
        fargs = "".join(" " + self.v(n) for n in free)
        unpack = f"let '{pat} := st_ in\n" if len(keys) > 1 else f"let {pat} := st_ in\n"
        self.aux = getattr(self, "aux", [])
        self.aux.append(f"Definition {base}_cond{fparams} (st_ : {sty}) : bool :=\n{indent(unpack + t.s)}.")
        self.aux.append(f"Definition {base}_body{fparams} (st_ : {sty}) : {sty} :=\n{indent(unpack + pure_body)}.")
        self.loops.append({"name": base, "state": [k_[1] for k_ in keys], "state_types": tys,
                           "free": free, "free_types": [env0[n] for n in free]})
        return (f"gbind (gwhile fuel ({base}_cond{fargs}) ({base}_body{fargs}) {pat}) "
                f"({fun_pat(self.place(key) for key in keys)}\n{k()})")

    def unwrap_ok(self, body, node):
        """the straight-line body ends in `GOk <state>`; as a pure function it ends in `<state>`"""
        lines = body.split("\n")
        if not lines[-1].startswith("GOk ") or any("GOk" in l for l in lines[:-1]):
            self.fail(node, "loop body with branches")
        lines[-1] = lines[-1][4:]
        return "\n".join(lines)

    def ret(self, s):  # overridden per function kind
        raise NotImplementedError


INDENT = "  "


def indent(txt, n=1):
    return "\n".join(INDENT * n + l for l in txt.split("\n"))


def translate_enum(w: World):
    lines = [f"Definition gen_EpochType_{n} : Z := {zlit(v)}." for n, v in w.enum.items()]
    c = w.epoch.cls("EpochType")
    info = w.epoch.info(c, "EpochType (members)")
    return "\n".join(lines), info


def check_args(mod, node, names=None, n=None, first_self=False, allow_defaults=False):
    a = node.args
    if a.vararg or a.kwarg or a.kwonlyargs or a.posonlyargs or (a.defaults and not allow_defaults):
        mod.fail(node, "parameter list with * / ** / keyword-only / defaults")
    args = [x.arg for x in a.args]
    if first_self:
        if not args or args[0] != "self":
            mod.fail(node, "method without self")
        args = args[1:]
    if n is not None and len(args) != n:
        mod.fail(node, f"{node.name} takes {len(args)} parameters, expected {n}")
    return args


def translate_predicate(w: World, name):
    """EpochType.is_warmup / is_adaptation: staticmethod (epoch_type) -> bool, straight-line"""
    m = w.epoch
    node = m.find("EpochType", name)
    if [ast.unparse(d) for d in node.decorator_list] != ["staticmethod"]:
        m.fail(node, "not a staticmethod")
    (arg,) = check_args(m, node, n=1)
    f = Fn(w, m, node)
    f.env[arg] = Z

    def ret(s):
        if s.value is None:
            f.fail(s, "return without a value")
        t = f.expr(s.value)
        if t.ty != B or t.m:
            f.fail(s, f"returns a {t.ty}" + (" that can raise" if t.m else ""))
        return t.s
    f.ret = ret
    if not f.terminates(node.body):
        m.fail(node, "function can fall off its end")
    body = f.seq(node.body, lambda: m.fail(node, "falls off the end"))
    if "GRaise" in body or "gbind" in body or "if " in body:
        m.fail(node, "predicate that is not straight-line")
    txt = f"Definition gen_{name} ({f.v(arg)} : Z) : bool :=\n{indent(body)}."
    return txt, m.info(node, f"EpochType.{name}"), f


def translate_append(w: World):
    m = w.epoch
    node = m.find("EpochManager", "append")
    if node.decorator_list:
        m.fail(node, "decorated method")
    (arg,) = check_args(m, node, n=1, first_self=True)
    f = Fn(w, m, node, self_state={"_configs": LCONF})
    f.env[arg] = CONF
    # __init__ must start the list empty and feed the given configs through append in order
    init = m.find("EpochManager", "__init__")
    srcs = [ast.unparse(s) for s in init.body]
    if not any(s.replace(" ", "") in ("self._configs:list[EpochConfig]=[]", "self._configs=[]") for s in srcs):
        m.fail(init, "EpochManager.__init__ does not start with self._configs = []")
    loop = [s for s in ast.walk(init) if isinstance(s, ast.For)]
    if len(loop) != 1 or ast.unparse(loop[0]).replace(" ", "").replace("\n", "") != "forconfiginconfigs:self.append(config)":
        m.fail(init, "EpochManager.__init__ is not `for config in configs: self.append(config)`")
    # no other method may write self._configs
    cls = m.cls("EpochManager")
    for meth in cls.body:
        if isinstance(meth, ast.FunctionDef) and meth.name not in ("append", "__init__"):
            for n in ast.walk(meth):
                if isinstance(n, (ast.Assign, ast.AugAssign, ast.Delete)) and "_configs" in ast.unparse(n).split("=")[0]:
                    m.fail(n, f"{meth.name} writes self._configs")
                if isinstance(n, ast.Call) and isinstance(n.func, ast.Attribute) and ast.unparse(n.func.value) == "self._configs":
                    m.fail(n, f"{meth.name} calls self._configs.{n.func.attr}")

    def ret(s):
        if s.value is not None and not (isinstance(s.value, ast.Constant) and s.value.value is None):
            f.fail(s, "append returns a value")
        return "GOk s_configs"
    f.ret = ret
    body = f.seq(node.body, lambda: "GOk s_configs")
    txt = (f"Definition gen_append (s_configs : list econf) ({f.v(arg)} : econf) : gres (list econf) :=\n"
           f"{indent(body)}.")
    return txt, m.info(node, "EpochManager.append"), f


def translate_stan(w: World):
    m = w.warmup
    node = m.find(None, "stan_epochs")
    if node.decorator_list:
        m.fail(node, "decorated function: " + ast.unparse(node.decorator_list[0]))
    args = check_args(m, node, n=7, allow_defaults=True)
    for a in node.args.args:
        if a.annotation is None or ast.unparse(a.annotation) != "int":
            m.fail(node, f"parameter {a.arg} is not annotated int")
    defaults = []
    for d in node.args.defaults:
        if not (isinstance(d, ast.Constant) and type(d.value) is int):
            m.fail(node, "default value that is not an int literal")
        defaults.append(d.value)
    f = Fn(w, m, node)
    for a in args:
        f.env[a] = Z

    def ret(s):
        if s.value is None:
            f.fail(s, "return without a value")
        t = f.expr(s.value)
        if t.ty != LCONF:
            f.fail(s, f"returns a {t.ty}")
        return t.s if t.m else f"GOk {t.s}"
    f.ret = ret
    if not f.terminates(node.body):
        m.fail(node, "function can fall off its end")
    body = f.seq(node.body, lambda: m.fail(node, "falls off the end"))
    if not f.uses_fuel:
        body = "let _ := fuel in\n" + body
    params = " ".join(f.v(a) for a in args)
    txt = ("\n".join(getattr(f, "aux", []) + [""]) +
           f"Definition gen_stan_epochs (fuel : nat) ({params} : Z) : gres (list econf) :=\n{indent(body)}.\n"
           f"Definition gen_stan_epochs_defaults : list Z := [{'; '.join(zlit(d) for d in defaults)}].")
    info = m.info(node, "stan_epochs")
    info["loops"] = getattr(f, "loops", [])
    info["n_defaults"] = len(defaults)
    return txt, info, f


def translate_state(w: World):
    """EpochState.time_left / advance_time on the fields (config, time, time_in_epoch)"""
    m = w.epoch
    out = []
    node = m.find("EpochState", "time_left")
    check_args(m, node, n=0, first_self=True)
    f = Fn(w, m, node, self_state={"time": Z, "time_in_epoch": Z, "time_before_epoch": Z}, cfg_self="config")

    def ret(s):
        if s.value is None:
            f.fail(s, "return without a value")
        t = f.expr(s.value)
        if t.ty != Z or t.m:
            f.fail(s, f"returns a {t.ty}")
        return t.s
    f.ret = ret
    if not f.terminates(node.body):
        m.fail(node, "function can fall off its end")
    body = f.seq(node.body, lambda: m.fail(node, "falls off the end"))
    if "GRaise" in body or "gbind" in body:
        m.fail(node, "time_left can raise")
    out.append((f"Definition gen_time_left (s_config : econf) (s_time s_time_before_epoch s_time_in_epoch : Z) : Z :=\n{indent(body)}.",
                m.info(node, "EpochState.time_left")))
    node = m.find("EpochState", "advance_time")
    (arg,) = check_args(m, node, n=1, first_self=True)
    g = Fn(w, m, node, self_state={"time": Z, "time_in_epoch": Z, "time_before_epoch": Z}, cfg_self="config")
    g.env[arg] = Z

    def ret2(s):
        if s.value is not None:
            g.fail(s, "advance_time returns a value")
        return "GOk (s_time, s_time_before_epoch, s_time_in_epoch)"
    g.ret = ret2
    body = g.seq(node.body, lambda: "GOk (s_time, s_time_before_epoch, s_time_in_epoch)")
    if "GRaise" in body or "gbind" in body or "if " in body:
        m.fail(node, "advance_time is not straight-line")
    lines = body.split("\n")
    lines[-1] = lines[-1][4:]
    out.append((f"Definition gen_advance_time (s_config : econf) (s_time s_time_before_epoch s_time_in_epoch : Z) ({g.v(arg)} : Z) : Z * Z * Z :=\n{indent(chr(10).join(lines))}.",
                m.info(node, "EpochState.advance_time")))
    # the dataclass field order of EpochState is used by to_state's keyword call only; check the names
    c = m.cls("EpochState")
    names = [st.target.id for st in c.body if isinstance(st, ast.AnnAssign)]
    if sorted(names) != sorted(["config", "nth_epoch", "time", "time_before_epoch", "time_in_epoch"]):
        m.fail(c, f"EpochState fields are {names}")
    return out


def translate(root: str, what=("enum", "append", "predicates", "stan", "state")):
    """returns {section: {"text": gallina, "info": [..]} or {"error": message}}"""
    res = {}
    try:
        w = World(root)
    except (Unsupported, OSError, SyntaxError) as ex:
        return {k: {"error": str(ex)} for k in what}
    for sec in what:
        try:
            if sec == "enum":
                t, i = translate_enum(w)
                res[sec] = {"text": t, "info": [i]}
            elif sec == "predicates":
                parts = [translate_predicate(w, n)[:2] for n in ("is_adaptation", "is_warmup")]
                res[sec] = {"text": "\n".join(p[0] for p in parts), "info": [p[1] for p in parts]}
            elif sec == "append":
                t, i, f = translate_append(w)
                res[sec] = {"text": t, "info": [i], "calls": sorted(set(f.calls))}
            elif sec == "stan":
                t, i, f = translate_stan(w)
                res[sec] = {"text": t, "info": [i], "calls": sorted(set(f.calls))}
            elif sec == "state":
                parts = translate_state(w)
                res[sec] = {"text": "\n".join(p[0] for p in parts), "info": [p[1] for p in parts]}
        except Unsupported as ex:
            res[sec] = {"error": str(ex)}
        except RecursionError as ex:   # pathological nesting: fail closed
            res[sec] = {"error": "translator recursion limit: " + str(ex)}
    return res


if __name__ == "__main__":
    r = translate(sys.argv[1] if len(sys.argv) > 1 else "/repo")
    for sec, d in r.items():
        print(f"(* ---- {sec} ---- *)")
        if "error" in d:
            print("(* FAILED CLOSED:", d["error"], "*)")
        else:
            for i in d["info"]:
                print(f"(* {i['file']} {i['function']} lines {i['lines'][0]}-{i['lines'][1]} sha256 {i['sha256'][:16]} *)")
            print(d["text"])
