#!/bin/sh
# regenerates coq/_CoqProject: every .v file under /verif/coq
cd /verif/coq && { echo "-Q . LV"; find . -name '*.v' | sed 's|^\./||' | LC_ALL=C sort; } > _CoqProject
