#!/usr/bin/env python3
"""Scans the Coq development for constructs the task forbids:
Axiom/Parameter/Conjecture/Admitted/admit/Admit Obligations, guard/positivity/universe switches,
native_compute, leftover hammer/sauto, and Variable/Hypothesis/Context declared OUTSIDE a Section
(which would declare an axiom).  Exit 1 and list the hits if any."""
import os, re, sys
root = sys.argv[1] if len(sys.argv) > 1 else "/verif/coq"
bad = []
FORB = re.compile(r"\b(Admitted|admit|Axiom|Axioms|Parameter|Parameters|Conjecture|bypass_check|native_compute|hammer|sauto|hauto)\b|Unset\s+Guard|Unset\s+Positivity|Unset\s+Universe|type-in-type|Admit\s+Obligations|impredicative-set")
DECL = re.compile(r"^\s*(Variable|Variables|Hypothesis|Hypotheses|Context)\b")
def strip_comments(t):
    out, depth, i = [], 0, 0
    while i < len(t):
        if t.startswith("(*", i): depth += 1; i += 2; continue
        if t.startswith("*)", i) and depth: depth -= 1; i += 2; continue
        out.append(t[i] if depth == 0 or t[i] == "\n" else " "); i += 1
    return "".join(out)
for d, _, fs in os.walk(root):
    for f in fs:
        if not f.endswith(".v"): continue
        p = os.path.join(d, f); depth = 0
        for n, line in enumerate(strip_comments(open(p).read()).split("\n"), 1):
            if re.match(r"^\s*(Section|Module)\s+\w+", line) and ":=" not in line: depth += 1
            if re.match(r"^\s*End\s+\w+\s*\.", line): depth = max(0, depth - 1)
            if FORB.search(line): bad.append(f"{p}:{n}: {line.strip()[:100]}")
            if DECL.match(line) and depth == 0: bad.append(f"{p}:{n}: declaration outside a Section: {line.strip()[:80]}")
print("\n".join(bad) if bad else "scan_coq: clean")
sys.exit(1 if bad else 0)
