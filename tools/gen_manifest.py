#!/usr/bin/env python3
"""Regenerates /verif/MANIFEST.json from the table below (kept valid at all times)."""
import json, os, sys
sys.path.insert(0, "/verif/tools")
from manifest_table import CHECKS, NOT_BUILT

checks = []
for pid, d in sorted(CHECKS.items()):
    checks.append({
        "property_id": pid,
        "quick_cmd": f"./check {pid} --tier quick",
        "thorough_cmd": f"./check {pid} --tier thorough",
        "evidence_file": f"/verif/evidence/{pid}.json",
        "replay_cmd_template": f"./check {pid} --replay {{path}}",
        "engine": "rocq-proof+correspondence",
        "level_claimed": {"category": "proof", "text": d["text"], "design_ref": f"DESIGN.md section 5, {pid}"},
        "level_note": d["note"],
        "technique": d["technique"],
    })
m = {
    "version": 1,
    "setup_cmd": "mkdir -p /verif/.work && /verif/tools/gen_coqproject.sh && cd /verif/coq && coq_makefile -f _CoqProject -o Makefile && (timeout 3000 make -k -j16 > /verif/.work/setup_make.log 2>&1; tail -n 5 /verif/.work/setup_make.log; true)",
    "hooks": {
        "guard": "LIESEL_VERIF",
        "enable": "no source hooks: checks run the unmodified package from /repo (PYTHONPATH=/repo) with harness-side instrumentation only",
        "baseline_off_cmd": "cd /repo && /venv/bin/python -m pytest -ra -q -p no:cacheprovider --timeout=900 --continue-on-collection-errors",
        "source_commits": [],
        "add_only": True,
    },
    "engines": [{
        "name": "rocq-proof+correspondence", "path": "/verif/coq + /verif/harness",
        "serves_properties": sorted(CHECKS),
        "kind_free_text": "Coq 8.16 theorems over hand-written Gallina models; on every run the model is evaluated inside Coq (vm_compute / interval) on the inputs the real liesel was just run on, and the kernel certifies agreement",
    }],
    "checks": checks,
    "not_applicable": [{"property_id": p, "reason": r} for p, r in sorted(NOT_BUILT.items())],
    "notes": "Single entry point ./check Cnn --tier quick|thorough. Genuine defects repaired by fix: commits are listed in known_findings.json.",
}
json.dump(m, open("/verif/MANIFEST.json", "w"), indent=1)
print("checks:", len(checks), "not_applicable:", len(m["not_applicable"]))
