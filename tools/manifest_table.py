"""The manifest table: one JSON file per *claimed* property in /verif/manifest.d/Cnn.json
({"text", "note", "technique"}); every property without such a file is listed under not_applicable
with the reason given in manifest.d/not_claimed.json (or a default)."""
import glob, json, os

D = "/verif/manifest.d"
CHECKS = {}
for p in sorted(glob.glob(os.path.join(D, "C[0-9][0-9].json"))):
    pid = os.path.basename(p)[:-5]
    CHECKS[pid] = json.load(open(p))
ALL = [json.loads(l)["id"] for l in open("/verif/properties.jsonl") if l.strip()]
_reasons = {}
if os.path.exists(os.path.join(D, "not_claimed.json")):
    _reasons = json.load(open(os.path.join(D, "not_claimed.json")))
NOT_BUILT = {p: _reasons.get(p, "check not finished yet (model and proofs in progress; see DESIGN.md section 9) - not claimed")
             for p in ALL if p not in CHECKS}
