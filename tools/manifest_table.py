CHECKS = {
 "C16": dict(
  text="Unbounded Coq theorems over the EpochManager / stan_epochs / chunk-length model (accept iff valid for every list; manager state machine; consecutive states; Stan schedule valid, summing to the request, doubling pattern, for all admissible arguments; gcd chunk divides). The model is tied to the code on every run by an exhaustive bounded correspondence (all sequences up to length 3 over an 80-letter alphabet), random append/next interleavings and a stan_epochs grid, certified by vm_compute lemmas.",
  note="Trusted: Coq kernel (vm_compute), the hand-written model Goose/Epoch.v + Warmup.v, the Python harness; theorems are closed under the global context (no axioms). The error *class* of a rejection is not compared, only accept/reject.",
  technique="Rocq proof (induction over schedules, loop invariant for the doubling loop) + exhaustive model/implementation correspondence evaluated in Coq"),
}
NOT_BUILT = {p: "check not built yet in this session (planned; see DESIGN.md section 9)" for p in
  ["C01","C02","C03","C04","C05","C06","C07","C08","C09","C10","C11","C12","C13","C14","C15","C17","C18","C19","C20"]}
