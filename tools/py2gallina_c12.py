#!/usr/bin/env python3
"""py2gallina_c12 - a small FAIL-CLOSED translator from the Python source of the mass-matrix tuning code of
liesel to Gallina, used by the C12 check (harness/lv/c12_tie.py) on every run to re-establish the C12
theorems for the code as it reads now:

    liesel/goose/mm.py    _vravel, _history_to_matrix, tune_inv_mm_diag, tune_inv_mm_full
    liesel/goose/nuts.py  NUTSKernel._tune_fast, NUTSKernel._tune_slow
    liesel/goose/hmc.py   HMCKernel._tune_fast,  HMCKernel._tune_slow

It parses the source with `ast` (helpers Module / Unsupported of tools/py2gallina.py) and supports exactly
the subset below; anything else raises `Unsupported` with file:line - nothing is guessed.

  types        dict str -> array (gdict, insertion order), `Position | None` (option gdict), array of shape
               (T, *shape) (garr = flat item size + the T items in C order), list of arrays, 2-d matrix as its
               list of COLUMNS (gmat), list of matrices, vector (list Q), the raw result of jnp.cov (needs
               atleast_2d), square matrix (list of rows), "vector or matrix" (the model's mm), float scalar
               (Q, exact, no rounding), str, sequence of str, bool, the kernel state (the model's kstate:
               step_size, inverse_mass_matrix), opaque values (prng_key, model_state, epoch, the info object)
  expressions  float literals (the decimal fraction written); None (only as the history argument of
               self._tune_fast); locals and parameters; self.position_keys,
               self.mm_diag; kernel_state.step_size / .inverse_mass_matrix; d[k]; vector + scalar; scalar
               + - * / scalar; [e for x in xs]; {k: e for k in names}; calls of functions translated before
               (module functions of mm.py, imported `from .mm`, self._tune_fast); a local bound to a library
               function (trace_fn = jnp.sum); the LIBRARY TABLE
  statements   docstrings; name = expr; kernel_state.<field> = expr (a shadowing let); return expr;
               if <bool>: .. else: ..; if x is [not] None: .. [else: ..]  (the statements after an `if`
               are translated into both branches)

LIBRARY TABLE (canonical name after resolving the module's imports -> Gallina target, Goose/GenC12Tie.v):
  jax.vmap(jax.numpy.ravel, in_axes=0, out_axes=0)   gvravel: (T, *shape) -> the (T, n) matrix whose column j is
        (only as a module-level binding)               the series of flat index j in C order (model: series)
  jax.tree_util.tree_leaves(d) / jax.tree_leaves / jax.tree.leaves    gtree_leaves d: values in sorted key order
  d.values()                                         gvalues d: values in insertion order
  d[k]                                               gget d k (KeyError)
  {k: e for k in names}                              tmapM: insertion order = the order of names; duplicates in
                                                     names are not collapsed (model precondition: distinct)
  Position(d)            (.types.Position)           d
  jax.numpy.column_stack(list of matrices)           gcolumn_stack (model: stack; no array / unequal rows raise)
  jax.numpy.var(m, axis=0, ddof=k)                   gvar_axis0 k m  (per column; length <= ddof is an error,
                                                     jax returns NaN / inf there)
  jax.numpy.cov(m, rowvar=False[, bias=b][, ddof=k]) gcov_cols k m   (k = 1 by default, 0 with bias=True)
  jax.numpy.atleast_1d(v) / atleast_2d(c)            identity (the 0-d result of jnp.cov of one variable is
                                                     represented as the 1 x 1 matrix atleast_2d makes of it)
  c.at[jax.numpy.diag_indices_from(c)].add(r)        gdiag_add c r
  jax.numpy.sum(x)                                   gsum: sum of all entries of a vector / matrix
  jax.numpy.trace(x)                                 gtrace: sum of the diagonal of a matrix; a vector raises
  jax.numpy.sqrt(x)                                  sqrt_o x: the ORACLE parameter of the model
  <Kernel>TuningInfo(error_code=.., time=epoch.time) tt (the info object is not modelled)
  TuningOutcome(info, kernel_state)  (.kernel)       the kernel state
Not modelled (assumed): float rounding, NaN / inf (an error instead), tracing / jit / vmap over chains, dtype
promotion, in-place mutation visible to the caller (a field assignment is a shadowing let; the state is the
returned one).

Command line:  py2gallina_c12.py <repo-root>      prints the generated definitions.
"""
from __future__ import annotations

import ast
import importlib.util
import os
import sys
from fractions import Fraction

_HERE = os.path.dirname(os.path.abspath(__file__))
_spec = importlib.util.spec_from_file_location("py2gallina", os.path.join(_HERE, "py2gallina.py"))
_base = importlib.util.module_from_spec(_spec)
_spec.loader.exec_module(_base)
Module, Unsupported, indent = _base.Module, _base.Unsupported, _base.indent

MM_PY, NUTS_PY, HMC_PY = "liesel/goose/mm.py", "liesel/goose/nuts.py", "liesel/goose/hmc.py"

# translator types
DICT, OPTDICT, NONE, ARR, LARR, MAT, LMAT, VEC, COV0, SQ, MMT, QT, STR, LSTR, BOOL, KST, OPQ, FN, PAIR = (
    "gdict", "option gdict", "None", "garr", "list garr", "gmat", "list gmat", "list Q", "<raw cov>", "list (list Q)",
    "mm", "Q", "string", "list string", "bool", "kstate", "<opaque>", "<function>", "<item>")
GALLINA = {DICT: "gdict", OPTDICT: "option gdict", ARR: "garr", LARR: "list garr", MAT: "gmat", LMAT: "list gmat",
           VEC: "list Q", SQ: "list (list Q)", MMT: "mm", QT: "Q", STR: "string", LSTR: "list string", BOOL: "bool",
           KST: "kstate"}

TREE_LEAVES = {"jax.tree_util.tree_leaves", "jax.tree_leaves", "jax.tree.leaves"}
LIBRARY = {
    **{n: "tree_leaves" for n in TREE_LEAVES},
    "jax.numpy.column_stack": "column_stack", "jax.numpy.var": "var", "jax.numpy.cov": "cov",
    "jax.numpy.atleast_1d": "atleast_1d", "jax.numpy.atleast_2d": "atleast_2d",
    "jax.numpy.sum": "sum", "jax.numpy.trace": "trace", "jax.numpy.sqrt": "sqrt",
    ".types.Position": "position", ".kernel.TuningOutcome": "outcome",
}
FNREF_OK = {"jax.numpy.sum", "jax.numpy.trace"}


def qlit(x: Fraction) -> str:
    n = f"({x.numerator})" if x.numerator < 0 else str(x.numerator)
    return f"(Qmake {n} {x.denominator})"


class Tm:
    """a translated expression: the exceptions it can raise are bound, in evaluation order, by `binds`
    [(variable, tres term)]; `s` is the pure value under those binders"""

    def __init__(self, s, ty, binds=None, extra=None):
        self.s, self.ty, self.binds, self.extra = s, ty, list(binds or []), extra


def wrap(binds, body):
    for x, s in reversed(binds):
        body = f"tbind ({s}) (fun {x} =>\n{body})"
    return body


def finish(t: Tm):
    """the tres term of an expression in tail position"""
    if t.binds and t.binds[-1][0] == t.s:
        return wrap(t.binds[:-1], t.binds[-1][1])
    return wrap(t.binds, f"TOk {t.s}")


class Mod:
    """one source module: imports resolved, module-level names checked"""

    def __init__(self, root, rel, allowed_assign):
        self.m = Module(root, rel)
        self.aliases, self.defs, self.assigns = {}, {}, {}
        for st in self.m.tree.body:
            if isinstance(st, ast.Import):
                for a in st.names:
                    if a.asname:
                        self.aliases[a.asname] = a.name
                    else:
                        top = a.name.split(".")[0]
                        self.aliases[top] = top
            elif isinstance(st, ast.ImportFrom):
                for a in st.names:
                    if a.name == "*":
                        self.m.fail(st, "star import")
                    self.aliases[a.asname or a.name] = ("." * st.level) + (st.module or "") + "." + a.name
            elif isinstance(st, ast.Expr) and isinstance(st.value, ast.Constant) and isinstance(st.value.value, str):
                pass
            elif isinstance(st, (ast.ClassDef, ast.FunctionDef)):
                if st.name in self.defs or st.name in self.assigns:
                    self.m.fail(st, f"second definition of {st.name}")
                self.defs[st.name] = st
            elif isinstance(st, ast.Assign) and len(st.targets) == 1 and isinstance(st.targets[0], ast.Name):
                n = st.targets[0].id
                if n in self.defs or n in self.assigns:
                    self.m.fail(st, f"second definition of {n}")
                if not allowed_assign(n):
                    self.m.fail(st, f"module level assignment to {n}")
                self.assigns[n] = st
            else:
                self.m.fail(st, "module level statement " + type(st).__name__)
        for n in list(self.defs) + list(self.assigns):
            if n in self.aliases:
                self.m.fail(self.m.tree, f"{n} is both imported and defined")

    def canonical(self, func, local=()):
        parts, e = [], func
        while isinstance(e, ast.Attribute):
            parts.append(e.attr)
            e = e.value
        if not isinstance(e, ast.Name) or e.id in local or e.id == "self" or e.id not in self.aliases:
            return None
        return ".".join([self.aliases[e.id]] + list(reversed(parts)))


class Fn:
    """translation of one function body"""

    def __init__(self, mod: Mod, node, funcs, kernel=None):
        self.mod, self.m, self.node = mod, mod.m, node
        self.funcs = funcs          # callable name / canonical name -> {"gen", "params": [ty], "ret": ty}
        self.kernel = kernel        # None or {"fast": gen name of _tune_fast or None}
        self.env, self.rec, self.fnref = {}, {}, {}
        self.tmp = 0
        self.uses_sqrt = False

    def fail(self, node, what):
        self.m.fail(node, what)

    @staticmethod
    def v(name):
        return "v_" + name

    def fresh(self):
        self.tmp += 1
        return f"x{self.tmp}"

    def raising(self, term, ty, binds=()):
        x = self.fresh()
        return Tm(x, ty, list(binds) + [(x, term)])

    @staticmethod
    def join(parts):
        b = []
        for p in parts:
            b += p.binds
        return b

    # ---- the kernel state record -------------------------------------------------------------------
    def state_term(self, name):
        r = self.rec[name]
        if not r["dirty"]:
            return self.v(name)
        return f"(mkK {r['step_size']} {r['inverse_mass_matrix']})"

    # ---- expressions -------------------------------------------------------------------------------
    def expr(self, e) -> Tm:
        if isinstance(e, ast.Constant):
            if type(e.value) is float and e.value == e.value and abs(e.value) != float("inf"):
                return Tm(qlit(Fraction(repr(e.value))), QT)
            if type(e.value) is bool:
                return Tm("true" if e.value else "false", BOOL)
            if e.value is None:
                return Tm("None", NONE)
            self.fail(e, f"constant {e.value!r}")
        if isinstance(e, ast.Name):
            if e.id in self.fnref:
                self.fail(e, f"function-valued local {e.id} used as a value")
            if e.id in self.env:
                ty = self.env[e.id]
                if ty == KST:
                    return Tm(self.state_term(e.id), KST)
                if ty == NONE:
                    return Tm("None", NONE)
                return Tm(self.v(e.id), ty)
            self.fail(e, f"name {e.id} (not a parameter or an assigned local)")
        if isinstance(e, ast.Attribute):
            if isinstance(e.value, ast.Name) and e.value.id == "self" and self.kernel is not None and "self" not in self.env:
                if e.attr == "position_keys":
                    return Tm("s_position_keys", LSTR)
                if e.attr == "mm_diag":
                    return Tm("s_mm_diag", BOOL)
                self.fail(e, f"self.{e.attr}")
            if isinstance(e.value, ast.Name) and self.env.get(e.value.id) == KST:
                r = self.rec[e.value.id]
                if e.attr == "step_size":
                    return Tm(r["step_size"], QT)
                if e.attr == "inverse_mass_matrix":
                    return Tm(r["inverse_mass_matrix"], MMT)
            self.fail(e, "attribute " + ast.unparse(e))
        if isinstance(e, ast.BinOp):
            a, b = self.expr(e.left), self.expr(e.right)
            op = type(e.op)
            binds = self.join([a, b])
            if (a.ty, b.ty) == (VEC, QT) and op is ast.Add:
                return Tm(f"(gvadd {a.s} {b.s})", VEC, binds)
            if (a.ty, b.ty) == (QT, QT):
                sym = {ast.Add: "+", ast.Sub: "-", ast.Mult: "*", ast.Div: "/"}.get(op)
                if sym:
                    return Tm(f"({a.s} {sym} {b.s})", QT, binds)
            self.fail(e, f"operator {op.__name__} on {a.ty} and {b.ty}")
        if isinstance(e, ast.Subscript):
            d, k = self.expr(e.value), self.expr(e.slice)
            if (d.ty, k.ty) == (DICT, STR):
                return self.raising(f"gget {d.s} {k.s}", ARR, self.join([d, k]))
            self.fail(e, f"subscript of a {d.ty} with a {k.ty}")
        if isinstance(e, ast.ListComp):
            return self.listcomp(e)
        if isinstance(e, ast.DictComp):
            return self.dictcomp(e)
        if isinstance(e, ast.Call):
            return self.call(e)
        self.fail(e, "expression " + type(e).__name__)

    def _generator(self, e):
        if len(e.generators) != 1:
            self.fail(e, "comprehension with several generators")
        g = e.generators[0]
        if g.ifs or g.is_async or not isinstance(g.target, ast.Name):
            self.fail(e, "comprehension with a condition / a target that is not a name")
        it = self.expr(g.iter)
        elem = {LARR: ARR, LSTR: STR, LMAT: MAT}.get(it.ty)
        if elem is None:
            self.fail(e, f"comprehension over a {it.ty}")
        x = g.target.id
        if x in self.env or x in self.fnref or x in self.mod.aliases or x == "self":
            self.fail(e, f"comprehension variable {x} shadows another name")
        return it, x, elem

    def listcomp(self, e):
        it, x, elem = self._generator(e)
        self.env[x] = elem
        try:
            t = self.expr(e.elt)
        finally:
            del self.env[x]
        lty = {ARR: LARR, MAT: LMAT, STR: LSTR}.get(t.ty)
        if lty is None:
            self.fail(e, f"list of {t.ty}")
        if t.binds:
            return self.raising(f"tmapM (fun {self.v(x)} => {finish(t)}) {it.s}", lty, it.binds)
        return Tm(f"(map (fun {self.v(x)} => {t.s}) {it.s})", lty, it.binds)

    def dictcomp(self, e):
        it, x, elem = self._generator(e)
        if elem != STR or not (isinstance(e.key, ast.Name) and e.key.id == x):
            self.fail(e, "dict comprehension whose key is not the str variable it iterates over")
        self.env[x] = STR
        try:
            t = self.expr(e.value)
        finally:
            del self.env[x]
        if t.ty != ARR:
            self.fail(e, f"dict of {t.ty}")
        item = Tm(f"({self.v(x)}, {t.s})", PAIR, t.binds)
        return self.raising(f"tmapM (fun {self.v(x)} => {finish(item)}) {it.s}", DICT, it.binds)

    def plain_args(self, e, n, kw=()):
        if any(isinstance(a, ast.Starred) for a in e.args) or any(k.arg is None for k in e.keywords):
            self.fail(e, "star arguments")
        if len(e.args) != n:
            self.fail(e, f"{ast.unparse(e.func)} with {len(e.args)} positional arguments, expected {n}")
        kws = {}
        for k in e.keywords:
            if k.arg not in kw or k.arg in kws:
                self.fail(e, f"keyword argument {k.arg} of {ast.unparse(e.func)}")
            kws[k.arg] = k.value
        return [self.expr(a) for a in e.args], kws

    def const(self, node, types, what):
        if isinstance(node, ast.Constant) and type(node.value) in types:
            return node.value
        if isinstance(node, ast.UnaryOp) and isinstance(node.op, ast.USub) and isinstance(node.operand, ast.Constant) \
                and type(node.operand.value) in types and int in types:
            return -node.operand.value
        self.fail(node, f"{what} that is not a literal")

    def as_mm(self, t: Tm, node):
        if t.ty == MMT:
            return t.s
        if t.ty == VEC:
            return f"(Diag {t.s})"
        if t.ty == SQ:
            return f"(Dense {t.s})"
        self.fail(node, f"a {t.ty} where a vector or matrix is expected")

    def call(self, e: ast.Call) -> Tm:
        f = e.func
        # x.values()
        if isinstance(f, ast.Attribute) and f.attr == "values" and isinstance(f.value, ast.Name) \
                and self.env.get(f.value.id) == DICT:
            if e.args or e.keywords:
                self.fail(e, "values() with arguments")
            return Tm(f"(gvalues {self.v(f.value.id)})", LARR)
        # c.at[jnp.diag_indices_from(c)].add(r)
        if isinstance(f, ast.Attribute) and f.attr == "add" and isinstance(f.value, ast.Subscript) \
                and isinstance(f.value.value, ast.Attribute) and f.value.value.attr == "at":
            base, idx = f.value.value.value, f.value.slice
            if not (isinstance(base, ast.Name) and self.env.get(base.id) == SQ):
                self.fail(e, ".at[..].add on something that is not a local matrix")
            if not (isinstance(idx, ast.Call) and self.mod.canonical(idx.func, self.env) == "jax.numpy.diag_indices_from"
                    and len(idx.args) == 1 and not idx.keywords and isinstance(idx.args[0], ast.Name)
                    and idx.args[0].id == base.id):
                self.fail(e, f".at[{ast.unparse(idx)}]: only jnp.diag_indices_from of the same matrix is supported")
            (r,), _ = self.plain_args(e, 1)
            if r.ty != QT:
                self.fail(e, f".add of a {r.ty}")
            return Tm(f"(gdiag_add {self.v(base.id)} {r.s})", SQ, r.binds)
        # self._tune_fast(prng_key, kernel_state, model_state, epoch, history)
        if isinstance(f, ast.Attribute) and isinstance(f.value, ast.Name) and f.value.id == "self" \
                and self.kernel is not None and "self" not in self.env:
            if f.attr != "_tune_fast" or not self.kernel.get("fast"):
                self.fail(e, f"call of self.{f.attr}")
            args, _ = self.plain_args(e, 5)
            if [a.ty for a in args[:1] + args[2:4]] != [OPQ, OPQ, OPQ] or args[1].ty != KST \
                    or [a.s for a in args[:1] + args[2:4]] != ["prng_key", "model_state", "epoch"]:
                self.fail(e, "self._tune_fast is not called with (prng_key, <state>, model_state, epoch, <history>)")
            h = args[4]
            hs = {DICT: f"(Some {h.s})", OPTDICT: h.s, NONE: "None"}.get(h.ty)
            if hs is None:
                self.fail(e, f"history argument of type {h.ty}")
            return self.raising(f"{self.kernel['fast']} {args[1].s} {hs}", KST, self.join(args))
        # a local bound to a library function
        if isinstance(f, ast.Name) and f.id in self.fnref:
            name = self.fnref[f.id]
        elif isinstance(f, ast.Name) and f.id in self.funcs and f.id not in self.env:
            return self.call_gen(e, self.funcs[f.id])
        else:
            name = self.mod.canonical(f, self.env)
            if name in self.funcs:
                return self.call_gen(e, self.funcs[name])
        if isinstance(f, ast.Name) and f.id in self.mod.assigns and f.id.endswith("TuningInfo"):
            return self.lib_info(e)
        h = LIBRARY.get(name)
        if h is None:
            self.fail(e, f"call of {ast.unparse(f)}" + (f" (= {name}, not in the library table)" if name else ""))
        return getattr(self, "lib_" + h)(e)

    def call_gen(self, e, g):
        args, _ = self.plain_args(e, len(g["params"]))
        for a, ty in zip(args, g["params"]):
            if a.ty != ty:
                self.fail(e, f"argument of type {a.ty}, expected {ty}")
        return self.raising(f"{g['gen']} " + " ".join(a.s for a in args), g["ret"], self.join(args))

    # ---- the library table ---------------------------------------------------------------------------
    def lib_tree_leaves(self, e):
        (d,), _ = self.plain_args(e, 1)
        if d.ty != DICT:
            self.fail(e, f"tree_leaves of a {d.ty}")
        return Tm(f"(gtree_leaves {d.s})", LARR, d.binds)

    def lib_position(self, e):
        (d,), _ = self.plain_args(e, 1)
        if d.ty != DICT:
            self.fail(e, f"Position of a {d.ty}")
        return d

    def lib_column_stack(self, e):
        (l,), _ = self.plain_args(e, 1)
        if l.ty != LMAT:
            self.fail(e, f"column_stack of a {l.ty}")
        return self.raising(f"gcolumn_stack {l.s}", MAT, l.binds)

    def lib_var(self, e):
        if len(e.args) == 2:
            (m, ), kws = self.plain_args(ast.Call(func=e.func, args=e.args[:1], keywords=e.keywords), 1, ("ddof",))
            kws["axis"] = e.args[1]
        else:
            (m,), kws = self.plain_args(e, 1, ("axis", "ddof"))
        if m.ty != MAT:
            self.fail(e, f"var of a {m.ty}")
        if "axis" not in kws or self.const(kws["axis"], (int,), "axis") != 0:
            self.fail(e, "jnp.var: only axis=0 (per column of the stacked matrix) is supported")
        ddof = self.const(kws["ddof"], (int,), "ddof") if "ddof" in kws else 0
        return self.raising(f"gvar_axis0 ({ddof}) {m.s}", VEC, m.binds)

    def lib_cov(self, e):
        (m,), kws = self.plain_args(e, 1, ("rowvar", "bias", "ddof"))
        if m.ty != MAT:
            self.fail(e, f"cov of a {m.ty}")
        if "rowvar" not in kws or self.const(kws["rowvar"], (bool,), "rowvar") is not False:
            self.fail(e, "jnp.cov: only rowvar=False (the variables are the columns of the stacked matrix) is supported")
        ddof = 1
        if "bias" in kws:
            ddof = 0 if self.const(kws["bias"], (bool,), "bias") else 1
        if "ddof" in kws:
            ddof = self.const(kws["ddof"], (int,), "ddof")
        return self.raising(f"gcov_cols ({ddof}) {m.s}", COV0, m.binds)

    def lib_atleast_1d(self, e):
        (v,), _ = self.plain_args(e, 1)
        if v.ty != VEC:
            self.fail(e, f"atleast_1d of a {v.ty}")
        return Tm(f"(gatleast_1d {v.s})", VEC, v.binds)

    def lib_atleast_2d(self, e):
        (c,), _ = self.plain_args(e, 1)
        if c.ty not in (COV0, SQ):
            self.fail(e, f"atleast_2d of a {c.ty}")
        return Tm(f"(gatleast_2d {c.s})", SQ, c.binds)

    def lib_sum(self, e):
        (x,), _ = self.plain_args(e, 1)
        return Tm(f"(gsum {self.as_mm(x, e)})", QT, x.binds)

    def lib_trace(self, e):
        (x,), _ = self.plain_args(e, 1)
        return self.raising(f"gtrace {self.as_mm(x, e)}", QT, x.binds)

    def lib_sqrt(self, e):
        (x,), _ = self.plain_args(e, 1)
        if x.ty != QT:
            self.fail(e, f"sqrt of a {x.ty}")
        self.uses_sqrt = True
        return Tm(f"(sqrt_o {x.s})", QT, x.binds)

    def lib_info(self, e):
        if e.args or any(k.arg is None for k in e.keywords):
            self.fail(e, "info object with positional arguments")
        for k in e.keywords:
            v = k.value
            ok = (isinstance(v, ast.Constant) and type(v.value) is int) or (
                isinstance(v, ast.Attribute) and isinstance(v.value, ast.Name) and self.env.get(v.value.id) == OPQ)
            if not ok:
                self.fail(e, f"info field {k.arg} = {ast.unparse(v)}")
        return Tm("tt", OPQ)

    def lib_outcome(self, e):
        (i, s), _ = self.plain_args(e, 2)
        if (i.ty, s.ty) != (OPQ, KST):
            self.fail(e, f"TuningOutcome of a {i.ty} and a {s.ty}")
        return Tm(s.s, KST, self.join([i, s]))

    # ---- statements ----------------------------------------------------------------------------------
    def body(self, stmts, ret_ty):
        if not stmts:
            self.fail(self.node, "function can fall off its end")
        s, rest = stmts[0], stmts[1:]
        if isinstance(s, ast.Expr) and isinstance(s.value, ast.Constant) and isinstance(s.value.value, str):
            return self.body(rest, ret_ty)
        if isinstance(s, ast.Return):
            if rest:
                self.fail(rest[0], "statement after return")
            if s.value is None:
                self.fail(s, "return without a value")
            t = self.expr(s.value)
            if t.ty != ret_ty:
                self.fail(s, f"returns a {t.ty}, expected {ret_ty}")
            return finish(t)
        if isinstance(s, ast.Assign):
            if len(s.targets) != 1:
                self.fail(s, "multiple assignment targets")
            tg = s.targets[0]
            if isinstance(tg, ast.Attribute) and isinstance(tg.value, ast.Name) and self.env.get(tg.value.id) == KST:
                return self.assign_field(s, tg, rest, ret_ty)
            if not isinstance(tg, ast.Name):
                self.fail(s, "assignment target " + ast.unparse(tg))
            name = tg.id
            if name == "self" or name in self.mod.aliases or name in self.funcs:
                self.fail(s, f"local variable named {name}")
            # trace_fn = jnp.sum
            if isinstance(s.value, (ast.Attribute, ast.Name)) and self.mod.canonical(s.value, self.env) in FNREF_OK:
                if name in self.env:
                    self.fail(s, f"{name} was a value and becomes a function")
                self.fnref[name] = self.mod.canonical(s.value, self.env)
                return self.body(rest, ret_ty)
            if name in self.fnref:
                self.fail(s, f"{name} was a function and becomes a value")
            t = self.expr(s.value)
            if t.ty in (NONE, OPQ) and t.s not in ("tt",):
                self.fail(s, f"assignment of a {t.ty}")
            if t.ty in (PAIR, FN):
                self.fail(s, f"assignment of a {t.ty}")
            if self.env.get(name) == KST or t.ty == KST:
                self.fail(s, "rebinding of / to a kernel state")
            self.env[name] = t.ty
            k = self.body(rest, ret_ty)
            return wrap(t.binds, f"let {self.v(name)} := {t.s} in\n{k}")
        if isinstance(s, ast.If):
            return self.if_stmt(s, rest, ret_ty)
        self.fail(s, "statement " + type(s).__name__)

    def assign_field(self, s, tg, rest, ret_ty):
        name, field = tg.value.id, tg.attr
        t = self.expr(s.value)
        if field == "step_size" and t.ty == QT:
            val = t.s
        elif field == "inverse_mass_matrix" and t.ty in (VEC, SQ, MMT):
            val = self.as_mm(t, s)
        else:
            self.fail(s, f"assignment of a {t.ty} to {name}.{field}")
        self.tmp += 1
        x = f"{self.v(name)}_{field}{self.tmp}"
        self.rec[name] = dict(self.rec[name], **{field: x, "dirty": True})
        k = self.body(rest, ret_ty)
        return wrap(t.binds, f"let {x} := {val} in\n{k}")

    def branch(self, stmts, ret_ty, env_update=None):
        saved = (dict(self.env), {k: dict(v) for k, v in self.rec.items()}, dict(self.fnref))
        if env_update:
            self.env.update(env_update)
        try:
            return self.body(stmts, ret_ty)
        finally:
            self.env, self.rec, self.fnref = saved

    @staticmethod
    def seq(block, rest):
        """a branch that ends in `return` does not continue with the statements after the `if`"""
        block = list(block)
        if block and isinstance(block[-1], ast.Return):
            return block
        return block + list(rest)

    def if_stmt(self, s, rest, ret_ty):
        t = s.test
        # x is None / x is not None
        if isinstance(t, ast.Compare) and len(t.ops) == 1 and isinstance(t.ops[0], (ast.Is, ast.IsNot)) \
                and isinstance(t.left, ast.Name) and isinstance(t.comparators[0], ast.Constant) \
                and t.comparators[0].value is None:
            x = t.left.id
            if self.env.get(x) != OPTDICT:
                self.fail(s, f"`is None` test of {x}, which is not an optional history")
            some, none = (s.body, s.orelse) if isinstance(t.ops[0], ast.IsNot) else (s.orelse, s.body)
            a = self.branch(self.seq(some, rest), ret_ty, {x: DICT})
            b = self.branch(self.seq(none, rest), ret_ty, {x: NONE})
            return f"match {self.v(x)} with\n| Some {self.v(x)} =>\n{indent(a)}\n| None =>\n{indent(b)}\nend"
        c = self.expr(t)
        if c.ty != BOOL or c.binds:
            self.fail(s, f"if on a {c.ty}")
        a = self.branch(self.seq(s.body, rest), ret_ty)
        b = self.branch(self.seq(s.orelse, rest), ret_ty)
        return f"if {c.s} then\n{indent(a)}\nelse\n{indent(b)}"


# ---- the functions ---------------------------------------------------------------------------------------
def _plain_params(mod, node, is_method):
    a = node.args
    if a.vararg or a.kwarg or a.kwonlyargs or a.posonlyargs:
        mod.m.fail(node, "parameter list with * / ** / keyword-only / positional-only parameters")
    if node.decorator_list:
        mod.m.fail(node, "decorated function: " + ast.unparse(node.decorator_list[0]))
    args = list(a.args)
    if is_method:
        if not args or args[0].arg != "self":
            mod.m.fail(node, "method without self")
        args = args[1:]
    defaults = [None] * (len(args) - len(a.defaults)) + list(a.defaults)
    out = []
    for x, d in zip(args, defaults):
        if x.arg in mod.aliases or x.arg in mod.defs or x.arg in mod.assigns:
            mod.m.fail(node, f"parameter named like the module-level name {x.arg}")
        out.append((x.arg, ast.unparse(x.annotation) if x.annotation is not None else None, d))
    return out


def translate_vravel(mod: Mod):
    st = mod.assigns.get("_vravel")
    if st is None:
        mod.m.fail(mod.m.tree, "_vravel is not a module-level binding")
    c = st.value
    ok = (isinstance(c, ast.Call) and mod.canonical(c.func) == "jax.vmap" and len(c.args) == 1
          and mod.canonical(c.args[0]) == "jax.numpy.ravel" and all(
              k.arg in ("in_axes", "out_axes") and isinstance(k.value, ast.Constant) and k.value.value == 0 and type(k.value.value) is int
              for k in c.keywords))
    if not ok:
        mod.m.fail(st, "_vravel is not jax.vmap(jnp.ravel, in_axes=0, out_axes=0): " + ast.unparse(c))
    return {"text": "Definition gen__vravel (v_x : garr) : tres gmat := gvravel v_x.",
            "info": [mod.m.info(st, "_vravel")]}


def translate_mm_fn(mod: Mod, funcs, pyname, gen, ret_ty):
    node = mod.defs.get(pyname)
    if not isinstance(node, ast.FunctionDef):
        mod.m.fail(mod.m.tree, f"function {pyname} not found")
    params = _plain_params(mod, node, False)
    if [(a, d) for _, a, d in params] != [("Position", None)] or mod.aliases.get("Position") != ".types.Position":
        mod.m.fail(node, f"{pyname} does not take exactly one Position (from .types)")
    f = Fn(mod, node, funcs)
    f.env[params[0][0]] = DICT
    body = f.body(list(node.body), ret_ty)
    if f.uses_sqrt:
        mod.m.fail(node, "sqrt in a function of mm.py")
    txt = f"Definition {gen} ({f.v(params[0][0])} : gdict) : tres ({GALLINA[ret_ty]}) :=\n{indent(body)}."
    return {"text": txt, "info": [mod.m.info(node, pyname)]}


KERNEL_PARAMS = ["prng_key", "kernel_state", "model_state", "epoch", "history"]


def check_kernel_class(mod: Mod, cls):
    c = mod.defs.get(cls)
    if not isinstance(c, ast.ClassDef):
        mod.m.fail(mod.m.tree, f"class {cls} not found")
    # self.position_keys / self.mm_diag are assigned once, in __init__, from the constructor's arguments
    stores = {"position_keys": [], "mm_diag": []}
    for fn in [n for n in c.body if isinstance(n, ast.FunctionDef)]:
        for n in ast.walk(fn):
            if isinstance(n, ast.Attribute) and isinstance(n.ctx, (ast.Store, ast.Del)) and n.attr in stores:
                stores[n.attr].append((fn.name, n))
    for st in c.body:
        if isinstance(st, (ast.Assign, ast.AugAssign)):
            for n in ast.walk(st):
                if isinstance(n, ast.Name) and n.id in stores and isinstance(n.ctx, ast.Store):
                    mod.m.fail(st, f"class-level assignment to {n.id}")
        if isinstance(st, ast.FunctionDef) and st.name in ("__getattr__", "__getattribute__", "__setattr__"):
            mod.m.fail(st, f"{cls} defines {st.name}")
    init = [n for n in c.body if isinstance(n, ast.FunctionDef) and n.name == "__init__"]
    if len(init) != 1:
        mod.m.fail(c, f"{cls}.__init__ not found exactly once")
    want = {"position_keys": ("tuple(position_keys)", "list(position_keys)", "position_keys"), "mm_diag": ("mm_diag",)}
    for attr, ss in stores.items():
        if len(ss) != 1 or ss[0][0] != "__init__":
            mod.m.fail(c, f"self.{attr} is not assigned exactly once, in __init__")
        asg = [n for n in ast.walk(init[0]) if isinstance(n, ast.Assign) and ss[0][1] in n.targets]
        if len(asg) != 1 or len(asg[0].targets) != 1 or ast.unparse(asg[0].value) not in want[attr]:
            mod.m.fail(ss[0][1], f"self.{attr} is not the constructor's argument")
    return c


def translate_kernel_fn(mod: Mod, funcs, cls, short, which, state_cls, fast_gen):
    c = check_kernel_class(mod, cls)
    fs = [n for n in c.body if isinstance(n, ast.FunctionDef) and n.name == which]
    if len(fs) != 1:
        mod.m.fail(c, f"{cls}.{which} not found exactly once")
    node = fs[0]
    params = _plain_params(mod, node, True)
    if [p for p, _, _ in params] != KERNEL_PARAMS:
        mod.m.fail(node, f"{which} takes {[p for p, _, _ in params]}, expected {KERNEL_PARAMS}")
    anns = [a for _, a, _ in params]
    if anns[1] != state_cls or state_cls not in mod.defs or anns[4] not in ("Position | None", "None | Position", "Optional[Position]"):
        mod.m.fail(node, f"{which}: parameter annotations {anns}")
    d = params[4][2]
    if [x for _, _, x in params[:4]] != [None] * 4 or not (d is None or (isinstance(d, ast.Constant) and d.value is None)):
        mod.m.fail(node, f"{which}: default arguments other than history=None")
    if mod.aliases.get("Position") != ".types.Position":
        mod.m.fail(node, "Position is not imported from .types")
    f = Fn(mod, node, funcs, kernel={"fast": fast_gen})
    f.env.update({"prng_key": OPQ, "model_state": OPQ, "epoch": OPQ, "kernel_state": KST, "history": OPTDICT})
    f.rec["kernel_state"] = {"step_size": "(step v_kernel_state)", "inverse_mass_matrix": "(imm v_kernel_state)", "dirty": False}
    # opaque names are printed as themselves and may only be passed on
    orig = f.expr

    def expr(e):
        if isinstance(e, ast.Name) and f.env.get(e.id) == OPQ and e.id in ("prng_key", "model_state", "epoch"):
            return Tm(e.id, OPQ)
        return orig(e)
    f.expr = expr
    body = f.body(list(node.body), KST)
    gen = f"gen_{short}{which}"
    if which == "_tune_slow":
        txt = (f"Definition {gen} (sqrt_o : Q -> Q) (s_position_keys : list string) (s_mm_diag : bool) "
               f"(v_kernel_state : kstate) (v_history : option gdict) : tres kstate :=\n{indent(body)}.")
    else:
        if f.uses_sqrt:
            mod.m.fail(node, "sqrt in _tune_fast")
        if "s_position_keys" in body or "s_mm_diag" in body:
            mod.m.fail(node, "_tune_fast reads self.position_keys / self.mm_diag")
        txt = f"Definition {gen} (v_kernel_state : kstate) (v_history : option gdict) : tres kstate :=\n{indent(body)}."
    return {"text": txt, "info": [mod.m.info(node, f"{cls}.{which}")], "gen": gen}


SECTIONS = ("vravel", "h2m", "diag", "full", "nuts_fast", "nuts_slow", "hmc_fast", "hmc_slow")
KERNELS = {"nuts": (NUTS_PY, "NUTSKernel", "NUTSKernelState"), "hmc": (HMC_PY, "HMCKernel", "HMCKernelState")}


def translate(root: str, what=SECTIONS):
    """returns {section: {"text": gallina, "info": [..]} or {"error": message}}"""
    res = {}
    mods = {}

    def mod_of(rel, allowed):
        if rel not in mods:
            try:
                mods[rel] = Mod(root, rel, allowed)
            except (Unsupported, OSError, SyntaxError, ValueError) as ex:
                mods[rel] = ex
        if isinstance(mods[rel], Exception):
            raise Unsupported(str(mods[rel]))
        return mods[rel]

    mm_funcs = {}
    for sec in what:
        try:
            if sec in ("vravel", "h2m", "diag", "full"):
                mm = mod_of(MM_PY, lambda n: n == "_vravel")
                if sec == "vravel":
                    res[sec] = translate_vravel(mm)
                    mm_funcs["_vravel"] = {"gen": "gen__vravel", "params": [ARR], "ret": MAT}
                elif sec == "h2m":
                    res[sec] = translate_mm_fn(mm, dict(mm_funcs), "_history_to_matrix", "gen__history_to_matrix", MAT)
                    mm_funcs["_history_to_matrix"] = {"gen": "gen__history_to_matrix", "params": [DICT], "ret": MAT}
                elif sec == "diag":
                    res[sec] = translate_mm_fn(mm, dict(mm_funcs), "tune_inv_mm_diag", "gen_tune_inv_mm_diag", VEC)
                else:
                    res[sec] = translate_mm_fn(mm, dict(mm_funcs), "tune_inv_mm_full", "gen_tune_inv_mm_full", SQ)
            else:
                k, which = sec.split("_")
                rel, cls, state_cls = KERNELS[k]
                km = mod_of(rel, lambda n: True)
                funcs = {}
                for py, gen, ret, need in (("tune_inv_mm_diag", "gen_tune_inv_mm_diag", VEC, "diag"),
                                           ("tune_inv_mm_full", "gen_tune_inv_mm_full", SQ, "full")):
                    if km.aliases.get(py) == ".mm." + py and "error" not in res.get(need, {"error": 1}):
                        funcs[".mm." + py] = {"gen": gen, "params": [DICT], "ret": ret}
                fast_gen = None
                if which == "slow":
                    if "error" in res.get(f"{k}_fast", {"error": 1}):
                        raise Unsupported(f"{rel}: {cls}._tune_slow needs the translation of _tune_fast")
                    fast_gen = res[f"{k}_fast"]["gen"]
                res[sec] = translate_kernel_fn(km, funcs, cls, k, "_tune_" + which, state_cls, fast_gen)
        except Unsupported as ex:
            res[sec] = {"error": str(ex)}
        except RecursionError as ex:
            res[sec] = {"error": "translator recursion limit: " + str(ex)}
    return res


if __name__ == "__main__":
    r = translate(sys.argv[1] if len(sys.argv) > 1 else "/repo")
    for sec, d in r.items():
        print(f"(* ---- {sec} ---- *)")
        if "error" in d:
            print("(* FAILED CLOSED:", d["error"], "*)")
        else:
            for i in d["info"]:
                print(f"(* {i['file']} {i['function']} lines {i['lines'][0]}-{i['lines'][1]} sha256 {i['sha256'][:16]} *)")
            print(d["text"])
