#!/usr/bin/env python3
"""py2gallina_c06 - a small FAIL-CLOSED translator from the Python source of liesel's IWLS utilities
(liesel/goose/iwls_utils.py: solve, mvn_log_prob, mvn_sample), of IWLSKernel._standard_transition
(liesel/goose/iwls.py) and of RWKernel._standard_transition (liesel/goose/rw.py) to Gallina over the
real numbers, used by the C06 check (harness/lv/c06.py -> c06_tie.py) on every run to re-establish the
C06 theorems for the code as it reads now.  The source is parsed with `ast`; nothing is imported or run.

READING.  Every number is a real number (Coq `R`): Python ints, floats and JAX scalars are the real numbers
they denote, float literals the decimal fractions written (`0.5` = 1/2); rounding is covered by the
behavioural correspondence (tolerances), not by this tie.  A 1-d array is a `vec` (= list R) and a lower
triangular matrix is a `tri` (list of its columns trimmed to start at the diagonal) of Analytic/Gauss.v,
the representation the hand-written model has.  A PRNG key is an element of an opaque type K.  A model
state is identified with the flat position (ravel_pytree, sorted keys) of the kernel's block - everything
else in the state is fixed during one transition, exactly as in the header of Analytic/IWLS.v.

TYPES.  R, vec, tri, K (key), shape (a natural number), state (model state = vec), position (= vec),
the function tokens `unravel`, `lpfn`, `scorefn`, `hessfn`, the kernel state, `self`, `self.model`, the
result of mh_step.  Parameters are typed by POSITION (the signature the kernels use):
    solve(tri, vec) -> vec ; mvn_log_prob(vec, vec, tri) -> R ; mvn_sample(K, vec, tri) -> vec
    _standard_transition(self, K, kernel state, state, epoch)

LIBRARY-CALL TABLE (complete; names are resolved to canonical dotted names through the module's imports and
module-level aliases such as `triangular_solve = jax.lax.linalg.triangular_solve`):
    jax.lax.linalg.triangular_solve(L, b, left_side=True, lower=True)  -> fwd_subst L b   (solves L y = b)
    jax.lax.linalg.triangular_solve(L, b, lower=True)                  -> back_subst L b  (solves y L = b, i.e. L^T y = b)
        (only a `tri` first and a `vec` second argument, only the keywords left_side / lower with literal
         booleans, lower must be True; transpose_a / conjugate_a / unit_diagonal refused)
    v @ L, jnp.matmul / jnp.dot(v, L)   -> ltmul L v  (= L^T v) ;  L @ v -> lmul L v ;  v @ w -> dot v w
    jax.scipy.stats.norm.logpdf(x)      -> std_normal_logpdf x  /  map std_normal_logpdf v   (loc 0, scale 1 only)
    jnp.sum(v) -> rsum v ; jnp.log(x) -> ln x / map ln v ; jnp.exp / jnp.sqrt (scalars) -> exp / sqrt
    jnp.diag(L) / jnp.diagonal(L) -> diag L
    v.shape -> length v ; jax.random.normal(key, v.shape) -> o_normal key (length v)   (an ORACLE argument of the
        generated function: the lemmas hold for every o_normal; that it is a standard normal draw is assumed)
    jax.random.split(key) -> o_split key : K * K   (oracle argument; tuple targets become fst / snd)
    + - on R x R and vec x vec (vadd / vsub); * on R x R, R x vec, vec x R (vscale); / on R x R, tri / R (tri_div),
    vec / R (vscale (1 / s)); x ** n with a literal natural n -> x ^ n; unary - on R and vec
  methods (transition functions only):
    kernel_state.step_size -> the parameter ks_step_size : R
    self.position(state) -> the state's flat position ; ravel_pytree(position) -> (that vec, unravel) ;
    unravel(v) -> the position v ; self.model.update_state(position, state) -> the state `position`
    self._flat_log_prob_fn(state, unravel) -> lpfn ; jax.grad(lpfn) -> scorefn ; jax.jacfwd(scorefn) -> hessfn
    self._score(state, scorefn) -> o_score state ; self._chol_info(state, hessfn) -> o_chol_info state
        (the model's `score` and `ch`: the bodies of _score / _chol_info / _flat_log_prob_fn are NOT translated)
    solve / mvn_log_prob / mvn_sample imported from .iwls_utils -> gen_solve / gen_mvn_log_prob / gen_mvn_sample
    mh_step(key, self.model, position, state[, correction]) imported from .mh -> o_mh_step key position state correction
        : I * vec (oracle argument; a missing correction is the default literal read from mh.py's signature)
    return TransitionOutcome(info, kernel_state, state) -> (info, ks_step_size, state)
Anything else - any other call, attribute, operator, statement (if / for / while / try / with / lambda / nested
def / augmented or attribute assignment / decorators ...), keyword or type combination - raises `Unsupported`
with file:line.  Nothing is guessed.

MODULE GUARDS.  iwls_utils.py may contain only the docstring, imports, aliases `name = dotted.path` and function
definitions (each translated function exactly once, undecorated).  In iwls.py / rw.py / mh.py every free name the
translated text uses must be bound by an import only (no module-level assignment / def / class / global of it), the
class and the method must be defined exactly once, the method undecorated.

Command line:  py2gallina_c06.py <repo-root>      prints the generated definitions.
"""
from __future__ import annotations

import ast
import hashlib
import os
import sys
from fractions import Fraction

UTILS_PY = "liesel/goose/iwls_utils.py"
IWLS_PY = "liesel/goose/iwls.py"
RW_PY = "liesel/goose/rw.py"
MH_PY = "liesel/goose/mh.py"

R, VEC, TRI, KEY, SHAPE, MS, POS = "R", "vec", "tri", "K", "shape", "state", "position"
UNRAVEL, LPFN, SCOREFN, HESSFN = "unravel", "lpfn", "scorefn", "hessfn"
KSTATE, SELF, MODEL, EPOCH, MHRES, INFO, KEYPAIR, RAVELED = ("kernel state", "self", "self.model", "epoch", "mh_step result",
                                                             "info", "key pair", "raveled")
TERM_TYPES = {R, VEC, TRI, KEY, SHAPE, MS, POS, MHRES, INFO, KEYPAIR}
GTYPE = {R: "R", VEC: "vec", TRI: "tri", KEY: "K", MS: "vec", POS: "vec"}

UTIL_SIGS = {"solve": ([TRI, VEC], VEC), "mvn_log_prob": ([VEC, VEC, TRI], R), "mvn_sample": ([KEY, VEC, TRI], VEC)}
GOOSE = "liesel.goose"


class Unsupported(Exception):
    pass


class V:
    def __init__(self, ty, tm=None):
        self.ty, self.tm = ty, tm


def rlit(fr: Fraction) -> str:
    n, d = fr.numerator, fr.denominator
    if d == 1:
        return f"({n})" if n < 0 else str(n)
    return f"({n} / {d})"


def is_doc(s):
    return isinstance(s, ast.Expr) and isinstance(s.value, ast.Constant) and isinstance(s.value.value, str)


def dotted(node):
    parts = []
    while isinstance(node, ast.Attribute):
        parts.append(node.attr)
        node = node.value
    if isinstance(node, ast.Name):
        parts.append(node.id)
        return list(reversed(parts))
    return None


class Module:
    def __init__(self, root, rel):
        self.rel = rel
        self.path = os.path.join(root, rel)
        try:
            self.src = open(self.path, encoding="utf8").read()
        except OSError as ex:
            raise Unsupported(f"{rel}: cannot read: {ex}")
        try:
            self.tree = ast.parse(self.src, filename=self.path)
        except SyntaxError as ex:
            raise Unsupported(f"{rel}:{ex.lineno}: syntax error")
        self.aliases = {}       # local name -> dotted module / object path it stands for
        self.bound_twice = set()
        for n in self.tree.body:
            if isinstance(n, ast.Import):
                for a in n.names:
                    if a.asname:
                        self.bind(a.asname, a.name)
                    else:
                        top = a.name.split(".")[0]
                        self.bind(top, top)
            elif isinstance(n, ast.ImportFrom):
                base = n.module or ""
                if n.level == 1:
                    base = GOOSE + ("." + base if base else "")
                elif n.level > 1:
                    base = "<relative>." + base
                for a in n.names:
                    self.bind(a.asname or a.name, base + "." + a.name)

    def bind(self, name, target):
        if name in self.aliases and self.aliases[name] != target:
            self.bound_twice.add(name)
        self.aliases[name] = target

    def fail(self, node, what):
        raise Unsupported(f"{self.rel}:{getattr(node, 'lineno', '?')}: unsupported: {what}")

    def info(self, node, name):
        seg = ast.get_source_segment(self.src, node) or ""
        return {"file": self.rel, "function": name, "lines": [node.lineno, node.end_lineno],
                "sha256": hashlib.sha256(seg.encode()).hexdigest()}

    def rebinders(self):
        """names bound at module level by something other than an import, or declared global anywhere"""
        out = {}
        for n in self.tree.body:
            if isinstance(n, (ast.FunctionDef, ast.AsyncFunctionDef, ast.ClassDef)):
                out.setdefault(n.name, n)
            elif isinstance(n, (ast.Assign, ast.AugAssign, ast.AnnAssign)):
                tgts = n.targets if isinstance(n, ast.Assign) else [n.target]
                for t in tgts:
                    for sub in ast.walk(t):
                        if isinstance(sub, ast.Name):
                            out.setdefault(sub.id, n)
            elif not (is_doc(n) or isinstance(n, (ast.Import, ast.ImportFrom))):
                for sub in ast.walk(n):
                    if isinstance(sub, ast.Name) and isinstance(sub.ctx, ast.Store):
                        out.setdefault(sub.id, n)
        for sub in ast.walk(self.tree):
            if isinstance(sub, (ast.Global, ast.Nonlocal)):
                for nm in sub.names:
                    out.setdefault(nm, sub)
        return out


def check_utils_module(m: Module, wanted):
    seen = {}
    for n in m.tree.body:
        if is_doc(n) or isinstance(n, (ast.Import, ast.ImportFrom)):
            continue
        if isinstance(n, ast.Assign) and len(n.targets) == 1 and isinstance(n.targets[0], ast.Name):
            d = dotted(n.value)
            if d is None or d[0] not in m.aliases:
                m.fail(n, "module-level assignment that is not an alias of an imported object: " + ast.unparse(n)[:60])
            m.bind(n.targets[0].id, ".".join([m.aliases[d[0]]] + d[1:]))
            continue
        if isinstance(n, ast.FunctionDef):
            if n.name in seen:
                m.fail(n, f"{n.name} defined twice")
            seen[n.name] = n
            continue
        m.fail(n, "module-level statement " + type(n).__name__)
    for w in wanted:
        if w not in seen:
            raise Unsupported(f"{m.rel}: function {w} not found at module level")
    for nm in seen:
        if nm in m.aliases:
            raise Unsupported(f"{m.rel}: {nm} is both imported / aliased and defined")
    if m.bound_twice:
        raise Unsupported(f"{m.rel}: names bound twice at module level: {sorted(m.bound_twice)}")
    return seen


FORBIDDEN_INSIDE = (ast.FunctionDef, ast.AsyncFunctionDef, ast.Lambda, ast.ClassDef, ast.Global, ast.Nonlocal, ast.Try,
                    ast.With, ast.For, ast.While, ast.If, ast.IfExp, ast.Delete, ast.Import, ast.ImportFrom, ast.Yield,
                    ast.YieldFrom, ast.Await, ast.NamedExpr, ast.Raise, ast.Assert, ast.AugAssign, ast.Starred,
                    ast.ListComp, ast.DictComp, ast.SetComp, ast.GeneratorExp, ast.BoolOp, ast.Compare)


class Fn:
    """one straight-line function"""

    def __init__(self, m: Module, node: ast.FunctionDef, mh_default=None):
        self.m, self.node = m, node
        self.env = {}
        self.lines = []
        self.tmp = 0
        self.used = set()        # free module-level names the text relies on
        self.mh_default = mh_default

    def fail(self, node, what):
        self.m.fail(node, what)

    # ---- names ---------------------------------------------------------------------------------
    def canon(self, f):
        """canonical dotted name of a callee that is a module-level name / attribute path, else None"""
        d = dotted(f)
        if d is None or d[0] in self.env:
            return None
        if d[0] not in self.m.aliases:
            return None
        self.used.add(d[0])
        return ".".join([self.m.aliases[d[0]]] + d[1:])

    # ---- expressions ---------------------------------------------------------------------------
    def want(self, node, *tys):
        v = self.expr(node)
        if v.ty not in tys:
            self.fail(node, f"{ast.unparse(node)[:50]} is a {v.ty} where {' / '.join(tys)} is needed")
        return v

    def expr(self, e) -> V:
        if isinstance(e, ast.Constant):
            if isinstance(e.value, bool) or not isinstance(e.value, (int, float)):
                self.fail(e, "constant " + repr(e.value)[:30])
            if isinstance(e.value, float):
                if e.value != e.value or e.value in (float("inf"), float("-inf")):
                    self.fail(e, "non-finite float literal")
                return V(R, rlit(Fraction(repr(e.value))))
            return V(R, rlit(Fraction(e.value)))
        if isinstance(e, ast.Name):
            if e.id in self.env:
                return self.env[e.id]
            self.fail(e, f"name {e.id} (not a parameter or a local assigned before)")
        if isinstance(e, ast.Attribute):
            if isinstance(e.value, ast.Name) and e.value.id in self.env:
                b = self.env[e.value.id]
                if b.ty == KSTATE and e.attr == "step_size":
                    return V(R, "ks_step_size")
                if b.ty == VEC and e.attr == "shape":
                    return V(SHAPE, f"(length {b.tm})")
                if b.ty == SELF and e.attr == "model":
                    return V(MODEL)
            self.fail(e, "attribute " + ast.unparse(e)[:50])
        if isinstance(e, ast.UnaryOp):
            if isinstance(e.op, (ast.USub, ast.UAdd)):
                v = self.want(e.operand, R, VEC)
                if isinstance(e.op, ast.UAdd):
                    return v
                return V(R, f"(- {v.tm})") if v.ty == R else V(VEC, f"(vscale (-1) {v.tm})")
            self.fail(e, "unary operator " + type(e.op).__name__)
        if isinstance(e, ast.BinOp):
            return self.binop(e)
        if isinstance(e, ast.Call):
            return self.call(e)
        self.fail(e, "expression " + type(e).__name__ + ": " + ast.unparse(e)[:50])

    def binop(self, e):
        op = type(e.op)
        if op is ast.Pow:
            a = self.want(e.left, R)
            r = e.right
            if isinstance(r, ast.Constant) and type(r.value) is int and 0 <= r.value <= 64:
                return V(R, f"({a.tm} ^ {r.value})")
            self.fail(e, "power with an exponent that is not a literal natural number")
        a, b = self.expr(e.left), self.expr(e.right)
        t = (a.ty, b.ty)
        if op is ast.MatMult:
            return self.matmul(e, a, b)
        if op in (ast.Add, ast.Sub):
            s = "+" if op is ast.Add else "-"
            if t == (R, R):
                return V(R, f"({a.tm} {s} {b.tm})")
            if t == (VEC, VEC):
                return V(VEC, f"({'vadd' if op is ast.Add else 'vsub'} {a.tm} {b.tm})")
        if op is ast.Mult:
            if t == (R, R):
                return V(R, f"({a.tm} * {b.tm})")
            if t == (R, VEC):
                return V(VEC, f"(vscale {a.tm} {b.tm})")
            if t == (VEC, R):
                return V(VEC, f"(vscale {b.tm} {a.tm})")
        if op is ast.Div:
            if t == (R, R):
                return V(R, f"({a.tm} / {b.tm})")
            if t == (TRI, R):
                return V(TRI, f"(tri_div {a.tm} {b.tm})")
            if t == (VEC, R):
                return V(VEC, f"(vscale (1 / {b.tm}) {a.tm})")
        self.fail(e, f"operator {op.__name__} on {a.ty} and {b.ty}")

    def matmul(self, e, a, b):
        t = (a.ty, b.ty)
        if t == (VEC, TRI):
            return V(VEC, f"(ltmul {b.tm} {a.tm})")
        if t == (TRI, VEC):
            return V(VEC, f"(lmul {a.tm} {b.tm})")
        if t == (VEC, VEC):
            return V(R, f"(dot {a.tm} {b.tm})")
        self.fail(e, f"matrix product of {a.ty} and {b.ty}")

    def kwargs(self, e, allowed):
        out = {}
        for k in e.keywords:
            if k.arg is None or k.arg not in allowed:
                self.fail(e, f"keyword {k.arg} in the call of {ast.unparse(e.func)[:40]}")
            out[k.arg] = k.value
        return out

    def boolkw(self, e, kw, name, default):
        if name not in kw:
            return default
        v = kw[name]
        if not (isinstance(v, ast.Constant) and isinstance(v.value, bool)):
            self.fail(e, f"keyword {name} that is not a literal boolean")
        return v.value

    def call(self, e: ast.Call) -> V:
        if any(isinstance(a, ast.Starred) for a in e.args):
            self.fail(e, "starred argument")
        f = e.func
        n = len(e.args)
        # calls of local function tokens
        if isinstance(f, ast.Name) and f.id in self.env:
            fv = self.env[f.id]
            if fv.ty == UNRAVEL and n == 1 and not e.keywords:
                return V(POS, self.want(e.args[0], VEC).tm)
            self.fail(e, f"call of the local {f.id} ({fv.ty})")
        # methods of self / self.model
        d = dotted(f)
        if d and d[0] in self.env:
            root = self.env[d[0]]
            if e.keywords:
                self.fail(e, "keyword arguments in a method call: " + ast.unparse(e)[:50])
            if root.ty == SELF:
                meth = ".".join(d[1:])
                if meth == "position" and n == 1:
                    return V(POS, self.want(e.args[0], MS).tm)
                if meth == "model.update_state" and n == 2:
                    p = self.want(e.args[0], POS)
                    self.want(e.args[1], MS)
                    return V(MS, p.tm)
                if meth == "_flat_log_prob_fn" and n == 2:
                    self.want(e.args[0], MS)
                    self.want(e.args[1], UNRAVEL)
                    return V(LPFN)
                if meth == "_score" and n == 2:
                    s = self.want(e.args[0], MS)
                    self.want(e.args[1], SCOREFN)
                    return V(VEC, f"(o_score {s.tm})")
                if meth == "_chol_info" and n == 2:
                    s = self.want(e.args[0], MS)
                    self.want(e.args[1], HESSFN)
                    return V(TRI, f"(o_chol_info {s.tm})")
            self.fail(e, f"call of {ast.unparse(f)[:50]} with {n} arguments (not in the library-call table)")
        c = self.canon(f)
        if c is None:
            self.fail(e, "call of " + ast.unparse(f)[:50] + " (not in the library-call table)")
        h = LIBRARY.get(c)
        if h is None:
            self.fail(e, f"call of {ast.unparse(f)[:50]} = {c} (not in the library-call table)")
        return getattr(self, "lib_" + h)(e, n)

    # ---- library table -------------------------------------------------------------------------
    def noargs(self, e, n, k):
        if n != k or e.keywords:
            self.fail(e, f"call of {ast.unparse(e.func)[:40]} with {n} positional and {len(e.keywords)} keyword arguments")

    def lib_triangular_solve(self, e, n):
        kw = self.kwargs(e, ("left_side", "lower"))
        if n != 2:
            self.fail(e, "triangular_solve without exactly two positional arguments")
        L, b = self.want(e.args[0], TRI), self.want(e.args[1], VEC)
        if not self.boolkw(e, kw, "lower", False):
            self.fail(e, "triangular_solve with lower=False (the upper triangle of a lower-triangular factor is not modelled)")
        left = self.boolkw(e, kw, "left_side", False)
        return V(VEC, f"({'fwd_subst' if left else 'back_subst'} {L.tm} {b.tm})")

    def lib_matmul(self, e, n):
        self.noargs(e, n, 2)
        return self.matmul(e, self.expr(e.args[0]), self.expr(e.args[1]))

    def lib_logpdf(self, e, n):
        self.noargs(e, n, 1)
        v = self.want(e.args[0], R, VEC)
        return V(R, f"(std_normal_logpdf {v.tm})") if v.ty == R else V(VEC, f"(map std_normal_logpdf {v.tm})")

    def lib_sum(self, e, n):
        self.noargs(e, n, 1)
        return V(R, f"(rsum {self.want(e.args[0], VEC).tm})")

    def lib_log(self, e, n):
        self.noargs(e, n, 1)
        v = self.want(e.args[0], R, VEC)
        return V(R, f"(ln {v.tm})") if v.ty == R else V(VEC, f"(map ln {v.tm})")

    def lib_exp(self, e, n):
        self.noargs(e, n, 1)
        return V(R, f"(exp {self.want(e.args[0], R).tm})")

    def lib_sqrt(self, e, n):
        self.noargs(e, n, 1)
        return V(R, f"(sqrt {self.want(e.args[0], R).tm})")

    def lib_diag(self, e, n):
        self.noargs(e, n, 1)
        return V(VEC, f"(diag {self.want(e.args[0], TRI).tm})")

    def lib_normal(self, e, n):
        self.noargs(e, n, 2)
        k, s = self.want(e.args[0], KEY), self.want(e.args[1], SHAPE)
        return V(VEC, f"(o_normal {k.tm} {s.tm})")

    def lib_split(self, e, n):
        self.noargs(e, n, 1)
        return V(KEYPAIR, f"(o_split {self.want(e.args[0], KEY).tm})")

    def lib_ravel(self, e, n):
        self.noargs(e, n, 1)
        return V(RAVELED, self.want(e.args[0], POS).tm)

    def lib_grad(self, e, n):
        self.noargs(e, n, 1)
        self.want(e.args[0], LPFN)
        return V(SCOREFN)

    def lib_jacfwd(self, e, n):
        self.noargs(e, n, 1)
        self.want(e.args[0], SCOREFN)
        return V(HESSFN)

    def lib_util(self, e, n):
        name = self.canon(e.func).rsplit(".", 1)[1]
        sig, res = UTIL_SIGS[name]
        self.noargs(e, n, len(sig))
        args = [self.want(a, t).tm for a, t in zip(e.args, sig)]
        pre = "o_normal " if name == "mvn_sample" else ""
        return V(res, f"(gen_{name} {pre}{' '.join(args)})")

    def lib_mh_step(self, e, n):
        kw = self.kwargs(e, ("log_correction",))
        if n not in (4, 5) or (n == 5 and kw):
            self.fail(e, f"mh_step with {n} positional arguments")
        k = self.want(e.args[0], KEY)
        self.want(e.args[1], MODEL)
        p = self.want(e.args[2], POS)
        s = self.want(e.args[3], MS)
        if n == 5:
            c = self.want(e.args[4], R).tm
        elif "log_correction" in kw:
            c = self.want(kw["log_correction"], R).tm
        else:
            if self.mh_default is None:
                self.fail(e, "mh_step without a correction and no literal default in mh.py")
            c = self.mh_default
        return V(MHRES, f"(o_mh_step {k.tm} {p.tm} {s.tm} {c})")

    def lib_outcome(self, e, n):
        self.fail(e, "TransitionOutcome outside the final return")

    # ---- statements ----------------------------------------------------------------------------
    def let(self, name, v: V, node):
        if name in self.m.aliases and name != "_":
            self.fail(node, f"the imported / aliased name {name} is re-bound")
        if v.ty in TERM_TYPES:
            g = "v_" + name
            self.lines.append(f"let {g} := {v.tm} in")
            self.env[name] = V(v.ty, g)
        else:
            self.env[name] = v

    def assign(self, s, tgt, val):
        if isinstance(tgt, ast.Name):
            v = self.expr(val)
            if v.ty in (RAVELED,):
                self.fail(s, "the result of ravel_pytree must be unpacked into (flat position, unravel function)")
            self.let(tgt.id, v, s)
            return
        if isinstance(tgt, ast.Tuple) and len(tgt.elts) == 2 and all(isinstance(x, ast.Name) for x in tgt.elts):
            a, b = tgt.elts[0].id, tgt.elts[1].id
            if a == b:
                self.fail(s, "the same name twice in a tuple target")
            v = self.expr(val)
            if v.ty == RAVELED:
                self.let(a, V(VEC, v.tm), s)
                self.let(b, V(UNRAVEL), s)
                return
            if v.ty in (KEYPAIR, MHRES):
                self.tmp += 1
                t = f"t_{self.tmp}"
                self.lines.append(f"let {t} := {v.tm} in")
                ta, tb = (KEY, KEY) if v.ty == KEYPAIR else (INFO, MS)
                self.let(a, V(ta, f"(fst {t})"), s)
                self.let(b, V(tb, f"(snd {t})"), s)
                return
            self.fail(s, f"tuple target for a {v.ty}")
        self.fail(s, "assignment target " + ast.unparse(tgt)[:50])

    def body(self, kind):
        stmts = [s for s in self.node.body if not (is_doc(s) or isinstance(s, ast.Pass))]
        if not stmts or not isinstance(stmts[-1], ast.Return) or stmts[-1].value is None:
            self.fail(self.node, "the function does not end in `return <value>`")
        for s in stmts[:-1]:
            if isinstance(s, ast.Assign):
                if len(s.targets) != 1:
                    self.fail(s, "multiple assignment targets")
                self.assign(s, s.targets[0], s.value)
            elif isinstance(s, ast.AnnAssign) and s.value is not None and isinstance(s.target, ast.Name):
                self.assign(s, s.target, s.value)
            else:
                self.fail(s, "statement " + type(s).__name__ + ": " + ast.unparse(s)[:50])
        ret = stmts[-1]
        if kind == "util":
            return self.expr(ret.value)
        e = ret.value
        if not (isinstance(e, ast.Call) and LIBRARY.get(self.canon(e.func) or "") == "outcome"):
            self.fail(ret, "the transition does not return TransitionOutcome(...)")
        kw = self.kwargs(e, ("info", "kernel_state", "model_state"))
        names = ["info", "kernel_state", "model_state"]
        args = dict(zip(names, e.args))
        for k, v in kw.items():
            if k in args:
                self.fail(ret, f"TransitionOutcome argument {k} given twice")
            args[k] = v
        if sorted(args) != sorted(names) or len(e.args) > 3:
            self.fail(ret, "TransitionOutcome without exactly info, kernel_state, model_state")
        i = self.want(args["info"], INFO)
        self.want(args["kernel_state"], KSTATE)
        s = self.want(args["model_state"], MS)
        return V("outcome", f"({i.tm}, ks_step_size, {s.tm})")

    def check_shape(self, is_method):
        n, m = self.node, self.m
        if n.decorator_list:
            m.fail(n, "decorated function: " + ast.unparse(n.decorator_list[0])[:40])
        a = n.args
        if a.vararg or a.kwarg or a.kwonlyargs or a.posonlyargs or a.kw_defaults or a.defaults:
            m.fail(n, "parameter list with * / ** / keyword-only / positional-only parameters or defaults")
        for sub in ast.walk(n):
            if sub is not n and isinstance(sub, FORBIDDEN_INSIDE):
                m.fail(sub, type(sub).__name__ + " inside " + n.name)
        return [p.arg for p in a.args]

    def bind_params(self, names, tys):
        if len(names) != len(tys):
            self.m.fail(self.node, f"{self.node.name} takes {len(names)} parameters, the positional signature of the tie has {len(tys)}")
        if len(set(names)) != len(names):
            self.m.fail(self.node, "duplicate parameter names")
        for nm, ty in zip(names, tys):
            if nm in self.m.aliases:
                self.m.fail(self.node, f"parameter {nm} shadows an imported / aliased name")
            self.env[nm] = V(ty, "v_" + nm) if ty in TERM_TYPES else V(ty)

    def finish(self, head, res):
        return head + " :=\n  " + "\n  ".join(self.lines + [res.tm]) + "."


LIBRARY = {
    "jax.lax.linalg.triangular_solve": "triangular_solve",
    "jax.numpy.matmul": "matmul", "jax.numpy.dot": "matmul",
    "jax.scipy.stats.norm.logpdf": "logpdf",
    "jax.numpy.sum": "sum", "jax.numpy.log": "log", "jax.numpy.exp": "exp", "jax.numpy.sqrt": "sqrt",
    "jax.numpy.diag": "diag", "jax.numpy.diagonal": "diag",
    "jax.random.normal": "normal", "jax.random.split": "split",
    "jax.flatten_util.ravel_pytree": "ravel", "jax.grad": "grad", "jax.jacfwd": "jacfwd",
    GOOSE + ".iwls_utils.solve": "util", GOOSE + ".iwls_utils.mvn_log_prob": "util", GOOSE + ".iwls_utils.mvn_sample": "util",
    GOOSE + ".mh.mh_step": "mh_step", GOOSE + ".kernel.TransitionOutcome": "outcome",
}


# -------------------------------------------------------------------------------------------------
def translate_util(m, node, name):
    sig, res = UTIL_SIGS[name]
    fn = Fn(m, node)
    names = fn.check_shape(False)
    fn.bind_params(names, sig)
    out = fn.body("util")
    if out.ty != res:
        m.fail(node, f"{name} returns a {out.ty}, the tie compares it as a {res}")
    ps = " ".join(f"(v_{p} : {GTYPE[t]})" for p, t in zip(names, sig))
    pre = "{K : Type} (o_normal : K -> nat -> vec) " if name == "mvn_sample" else ""
    txt = fn.finish(f"Definition gen_{name} {pre}{ps} : {GTYPE[res]}", out)
    i = m.info(node, name)
    i["params"] = names
    return txt, i


def mh_default(root):
    """the literal default of mh_step's log_correction, read from mh.py -> (gallina literal, info)"""
    m = Module(root, MH_PY)
    fs = [n for n in m.tree.body if isinstance(n, ast.FunctionDef) and n.name == "mh_step"]
    if len(fs) != 1 or "mh_step" in {k for k, v in m.rebinders().items() if v is not fs[0]} or "mh_step" in m.aliases:
        raise Unsupported(f"{m.rel}: mh_step is not defined exactly once at module level")
    n = fs[0]
    if n.decorator_list:
        m.fail(n, "decorated mh_step")
    a = n.args
    names = [p.arg for p in a.args]
    if a.vararg or a.kwarg or a.kwonlyargs or a.posonlyargs or names != ["prng_key", "model", "proposal", "model_state", "log_correction"]:
        m.fail(n, f"mh_step parameters {names}: the table knows (prng_key, model, proposal, model_state, log_correction)")
    if len(a.defaults) != 1:
        m.fail(n, "mh_step without exactly one default (log_correction)")
    d = a.defaults[0]
    neg = False
    if isinstance(d, ast.UnaryOp) and isinstance(d.op, ast.USub):
        neg, d = True, d.operand
    if not (isinstance(d, ast.Constant) and type(d.value) in (int, float)) or d.value != d.value or abs(d.value) == float("inf"):
        m.fail(n, "default of log_correction that is not a finite numeric literal")
    fr = Fraction(repr(d.value)) if isinstance(d.value, float) else Fraction(d.value)
    last = max([n.lineno] + [getattr(x, "end_lineno", n.lineno) or n.lineno for x in ast.walk(a)] +
               ([n.returns.end_lineno] if n.returns is not None else []))
    seg = "\n".join(m.src.split("\n")[n.lineno - 1:last])
    info = {"file": m.rel, "function": "mh_step (signature only: parameter order and the default of log_correction)",
            "lines": [n.lineno, last],
            "sha256": hashlib.sha256(seg.encode()).hexdigest(), "default": str(-fr if neg else fr)}
    return rlit(-fr if neg else fr), info


TRANS_HEAD = ("{{K I : Type}} (o_split : K -> K * K) (o_normal : K -> nat -> vec) "
              "(o_mh_step : K -> vec -> vec -> R -> I * vec) {extra}(v_{key} : K) (ks_step_size : R) (v_{ms} : vec) : I * R * vec")


def translate_transition(root, rel, cls_name, gname, with_model_fns, mhd):
    m = Module(root, rel)
    cs = [n for n in m.tree.body if isinstance(n, ast.ClassDef) and n.name == cls_name]
    if len(cs) != 1:
        raise Unsupported(f"{m.rel}: class {cls_name} not found exactly once at module level")
    fs = [n for n in cs[0].body if isinstance(n, ast.FunctionDef) and n.name == "_standard_transition"]
    if len(fs) != 1:
        raise Unsupported(f"{m.rel}: {cls_name}._standard_transition not found exactly once")
    node = fs[0]
    fn = Fn(m, node, mh_default=mhd)
    names = fn.check_shape(True)
    fn.bind_params(names, [SELF, KEY, KSTATE, MS, EPOCH])
    out = fn.body("transition")
    re_b = m.rebinders()
    for nm in sorted(fn.used):
        if nm in re_b:
            m.fail(re_b[nm], f"{nm}, which the translated text uses, is also bound by a module-level statement other than an import")
        if nm in m.bound_twice:
            raise Unsupported(f"{m.rel}: {nm} is imported twice with different meanings")
    extra = "(o_score : vec -> vec) (o_chol_info : vec -> tri) " if with_model_fns else ""
    head = "Definition " + gname + " " + TRANS_HEAD.format(extra=extra, key=names[1], ms=names[3])
    i = m.info(node, f"{cls_name}._standard_transition")
    i["params"] = names
    return fn.finish(head, out), i


def translate(root: str):
    """returns {section: {"text": gallina, "info": [..]} or {"error": message}} for the sections
    solve, logprob, sample (iwls_utils.py), iwls (iwls.py), rw (rw.py)"""
    res = {}
    secs = [("solve", "solve"), ("logprob", "mvn_log_prob"), ("sample", "mvn_sample")]
    try:
        m = Module(root, UTILS_PY)
        funcs = check_utils_module(m, [f for _, f in secs])
    except Unsupported as ex:
        funcs = None
        for sec, _ in secs:
            res[sec] = {"error": str(ex)}
    if funcs is not None:
        for sec, name in secs:
            try:
                t, i = translate_util(m, funcs[name], name)
                res[sec] = {"text": t, "info": [i]}
            except Unsupported as ex:
                res[sec] = {"error": str(ex)}
            except RecursionError as ex:
                res[sec] = {"error": "translator recursion limit: " + str(ex)}
    try:
        mhd, mhi = mh_default(root)
    except Unsupported as ex:
        mhd, mhi = None, {"error": str(ex)}
    for sec, rel, cls, gname, fns in (("iwls", IWLS_PY, "IWLSKernel", "gen_iwls_standard_transition", True),
                                     ("rw", RW_PY, "RWKernel", "gen_rw_standard_transition", False)):
        try:
            t, i = translate_transition(root, rel, cls, gname, fns, mhd)
            infos = [i]
            if "(o_mh_step" in t.split(":=", 1)[1] and mhd is not None and sec == "rw":
                infos.append(mhi)
            res[sec] = {"text": t, "info": infos}
        except Unsupported as ex:
            res[sec] = {"error": str(ex)}
        except RecursionError as ex:
            res[sec] = {"error": "translator recursion limit: " + str(ex)}
    return res


if __name__ == "__main__":
    r = translate(sys.argv[1] if len(sys.argv) > 1 else "/repo")
    for sec, d in r.items():
        print(f"(* ---- {sec} ---- *)")
        if "error" in d:
            print("(* FAILED CLOSED:", d["error"], "*)")
        else:
            for i in d["info"]:
                print(f"(* {i['file']} {i['function']} lines {i['lines'][0]}-{i['lines'][1]} sha256 {i['sha256'][:16]} *)")
            print(d["text"])
